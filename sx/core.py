"""Shared plumbing of the checks: snapshots, IR modules, job pool, obligations, evidence, findings, replay."""
import os, sys, re, json, time, subprocess, pickle, hashlib, traceback, signal
from fractions import Fraction
import multiprocessing as mp
sys.path.insert(0, os.path.dirname(os.path.abspath(__file__)))
import build as B
from llir import Module, parse_module
from symex import *

VERIF = B.VERIF
SCRATCH = os.environ.get('VERIF_SCRATCH')      # seed runs: keep evidence/out of a mutated tree away from the real ones
OUT = os.path.join(SCRATCH or VERIF, 'out')
EVID = os.path.join(SCRATCH or VERIF, 'evidence')
KNOWN = os.path.join(VERIF, 'known-findings.txt')

# ------------------------------------------------------------------ snapshots
def load_snapshot(prefix, exe):
    regs = []; roots = {}; allocs = []; arena = (0, 0)
    binf = open(prefix + '.bin', 'rb').read()
    for ln in open(prefix + '.meta'):
        w = ln.split()
        if not w: continue
        if w[0] == 'region':
            a, n, o = int(w[1], 16), int(w[2], 16), int(w[3]); regs.append((a, binf[o:o + n]))
        elif w[0] == 'root': roots[w[1]] = int(w[2], 16)
        elif w[0] == 'alloc': allocs.append((int(w[1], 16), int(w[2], 16)))
        elif w[0] == 'val': roots[w[1]] = w[2]
        elif w[0] == 'arena': arena = (int(w[1], 16), int(w[2], 16))
    syms = _nm(exe)
    s = Snapshot(regs, syms); s.allocs = sorted(allocs); s.arena = arena
    if allocs and arena == (0, 0): raise RuntimeError('snapshot %s has an allocation table but no arena line' % prefix)
    return s, roots

_NM = {}
def _nm(exe):
    if exe in _NM: return _NM[exe]
    syms = {}
    for ln in subprocess.run(['nm', exe], capture_output=True, text=True).stdout.split('\n'):
        w = ln.split()
        if len(w) == 3 and w[1] in 'BDdbRrTtVWwuG': syms[w[2]] = int(w[0], 16)
    _NM[exe] = syms
    return syms

class NativeCrash(Exception):
    def __init__(s, cmd, rc, err): Exception.__init__(s, 'native run killed by signal %d: %s' % (-rc, ' '.join(cmd[-8:]))); s.cmd = cmd; s.rc = rc; s.err = err

def take_snapshot(bld, tag, args, timeout=120):
    """run the native harness: writes <dir>/<tag>.bin/.meta (+ .out reference) and returns (Snapshot, roots, prefix)"""
    prefix = os.path.join(bld['dir'], 'snap-' + tag)
    if not os.path.exists(prefix + '.meta'):
        import fcntl
        with open(prefix + '.lock', 'w') as lk:
            fcntl.flock(lk, fcntl.LOCK_EX)       # one producer per snapshot: native runs are not bit-reproducible (std::random_device)
            if not os.path.exists(prefix + '.meta'):
                tmp = prefix + '.p%d' % os.getpid()
                r = subprocess.run([bld['exe'], 'snap', tmp] + [str(a) for a in args], capture_output=True, text=True, timeout=timeout)
                if r.returncode < 0:      # the real code died of a signal while the harness built its world / made its reference calls natively
                    raise NativeCrash([bld['exe'], 'snap', tmp] + [str(a) for a in args], r.returncode, (r.stderr or '')[-300:])
                if r.returncode != 0:
                    raise RuntimeError('harness snap failed (%s %s): rc=%d %s %s' % (bld['exe'], args, r.returncode, r.stdout[-2000:], r.stderr[-2000:]))
                for ext in ('.calib', '.bin', '.out', '.meta'):
                    if os.path.exists(tmp + ext): os.replace(tmp + ext, prefix + ext)
    snap, roots = load_snapshot(prefix, bld['exe'])
    return snap, roots, prefix

def load_module(bld, names):
    """parse (and cache as pickle) the IR modules `names` of a build into one Module"""
    key = hashlib.sha1(('v3|' + '|'.join(names)).encode()).hexdigest()[:10]      # v2: parser records 'inbounds' on getelementptr; v3: x86_fp80 constants are parsed
    pk = os.path.join(bld['dir'], 'mod-%s.pickle' % key)
    if os.path.exists(pk):
        try:
            return pickle.load(open(pk, 'rb'))
        except Exception: pass
    mod = Module()
    for n in names: parse_module(open(bld['ll'][n]).read(), mod)
    mod.ir_lines = {}
    for n in names:
        pass
    tmp = pk + '.%d' % os.getpid()
    sys.setrecursionlimit(100000)
    pickle.dump(mod, open(tmp, 'wb'), protocol=4); os.replace(tmp, pk)
    return mod

def fn_lines(mod, name):
    f = mod.funcs.get(name)
    return sum(len(b) for b in f.blocks.values()) if f else 0

def find_fn(mod, *frags):
    """mangled name of the unique defined function whose name contains all fragments"""
    c = [n for n in mod.funcs if all(f in n for f in frags)]
    if len(c) != 1: raise KeyError('function lookup %r -> %r' % (frags, c[:6]))
    return c[0]

# ------------------------------------------------------------------ findings
def known_findings():
    res = {'open': [], 'fixed': []}
    if os.path.exists(KNOWN):
        for ln in open(KNOWN):
            ln = ln.strip()
            if not ln or ln.startswith('#'): continue
            m = re.match(r'(open|fixed):\s+property=(\S+)\s+(.*)', ln)
            if not m: continue
            kind, pid, rest = m.groups()
            km = re.match(r'key=(\S+)\s*(.*)', rest)
            res[kind].append({'property': pid, 'key': km.group(1) if km else None, 'text': km.group(2) if km else rest})
    return res

# ------------------------------------------------------------------ obligations
class Ob:
    """result record of one obligation (picklable)"""
    def __init__(s, name, verdict, secs=0.0, detail='', cex=None, key=None, kind='property', nontrivial=True):
        s.name = name; s.verdict = verdict   # 'holds' | 'violated' | 'inconclusive' | 'witness-ok' | 'witness-failed'
        s.secs = secs; s.detail = detail; s.cex = cex; s.key = key; s.kind = kind; s.nontrivial = nontrivial
    def as_dict(s):
        d = {'obligation': s.name, 'verdict': s.verdict, 'seconds': round(s.secs, 3)}
        if s.detail: d['detail'] = s.detail[:400]
        return d

class JobResult:
    def __init__(s):
        s.obs = []; s.paths = 0; s.instrs = 0; s.validated = 0; s.queries = 0; s.solver_s = 0.0; s.funcs = {}; s.log = []; s.error = None; s.memsafety = []; s.xc = {'agree': 0, 'disagree': 0, 'no_answer': 0}

def solve(solver, timeout_ms=60000):
    solver.set('timeout', timeout_ms)
    t = time.time(); r = solver.check(); return r, time.time() - t

CVC5 = '/usr/bin/cvc5'
def crosscheck(res, s, r):
    """second opinion on a sample of the queries: the same assertions as SMT-LIB2 text to cvc5 (10 s).  Agreement / disagreement / no answer are counted in the evidence;
    a disagreement (one solver says sat, the other unsat) makes the obligation inconclusive."""
    n = getattr(res, 'xc_budget', None)
    if n is None: n = res.xc_budget = int(os.environ.get('VERIF_CVC5', '2'))      # queries per job that also go to cvc5
    if n <= 0 or not os.path.exists(CVC5) or r not in (z3.sat, z3.unsat): return None
    res.xc_budget = n - 1
    txt = '(set-logic ALL)\n' + s.sexpr() + '\n(check-sat)\n'
    try:
        o = subprocess.run([CVC5, '--lang=smt2', '--tlimit=10000', '-'], input=txt, capture_output=True, text=True, timeout=20)
        ans = (o.stdout.strip().split('\n') or [''])[-1].strip()
    except Exception: ans = 'timeout'
    xc = res.__dict__.setdefault('xc', {'agree': 0, 'disagree': 0, 'no_answer': 0})
    if ans not in ('sat', 'unsat') or '(error' in (o.stdout + o.stderr if 'o' in dir() else ''): xc['no_answer'] += 1; return None
    if (ans == 'sat') == (r == z3.sat): xc['agree'] += 1; return True
    xc['disagree'] += 1; return False

def prove(res, name, assumptions, negated_goal, timeout_ms=60000, key=None, cex_fn=None, kind='property'):
    """discharge one obligation: unsat(assumptions & negated_goal) == holds.  A model is turned into a cex by cex_fn(model)."""
    s = z3.Solver()
    for a in assumptions: s.add(a)
    s.add(negated_goal)
    r, dt = solve(s, timeout_ms)
    res.queries += 1; res.solver_s += dt
    if r == z3.unknown:
        # no verdict within the budget: look for a model on random rational points (every real constant fixed; what remains is easy).  Only a found model changes the outcome
        # (it is a genuine counterexample of the same query and is replayed natively like any other); no model found leaves the obligation inconclusive.
        import random as _rnd
        consts = {}
        stack = list(s.assertions()); seen = set()
        while stack:
            t = stack.pop()
            if t.get_id() in seen: continue
            seen.add(t.get_id())
            if z3.is_const(t) and t.decl().kind() == z3.Z3_OP_UNINTERPRETED and z3.is_real(t): consts[str(t)] = t
            stack.extend(t.children())
        rg = _rnd.Random(12345)
        for attempt in range(6):
            s.push()
            for nm in sorted(consts): s.add(consts[nm] == z3.RealVal('%d/%d' % (rg.randint(-12, 12) or 1, rg.choice((1, 2, 3, 4)))))
            r2, dt2 = solve(s, 20000); res.queries += 1; res.solver_s += dt2
            if r2 == z3.sat: r = z3.sat; dt += dt2; break
            s.pop()
    if crosscheck(res, s, r) is False:
        ob = Ob(name, 'inconclusive', dt, detail='z3 says %s, cvc5 disagrees' % r, key=key, kind=kind); res.obs.append(ob); return ob
    if r == z3.unsat: ob = Ob(name, 'holds', dt, key=key, kind=kind)
    elif r == z3.sat:
        m = s.model()
        cex = None
        try: cex = cex_fn(m) if cex_fn else None
        except Exception as e: cex = {'error': 'cex extraction failed: %r' % e}
        ob = Ob(name, 'violated', dt, detail=str(cex)[:300], cex=cex, key=key, kind=kind)
    else: ob = Ob(name, 'inconclusive', dt, detail='solver: %s' % s.reason_unknown(), key=key, kind=kind)
    res.obs.append(ob)
    return ob

def witness(res, name, assumptions, goal, timeout_ms=30000):
    """non-vacuity: assumptions & goal must be SAT (e.g. path reachable, output depends on input)"""
    s = z3.Solver()
    for a in assumptions: s.add(a)
    if goal is not None: s.add(goal)
    r, dt = solve(s, timeout_ms)
    res.queries += 1; res.solver_s += dt
    ob = Ob(name, 'witness-ok' if r == z3.sat else ('witness-failed' if r == z3.unsat else 'inconclusive'), dt, kind='witness',
            detail='' if r == z3.sat else 'expected sat, got %s' % r)
    res.obs.append(ob)
    return ob

def mval(m, t):
    """model value of a real/bv term as python number"""
    v = m.eval(t, model_completion=True)
    if z3.is_rational_value(v): return float(Fraction(v.numerator_as_long(), v.denominator_as_long()))
    if z3.is_algebraic_value(v): return float(v.approx(20).as_fraction())
    if z3.is_bv_value(v): return v.as_long()
    if z3.is_int_value(v): return v.as_long()
    if z3.is_true(v): return True
    if z3.is_false(v): return False
    if z3.is_fp(v):
        try: return float(str(z3.simplify(z3.fpToReal(v)).as_fraction()))
        except Exception: return str(v)
    return str(v)

# ------------------------------------------------------------------ running jobs
def _job_wrapper(a):
    fn, args, budget = a
    res = JobResult()
    t0 = time.time()
    def on_alarm(sig, frm): raise TimeoutError('job budget of %ds exceeded' % budget)
    signal.signal(signal.SIGALRM, on_alarm); signal.alarm(int(budget))
    try:
        fn(res, *args)
    except GarbageUse as e:
        res.obs.append(Ob('%s%r: no index or address is computed from heap storage the program never wrote (operator new / malloc return arbitrary bytes)' % (fn.__name__, tuple(args)), 'violated', key='uninitialised-heap-use',
                          detail=str(e), cex={'replay': 'structural', 'what': str(e)}))
    except MemError as e:
        # the executor's allocation table located an access of the real code outside the objects it owns (or a division by zero) in this job's scenario: a finding, not a machinery error
        res.obs.append(Ob('%s%r: every load and store of the real code stays inside an object it owns (allocation table of the snapshot and of the run)' % (fn.__name__, tuple(args)), 'violated', key='memory-safety',
                          detail=str(e)[:300], cex={'replay': 'structural', 'what': str(e)[:300]}))
    except NativeCrash as e:
        # not a machinery error: the real code, linked into the harness and driven with the harness' (legal) scenario, crashed natively
        res.obs.append(Ob('%s%r: the real code runs the scenario natively (world construction and reference calls of the harness) without dying of a signal' % (fn.__name__, tuple(args)), 'violated', key='native-crash',
                          detail=str(e), cex={'replay': 'native-crash', 'cmd': e.cmd, 'signal': -e.rc}))
    except Exception as e:
        res.error = '%s: %s' % (type(e).__name__, e)
        res.log.append(traceback.format_exc()[-3000:])
    finally:
        signal.alarm(0)
    res.wall = time.time() - t0
    res.job = '%s%r' % (fn.__name__, tuple(args))
    return res

def run_jobs(jobs, nproc=None, budget=600):
    """jobs: list of (fn, args).  Run in a process pool; returns list of JobResult"""
    nproc = nproc or min(16, max(1, len(jobs)))
    if os.environ.get('VERIF_SERIAL') or nproc == 1:
        return [_job_wrapper((f, a, budget)) for f, a in jobs]
    ctx = mp.get_context('fork')
    with ctx.Pool(nproc, maxtasksperchild=1) as p:
        return list(p.imap_unordered(_job_wrapper, [(f, a, budget) for f, a in jobs], chunksize=1))

# ------------------------------------------------------------------ the check driver
class Check:
    def __init__(self, pid, tier, design_ref=''):
        self.pid = pid; self.tier = tier; self.t0 = time.time(); self.results = []
        self.assumptions = []; self.bounds = {}; self.stubs = []; self.notes = []
        self.seed = int(os.environ.get('VERIF_SEED', '0') or 0)
        os.makedirs(os.path.join(OUT, pid), exist_ok=True)
        os.makedirs(EVID, exist_ok=True)
        self.replayer = None   # fn(cex_path, cex) -> (reproduced: bool, text)
    def add(self, results): self.results.extend(results)
    def finish(self):
        known = known_findings()
        obs = [o for r in self.results for o in r.obs]
        errors = [r for r in self.results if r.error]
        viol = [o for o in obs if o.verdict == 'violated']
        inconc = [o for o in obs if o.verdict == 'inconclusive']
        wfail = [o for o in obs if o.verdict == 'witness-failed']
        nviol = 0; nknown = 0; mismatch = 0; lines = []
        seen_known = set()
        for i, o in enumerate(viol):
            path = os.path.join(OUT, self.pid, 'cex-%03d.json' % i)
            json.dump({'property': self.pid, 'obligation': o.name, 'key': o.key, 'cex': o.cex}, open(path, 'w'), indent=1, default=str)
            rep, txt = (True, 'no native replay for this obligation class (structural); counterexample is the listed term pair')
            if isinstance(o.cex, dict) and o.cex.get('replay') == 'native-crash':
                try:
                    r_ = subprocess.run(o.cex['cmd'], capture_output=True, text=True, timeout=300); rep = r_.returncode < 0
                    txt = 'native re-run of the harness scenario: %s' % ('killed by signal %d again' % -r_.returncode if rep else 'exit status %d this time' % r_.returncode)
                    for ext in ('.calib', '.bin', '.out', '.meta'):
                        try: os.unlink(o.cex['cmd'][2] + ext)
                        except OSError: pass
                except Exception as e: rep, txt = False, 'replay crashed: %r' % e
            elif self.replayer and o.cex is not None and isinstance(o.cex, dict) and o.cex.get('replay') and o.cex.get('replay') != 'structural':
                try: rep, txt = self.replayer(path, o.cex)
                except Exception as e: rep, txt = False, 'replay crashed: %r' % e
            o.replay = txt
            if not rep:
                mismatch += 1
                lines.append('ENCODING-MISMATCH property=%s obligation=%s model did not reproduce natively: %s (%s)' % (self.pid, o.name, txt, path))
                continue
            k = [f for f in known['open'] if f['property'] == self.pid and f['key'] and o.key and (f['key'] == o.key)]
            if k:
                nknown += 1
                if o.key not in seen_known:
                    seen_known.add(o.key); lines.append('KNOWN-FINDING: property=%s %s %s' % (self.pid, o.key, k[0]['text']))
            else:
                nviol += 1
                lines.append('VIOLATION property=%s replay=%s' % (self.pid, path))
                lines.append('  obligation: %s key=%s :: %s :: %s' % (o.name, o.key, (o.detail or '')[:200], txt[:200]))
        for r in errors: lines.append('ERROR in job %s: %s' % (getattr(r, 'job', '?'), r.error))
        for o in inconc: lines.append('INCONCLUSIVE %s: %s' % (o.name, o.detail))
        for o in wfail: lines.append('WITNESS-FAILED %s: %s (the obligation set would be vacuous here)' % (o.name, o.detail))
        ok = (nviol == 0 and not errors and not inconc and not wfail and mismatch == 0)
        holds = [o for o in obs if o.verdict == 'holds']
        props = [o for o in obs if o.kind == 'property']
        funcs = {}
        for r in self.results: funcs.update(r.funcs)
        samples = [o.as_dict() for o in (viol[:3] + holds[:6] + [o for o in obs if o.kind == 'witness'][:2])]
        ev = {
            'property_id': self.pid, 'tier': self.tier, 'seed': self.seed, 'level': 'model_checking',
            'coverage': {
                'states': max(1, sum(r.paths for r in self.results)),
                'transitions': max(1, sum(r.instrs for r in self.results)),
                'traces_validated_against_impl': sum(r.validated for r in self.results),
                'samples': samples or [{'note': 'no obligations ran'}],
                'obligations': len(props), 'discharged': len([o for o in props if o.verdict == 'holds']),
                'witnesses': len([o for o in obs if o.kind == 'witness']),
                'witnesses_ok': len([o for o in obs if o.verdict == 'witness-ok']),
                'inconclusive': len(inconc), 'job_errors': len(errors), 'known_findings_matched': nknown,
                'encoding_mismatches': mismatch,
                'queries': sum(r.queries for r in self.results), 'solver_s': round(sum(r.solver_s for r in self.results), 2),
                'cvc5_crosscheck': {k: sum(getattr(r, 'xc', {}).get(k, 0) for r in self.results) for k in ('agree', 'disagree', 'no_answer')},
                'functions_encoded': funcs, 'bounds': self.bounds, 'stubs': self.stubs, 'jobs': len(self.results),
                'exhaustive': False,
                'explanation': 'bounded symbolic execution of the real LLVM IR (clang-14 -O1) on native memory snapshots; every obligation is an unsat query to z3 over all values within the bounds',
            },
            'assumptions': self.assumptions + self.notes,
            'wall_s': round(time.time() - self.t0, 2), 'violations': nviol,
        }
        json.dump(ev, open(os.path.join(EVID, self.pid + '.json'), 'w'), indent=1, default=str)
        for l in lines: print(l)
        print('%s tier=%s jobs=%d obligations=%d discharged=%d witnesses=%d/%d violations=%d known=%d inconclusive=%d errors=%d paths=%d instr=%d queries=%d solver=%.1fs wall=%.1fs' % (
            self.pid, self.tier, len(self.results), len(props), ev['coverage']['discharged'], ev['coverage']['witnesses_ok'], ev['coverage']['witnesses'],
            nviol, nknown, len(inconc), len(errors), ev['coverage']['states'], ev['coverage']['transitions'], ev['coverage']['queries'], ev['coverage']['solver_s'], ev['wall_s']))
        if nviol: sys.exit(1)
        if not ok: sys.exit(2)
        sys.exit(0)

# ------------------------------------------------------------------ translator validation
def parse_script(prefix):
    steps = []
    for ln in open(prefix + '.meta'):
        w = ln.split()
        if w and w[0] in ('step', 'expect'): steps.append(w)
    return steps, open(prefix + '.out', 'rb').read()

def decode_arg(ex, a, ret):
    if a == 'ret': return ret
    k, v = a.split(':', 1)
    if k == 'p': return int(v, 16)
    if k == 'i': return int(v) & ((1 << 64) - 1)
    if k == 'f': return ex.dom.from_bits(int(v, 16), 32)
    if k == 'd': return ex.dom.from_bits(int(v, 16), 64)
    raise ValueError(a)

def validate(res, mod, snap, prefix, ext=None, only=None, approx=None, skip=()):
    """translator validation: execute the harness' validation script with the IR interpreter in the concrete IEEE domain on the
    snapshot and compare every expected blob bit for bit with what the native run produced."""
    steps, blob = parse_script(prefix)
    ex = Exec(mod, snap, ConcreteDom(), ext)
    st = State(); ret = None; ok = 0; bad = []
    for w in steps:
        if w[0] == 'step':
            f = mod.funcs[w[1]]
            args = []
            for (t, pn), a in zip(f.params, w[2:]):
                v = decode_arg(ex, a, ret)
                if isinstance(mod.resolve(t), IntTy): v &= (1 << mod.resolve(t).bits) - 1
                args.append(v)
            st = ex.run1(st, w[1], args); ret = st.retval
        else:
            name, how, addr, n, off = w[1], w[2], int(w[3], 16), int(w[4]), int(w[5])
            a = addr if how == 'abs' else ret + addr
            if how == 'ret' and name.endswith('_force'): pass
            got = ex.read_bytes(st, a, n)
            if name in skip: continue
            if got == blob[off:off + n]: ok += 1
            elif approx and name in approx:
                # results that pass through a library the interpreter cannot reproduce bit for bit (FFTW): compare as floats with a stated tolerance
                g = np.frombuffer(got, dtype=np.float32).astype(np.float64); w = np.frombuffer(blob[off:off + n], dtype=np.float32).astype(np.float64)
                if np.all(np.abs(g - w) <= approx[name] * max(1e-30, float(np.max(np.abs(w))))): ok += 1
                else: bad.append(name + ' (beyond tolerance %g: max dev %g of %g)' % (approx[name], float(np.max(np.abs(g - w))), float(np.max(np.abs(w)))))
            else: bad.append(name)
    res.validated += ok; res.instrs += st.nins; res.paths += 1
    for k, v in ex.fcount.items():
        if k in mod.funcs: res.funcs[k] = fn_lines(mod, k)
    if bad:
        raise RuntimeError('translator validation failed: interpreter and native run differ on %s' % bad)
    return ok
