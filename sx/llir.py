"""Minimal parser for clang-14 textual LLVM IR (typed pointers).  Prototype."""
import re, struct

TOK = re.compile(r'''
    (?P<ws>\s+)
  | (?P<str>c?"(?:[^"\\]|\\.)*")
  | (?P<lid>%(?:"(?:[^"\\]|\\.)*"|[-\w.$]+))
  | (?P<gid>@(?:"(?:[^"\\]|\\.)*"|[-\w.$]+))
  | (?P<comdat>\$(?:"(?:[^"\\]|\\.)*"|[-\w.$]+))
  | (?P<md>![-\w.]*)
  | (?P<attr>\#\d+)
  | (?P<cmt>;.*)
  | (?P<hex>0x[KLMHR]?[0-9A-Fa-f]+)
  | (?P<num>-?\d+\.\d*(?:[eE][-+]?\d+)?|-?\d+)
  | (?P<dots>\.\.\.)
  | (?P<word>[A-Za-z_][\w.]*)
  | (?P<punct><\{|\}>|[(){}\[\]<>,=*:|])
''', re.X)

def tokenize(s):
    out = []; i = 0
    while i < len(s):
        m = TOK.match(s, i)
        if not m: raise SyntaxError('tok %r' % s[i:i+40])
        k = m.lastgroup; i = m.end()
        if k in ('ws', 'cmt', 'comdat'): continue
        out.append((k, m.group()))
    return out

# ---------------------------------------------------------------- types
class Ty:
    pass
class IntTy(Ty):
    def __init__(s, bits): s.bits = bits
    def __repr__(s): return 'i%d' % s.bits
class FloatTy(Ty):
    def __init__(s, bits): s.bits = bits
    def __repr__(s): return {32: 'float', 64: 'double', 80: 'x86_fp80'}[s.bits]
class PtrTy(Ty):
    def __init__(s, to): s.to = to
    def __repr__(s): return 'ptr'
class VoidTy(Ty):
    def __repr__(s): return 'void'
class ArrTy(Ty):
    def __init__(s, n, el): s.n = n; s.el = el
    def __repr__(s): return '[%d x %r]' % (s.n, s.el)
class StructTy(Ty):
    def __init__(s, els, packed=False): s.els = els; s.packed = packed
    def __repr__(s): return 'struct%d' % len(s.els)
class NamedTy(Ty):
    def __init__(s, name): s.name = name
    def __repr__(s): return s.name
class FnTy(Ty):
    def __init__(s, ret, args, va): s.ret = ret; s.args = args; s.va = va
    def __repr__(s): return 'fn'
class OtherTy(Ty):
    def __init__(s, n): s.n = n
    def __repr__(s): return s.n

class Module:
    def __init__(self):
        self.types = {}      # name -> Ty (StructTy) or None (opaque)
        self.globals = {}    # name -> (ty, init_const_or_None, is_external)
        self.funcs = {}      # name -> Function
        self.decls = set()
        self.aliases = {}

    # ---- layout
    def resolve(self, t):
        while isinstance(t, NamedTy):
            r = self.types.get(t.name)
            if r is None: raise KeyError('opaque type ' + t.name)
            t = r
        return t
    def sizeof(self, t):
        t = self.resolve(t)
        if isinstance(t, IntTy): return max(1, (t.bits + 7) // 8)
        if isinstance(t, FloatTy): return {32: 4, 64: 8, 80: 16}[t.bits]
        if isinstance(t, PtrTy): return 8
        if isinstance(t, ArrTy): return t.n * self.sizeof(t.el)
        if isinstance(t, StructTy): return self.layout(t)[1]
        raise TypeError('sizeof %r' % t)
    def alignof(self, t):
        t = self.resolve(t)
        if isinstance(t, IntTy): return min(8, 1 << (max(1, (t.bits + 7) // 8) - 1).bit_length())
        if isinstance(t, FloatTy): return {32: 4, 64: 8, 80: 16}[t.bits]
        if isinstance(t, PtrTy): return 8
        if isinstance(t, ArrTy): return self.alignof(t.el)
        if isinstance(t, StructTy):
            if t.packed: return 1
            return max([self.alignof(e) for e in t.els] or [1])
        raise TypeError('alignof %r' % t)
    def layout(self, t):
        c = getattr(t, '_lay', None)
        if c: return c
        offs = []; o = 0
        for e in t.els:
            a = 1 if t.packed else self.alignof(e)
            o = (o + a - 1) // a * a
            offs.append(o); o += self.sizeof(e)
        a = self.alignof(t)
        o = (o + a - 1) // a * a
        t._lay = (offs, o)
        return t._lay

class Function:
    def __init__(s, name, ret, params):
        s.name = name; s.ret = ret; s.params = params  # [(ty,name)]
        s.blocks = {}; s.order = []

class P:
    """token stream"""
    def __init__(s, toks): s.t = toks; s.i = 0
    def peek(s, k=0): return s.t[s.i + k] if s.i + k < len(s.t) else ('eof', '')
    def next(s): r = s.peek(); s.i += 1; return r
    def accept(s, v):
        if s.peek()[1] == v: s.i += 1; return True
        return False
    def expect(s, v):
        if not s.accept(v): raise SyntaxError('expected %r got %r at %r' % (v, s.peek(), s.t[max(0,s.i-6):s.i+4]))

PARAM_ATTRS = {'noundef','nonnull','nocapture','readonly','readnone','writeonly','noalias','signext','zeroext',
               'inreg','returned','nofree','immarg','swiftself','nest','inalloca','noinline'}
def skip_param_attrs(p):
    while True:
        k, v = p.peek()
        if k == 'word' and v in PARAM_ATTRS: p.next(); continue
        if k == 'word' and v in ('align', ):
            p.next(); p.next(); continue
        if k == 'word' and v in ('dereferenceable', 'dereferenceable_or_null', 'sret', 'byval', 'byref', 'preallocated', 'elementtype'):
            p.next(); p.expect('(')
            d = 1
            while d:
                x = p.next()[1]
                if x == '(': d += 1
                elif x == ')': d -= 1
            continue
        break

def parse_type(p):
    k, v = p.next()
    if k == 'word':
        if re.fullmatch(r'i\d+', v): t = IntTy(int(v[1:]))
        elif v == 'float': t = FloatTy(32)
        elif v == 'double': t = FloatTy(64)
        elif v == 'x86_fp80': t = FloatTy(80)
        elif v == 'void': t = VoidTy()
        elif v in ('label', 'metadata', 'token', 'opaque'): t = OtherTy(v)
        else: raise SyntaxError('type word ' + v)
    elif k == 'lid': t = NamedTy(v + CUR[0])
    elif v == '[':
        n = int(p.next()[1]); p.expect('x'); el = parse_type(p); p.expect(']'); t = ArrTy(n, el)
    elif v == '{' or v == '<{':
        els = []
        close = '}' if v == '{' else '}>'
        if not p.accept(close):
            while True:
                els.append(parse_type(p))
                if p.accept(close): break
                p.expect(',')
        t = StructTy(els, v == '<{')
    elif v == '<':
        n = int(p.next()[1]); p.expect('x'); el = parse_type(p); p.expect('>'); t = ArrTy(n, el); t.vector = True
    else:
        raise SyntaxError('type %r' % v)
    while True:
        if p.accept('*'): t = PtrTy(t)
        elif p.peek()[1] == '(' :
            # function type
            p.next(); args = []; va = False
            if not p.accept(')'):
                while True:
                    if p.peek()[0] == 'dots': p.next(); va = True
                    else: args.append(parse_type(p))
                    if p.accept(')'): break
                    p.expect(',')
            t = FnTy(t, args, va)
        elif p.peek()[0] == 'word' and p.peek()[1] == 'addrspace':
            p.next(); p.expect('('); p.next(); p.expect(')')
        else: break
    return t

# constants / operands are represented as tuples:
#  ('int', val) ('fp', pyfloat, bits) ('null',) ('undef',) ('zero',) ('local', name) ('global', name)
#  ('agg', [ (ty,const) ...]) ('cstr', bytes) ('cexpr', op, ...)

def parse_fp(tok, ty):
    if tok.startswith('0x'):
        h = tok[2:]
        if h[0] == 'K' and len(h) == 21:
            # x86 80-bit extended: sign(1) exponent(15) significand(64, explicit integer bit)
            v = int(h[1:], 16); sg = -1.0 if v >> 79 else 1.0; e = (v >> 64) & 0x7fff; m = v & ((1 << 64) - 1)
            if e == 0x7fff: return sg * float('inf') if m << 1 & ((1 << 64) - 1) == 0 else float('nan')
            if m == 0: return sg * 0.0
            from fractions import Fraction
            fr = Fraction(m, 1 << 63) * (Fraction(2) ** (e - 16383) if e else Fraction(2) ** (-16382))
            try: return sg * float(fr)
            except OverflowError: return sg * float('inf')
        if h[0] in 'KLMHR': return float('nan')
        return struct.unpack('>d', bytes.fromhex(h.rjust(16, '0')))[0]
    return float(tok)

def parse_value(p, ty):
    k, v = p.peek()
    if k == 'lid': p.next(); return ('local', v)
    if k == 'gid':
        p.next(); n = v[1:].strip('"')
        if n in CURLOCAL: n = n + CUR[0]
        return ('global', n)
    if k in ('num', 'hex'):
        p.next()
        if isinstance(ty, FloatTy): return ('fp', parse_fp(v, ty), ty.bits)
        return ('int', int(v, 0) if k == 'hex' else int(v))
    if k == 'word':
        if v in ('true', 'false'): p.next(); return ('int', 1 if v == 'true' else 0)
        if v == 'null': p.next(); return ('null',)
        if v in ('undef', 'poison'): p.next(); return ('undef',)
        if v == 'zeroinitializer': p.next(); return ('zero',)
        if v in ('getelementptr', 'bitcast', 'inttoptr', 'ptrtoint', 'trunc', 'zext', 'sext', 'add', 'sub', 'mul', 'and', 'or', 'xor', 'shl', 'lshr', 'icmp', 'select', 'addrspacecast'):
            return parse_cexpr(p)
    if k == 'str':
        p.next()
        s = v[2:-1] if v[0] == 'c' else v[1:-1]
        b = bytearray(); i = 0
        while i < len(s):
            if s[i] == '\\':
                if s[i+1] == '\\': b.append(92); i += 2
                else: b.append(int(s[i+1:i+3], 16)); i += 3
            else: b.append(ord(s[i])); i += 1
        return ('cstr', bytes(b))
    if v in ('{', '<{', '[', '<'):
        p.next(); close = {'{': '}', '<{': '}>', '[': ']', '<': '>'}[v]
        els = []
        if not p.accept(close):
            while True:
                t = parse_type(p); els.append((t, parse_value(p, t)))
                if p.accept(close): break
                p.expect(',')
        return ('agg', els)
    raise SyntaxError('value %r %r' % (k, v))

def parse_cexpr(p):
    op = p.next()[1]
    flags = []
    while p.peek()[0] == 'word' and p.peek()[1] in ('inbounds', 'nuw', 'nsw', 'exact'): flags.append(p.next()[1])
    if op == 'icmp': flags.append(p.next()[1])
    p.expect('(')
    if op == 'getelementptr':
        bt = parse_type(p); p.expect(',')
        ops = []
        while True:
            p.accept('inrange')
            t = parse_type(p); ops.append((t, parse_value(p, t)))
            if p.accept(')'): break
            p.expect(',')
        return ('cexpr', 'getelementptr', bt, ops)
    if op in ('bitcast', 'inttoptr', 'ptrtoint', 'trunc', 'zext', 'sext', 'addrspacecast'):
        t = parse_type(p); v = parse_value(p, t); p.expect('to'); t2 = parse_type(p); p.expect(')')
        return ('cexpr', op, t, v, t2)
    ops = []
    while True:
        t = parse_type(p); ops.append((t, parse_value(p, t)))
        if p.accept(')'): break
        p.expect(',')
    return ('cexpr', op, flags, ops)

BINOPS = {'add','sub','mul','udiv','sdiv','urem','srem','and','or','xor','shl','lshr','ashr','fadd','fsub','fmul','fdiv','frem'}
CASTS = {'trunc','zext','sext','fptrunc','fpext','fptoui','fptosi','uitofp','sitofp','ptrtoint','inttoptr','bitcast','addrspacecast'}
FMF = {'fast','nnan','ninf','nsz','arcp','contract','afn','reassoc'}

def skip_md(p):
    # trailing ", !tbaa !5, align 4 ..." handled by callers; here skip metadata attachments
    while p.accept(','):
        k, v = p.peek()
        if k == 'md':
            p.next();
            if p.peek()[0] == 'md': p.next()
        elif v == 'align': p.next(); p.next()
        else: raise SyntaxError('trailing %r' % (p.peek(),))

def parse_call_tail(p, dst, op):
    # after 'call'/'invoke' keyword
    while p.peek()[0] == 'word' and (p.peek()[1] in FMF or p.peek()[1] in ('fastcc','ccc','coldcc','tail','musttail','notail')): p.next()
    skip_param_attrs(p)
    rt = parse_type(p)
    if isinstance(rt, PtrTy) and isinstance(rt.to, FnTy): rt = rt.to.ret
    if isinstance(rt, FnTy): rt = rt.ret
    callee = parse_value(p, None)
    p.expect('(')
    args = []
    if not p.accept(')'):
        while True:
            t = parse_type(p); skip_param_attrs(p)
            if isinstance(t, OtherTy) and t.n == 'metadata':
                # skip metadata operand
                while p.peek()[1] not in (',', ')'): p.next()
                args.append((t, ('undef',)))
            else:
                args.append((t, parse_value(p, t)))
            if p.accept(')'): break
            p.expect(',')
    # fn attrs
    while p.peek()[0] in ('attr',) or (p.peek()[0] == 'word' and p.peek()[1] in ('nounwind','noreturn','readnone','readonly','cold','builtin','nobuiltin','allocsize')):
        p.next()
    ins = {'op': op, 'dst': dst, 'ty': rt, 'callee': callee, 'args': args}
    if op == 'invoke':
        p.expect('to'); p.expect('label'); ins['normal'] = p.next()[1]
        p.expect('unwind'); p.expect('label'); ins['unwind'] = p.next()[1]
    return ins

def parse_instr(line):
    p = P(tokenize(line))
    dst = None
    if p.peek()[0] == 'lid' and p.peek(1)[1] == '=':
        dst = p.next()[1]; p.next()
    op = p.next()[1]
    if op in ('tail', 'musttail', 'notail'): op = p.next()[1]
    if op in BINOPS:
        flags = []
        while p.peek()[0] == 'word' and (p.peek()[1] in ('nuw','nsw','exact') or p.peek()[1] in FMF): flags.append(p.next()[1])
        t = parse_type(p); a = parse_value(p, t); p.expect(','); b = parse_value(p, t)
        return {'op': op, 'dst': dst, 'ty': t, 'a': a, 'b': b, 'flags': flags}
    if op == 'fneg':
        while p.peek()[1] in FMF: p.next()
        t = parse_type(p); a = parse_value(p, t)
        return {'op': op, 'dst': dst, 'ty': t, 'a': a}
    if op in CASTS:
        t = parse_type(p); a = parse_value(p, t); p.expect('to'); t2 = parse_type(p)
        return {'op': op, 'dst': dst, 'ty': t, 'a': a, 'ty2': t2}
    if op in ('icmp', 'fcmp'):
        while p.peek()[1] in FMF: p.next()
        pred = p.next()[1]; t = parse_type(p); a = parse_value(p, t); p.expect(','); b = parse_value(p, t)
        return {'op': op, 'dst': dst, 'pred': pred, 'ty': t, 'a': a, 'b': b}
    if op == 'load':
        if p.peek()[1] in ('volatile', 'atomic'): p.next()
        if p.peek()[1] == 'volatile': p.next()
        t = parse_type(p); p.expect(','); pt = parse_type(p); a = parse_value(p, pt)
        return {'op': op, 'dst': dst, 'ty': t, 'ptr': a}
    if op == 'store':
        if p.peek()[1] in ('volatile', 'atomic'): p.next()
        if p.peek()[1] == 'volatile': p.next()
        t = parse_type(p); v = parse_value(p, t); p.expect(','); pt = parse_type(p); a = parse_value(p, pt)
        return {'op': op, 'ty': t, 'val': v, 'ptr': a}
    if op == 'getelementptr':
        inb = bool(p.accept('inbounds'))
        bt = parse_type(p); p.expect(',')
        pt = parse_type(p); base = parse_value(p, pt)
        idx = []
        while p.accept(','):
            if p.peek()[0] == 'md': break
            t = parse_type(p); idx.append((t, parse_value(p, t)))
        return {'op': op, 'dst': dst, 'bty': bt, 'base': base, 'idx': idx, 'inbounds': inb}
    if op == 'alloca':
        p.accept('inalloca')
        t = parse_type(p); n = ('int', 1)
        if p.accept(','):
            if p.peek()[1] != 'align':
                nt = parse_type(p); n = parse_value(p, nt)
        return {'op': op, 'dst': dst, 'ty': t, 'n': n}
    if op == 'phi':
        while p.peek()[1] in FMF: p.next()
        t = parse_type(p); inc = []
        while True:
            p.expect('['); v = parse_value(p, t); p.expect(','); b = p.next()[1]; p.expect(']')
            inc.append((v, b))
            if not p.accept(','): break
        return {'op': op, 'dst': dst, 'ty': t, 'inc': inc}
    if op == 'br':
        if p.accept('label'):
            return {'op': 'br', 'target': p.next()[1]}
        t = parse_type(p); c = parse_value(p, t); p.expect(','); p.expect('label'); a = p.next()[1]; p.expect(','); p.expect('label'); b = p.next()[1]
        return {'op': 'condbr', 'cond': c, 't': a, 'f': b}
    if op == 'switch':
        t = parse_type(p); v = parse_value(p, t); p.expect(','); p.expect('label'); d = p.next()[1]; p.expect('[')
        cases = []
        while not p.accept(']'):
            ct = parse_type(p); cv = parse_value(p, ct); p.expect(','); p.expect('label'); cases.append((cv[1], p.next()[1]))
        return {'op': op, 'ty': t, 'val': v, 'default': d, 'cases': cases}
    if op == 'select':
        while p.peek()[1] in FMF: p.next()
        ct = parse_type(p); c = parse_value(p, ct); p.expect(','); t = parse_type(p); a = parse_value(p, t); p.expect(','); t2 = parse_type(p); b = parse_value(p, t2)
        return {'op': op, 'dst': dst, 'ty': t, 'cond': c, 'a': a, 'b': b}
    if op == 'ret':
        t = parse_type(p)
        if isinstance(t, VoidTy): return {'op': 'ret', 'val': None}
        return {'op': 'ret', 'ty': t, 'val': parse_value(p, t)}
    if op in ('call', 'invoke'):
        return parse_call_tail(p, dst, op)
    if op == 'extractvalue':
        t = parse_type(p); a = parse_value(p, t); idx = []
        while p.accept(','): idx.append(int(p.next()[1]))
        return {'op': op, 'dst': dst, 'ty': t, 'a': a, 'idx': idx}
    if op == 'insertvalue':
        t = parse_type(p); a = parse_value(p, t); p.expect(','); t2 = parse_type(p); b = parse_value(p, t2); idx = []
        while p.accept(','): idx.append(int(p.next()[1]))
        return {'op': op, 'dst': dst, 'ty': t, 'a': a, 'ty2': t2, 'b': b, 'idx': idx}
    if op == 'extractelement':
        t = parse_type(p); a = parse_value(p, t); p.expect(','); it = parse_type(p); ix = parse_value(p, it)
        return {'op': op, 'dst': dst, 'ty': t, 'a': a, 'ix': ix}
    if op == 'insertelement':
        t = parse_type(p); a = parse_value(p, t); p.expect(','); t2 = parse_type(p); b = parse_value(p, t2); p.expect(','); it = parse_type(p); ix = parse_value(p, it)
        return {'op': op, 'dst': dst, 'ty': t, 'a': a, 'b': b, 'ix': ix}
    if op == 'shufflevector':
        t = parse_type(p); a = parse_value(p, t); p.expect(','); t2 = parse_type(p); b = parse_value(p, t2); p.expect(','); t3 = parse_type(p); m = parse_value(p, t3)
        return {'op': op, 'dst': dst, 'ty': t, 'a': a, 'b': b, 'mask': m}
    if op in ('unreachable', 'resume', 'landingpad', 'fence', 'freeze', 'atomicrmw', 'cmpxchg'):
        ins = {'op': op, 'dst': dst, 'raw': line}
        if op == 'freeze':
            t = parse_type(p); ins['ty'] = t; ins['a'] = parse_value(p, t)
        if op == 'atomicrmw':
            p.accept('volatile'); ins['rmw'] = p.next()[1]; pt = parse_type(p); ins['ptr'] = parse_value(p, pt); p.expect(','); t = parse_type(p); ins['ty'] = t; ins['val'] = parse_value(p, t)
        if op == 'cmpxchg':
            p.accept('weak'); p.accept('volatile'); pt = parse_type(p); ins['ptr'] = parse_value(p, pt); p.expect(','); t = parse_type(p); ins['ty'] = t; ins['cmp'] = parse_value(p, t); p.expect(','); parse_type(p); ins['new'] = parse_value(p, t)
        return ins
    raise SyntaxError('instr ' + op + ' :: ' + line)

CUR = ['']
CURLOCAL = set()
def parse_module(text, mod=None):
    mod = mod or Module()
    mod.nmods = getattr(mod, 'nmods', 0) + 1
    CUR[0] = '@m%d' % mod.nmods
    lines = text.split('\n')
    # module-local symbols (private/internal linkage) get a per-module suffix, like named types
    CURLOCAL.clear()
    for ln in lines:
        if ln.startswith('@'):
            m = re.match(r'@("[^"]*"|[-\w.$]+) = (private|internal) ', ln)
            if m: CURLOCAL.add(m.group(1).strip('"'))
        elif ln.startswith('define internal ') or ln.startswith('define private '):
            m = re.search(r'@("[^"]*"|[-\w.$]+)\(', ln)
            if m: CURLOCAL.add(m.group(1).strip('"'))
    i = 0
    while i < len(lines):
        ln = lines[i]
        if ln.startswith('%') and ' = type ' in ln:
            name, rest = ln.split(' = type ', 1)
            if rest.strip() == 'opaque': mod.types.setdefault(name + CUR[0], None)
            else: mod.types[name + CUR[0]] = parse_type(P(tokenize(rest)))
        elif ln.startswith('@'):
            p = P(tokenize(ln)); name = p.next()[1][1:].strip('"'); p.expect('=')
            if name in CURLOCAL: name = name + CUR[0]
            words = []
            while p.peek()[0] == 'word' and p.peek()[1] in ('dso_local','internal','private','external','linkonce_odr','weak_odr','available_externally','common','weak','appending','hidden','protected','default','unnamed_addr','local_unnamed_addr','thread_local','constant','global','alias','comdat','extern_weak','linkonce'):
                w = p.next()[1]; words.append(w)
                if w == 'thread_local' and p.accept('('): p.next(); p.expect(')')
            if 'alias' in words:
                parse_type(p); p.expect(','); t = parse_type(p); mod.aliases[name] = parse_value(p, t)[1]
            else:
                t = parse_type(p); init = None
                if 'external' not in words and 'extern_weak' not in words:
                    try: init = parse_value(p, t)
                    except SyntaxError: init = ('zero',)
                mod.globals[name] = (t, init, init is None)
        elif ln.startswith('define '):
            hdr = ln
            p = P(tokenize(hdr[len('define '):]))
            while p.peek()[0] == 'word' and p.peek()[1] in ('dso_local','internal','private','linkonce_odr','weak_odr','available_externally','weak','hidden','protected','default','fastcc','ccc','coldcc','linkonce','unnamed_addr','local_unnamed_addr'): p.next()
            skip_param_attrs(p)
            rt = parse_type.__wrapped__(p) if hasattr(parse_type, '__wrapped__') else _parse_ret_type(p)
            name = p.next()[1][1:].strip('"')
            if name in CURLOCAL: name = name + CUR[0]
            p.expect('(')
            params = []
            if not p.accept(')'):
                while True:
                    if p.peek()[0] == 'dots': p.next()
                    else:
                        t = parse_type(p); skip_param_attrs(p)
                        pn = p.next()[1] if p.peek()[0] == 'lid' else None
                        params.append((t, pn))
                    if p.accept(')'): break
                    p.expect(',')
            f = Function(name, rt, params)
            # implicit numbering: first block label = number of params (unnamed) -- clang names entry implicitly
            cur = None; i += 1
            first = True
            while not lines[i].startswith('}'):
                l = lines[i]
                s = l.strip()
                if not s or s.startswith(';'): i += 1; continue
                m = re.match(r'^([-\w.$]+|"[^"]*"):', l)
                if m:
                    cur = '%' + m.group(1); f.blocks[cur] = []; f.order.append(cur)
                else:
                    if cur is None:
                        cur = '%entry#'; f.blocks[cur] = []; f.order.append(cur)
                    # multi-line switch / landingpad
                    if s.startswith('switch ') or ' = landingpad' in s or s.startswith('landingpad'):
                        if s.startswith('switch') and not s.rstrip().endswith(']'):
                            while not lines[i].strip().endswith(']'):
                                i += 1; s += ' ' + lines[i].strip()
                        else:
                            while i + 1 < len(lines) and re.match(r'^\s+(catch|cleanup|filter)\b', lines[i+1]):
                                i += 1; s += ' ' + lines[i].strip()
                    if re.search(r'(^|= )invoke ', s) and ' unwind label ' not in s:
                        i += 1; s += ' ' + lines[i].strip()
                    # strip trailing metadata / attrs
                    s2 = re.sub(r'(,\s*![\w.]+\s*![\w.]*\d*)+\s*$', '', s)
                    s2 = re.sub(r',\s*align\s+\d+\s*$', '', s2)
                    s2 = re.sub(r'(,\s*![\w.]+\s*![\w.]*\d*)+\s*$', '', s2)
                    s2 = re.sub(r',\s*align\s+\d+\s*$', '', s2)
                    ins = parse_instr(s2)
                    ins['line'] = i + 1
                    f.blocks[cur].append(ins)
                i += 1
            # the implicit entry label: LLVM numbers it after the params
            if '%entry#' in f.blocks:
                n = sum(1 for t, pn in params if pn is None or re.fullmatch(r'%\d+', pn))
                lab = '%' + str(n)
                f.blocks[lab] = f.blocks.pop('%entry#'); f.order[0] = lab
            mod.funcs[name] = f
        elif ln.startswith('declare '):
            m = re.search(r'@("[^"]*"|[-\w.$]+)\(', ln)
            if m: mod.decls.add(m.group(1).strip('"'))
        i += 1
    return mod

def _parse_ret_type(p):
    return parse_type(p)
