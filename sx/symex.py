"""Symbolic executor for clang-14 textual LLVM IR over a native memory snapshot.

Values: ints are python ints (concrete) or z3 bit-vectors / Bools (i1); pointers are concrete addresses; floats live in a
pluggable domain (ConcreteDom = IEEE via numpy/libm, RealDom = exact reals, FPDom = z3 IEEE terms, UDom = opaque patterns).
Memory: copy-on-write pages over the snapshot + a cell map for symbolic values.  Every access is checked against the
allocation table (snapshot arena allocations + the executor's own heap)."""
import os, struct, copy, math, time, sys, bisect, ctypes, re
from fractions import Fraction
import numpy as np
import z3
from llir import *

_libm = ctypes.CDLL('libm.so.6')
def _cf(name, nargs=1, dbl=False):
    f = getattr(_libm, name); t = ctypes.c_double if dbl else ctypes.c_float
    f.restype = t; f.argtypes = [t] * nargs
    return f
LIBM = {}   # name -> (ctypes fn, nargs, bits)
for _n, _k, _d in (('tanf', 1, 0), ('sinf', 1, 0), ('cosf', 1, 0), ('asinf', 1, 0), ('sqrtf', 1, 0), ('expf', 1, 0), ('logf', 1, 0), ('powf', 2, 0),
                   ('tan', 1, 1), ('sin', 1, 1), ('cos', 1, 1), ('asin', 1, 1), ('sqrt', 1, 1), ('exp', 1, 1), ('log', 1, 1), ('pow', 2, 1), ('cbrt', 1, 1), ('cbrtf', 1, 0),
                   ('floorf', 1, 0), ('ceilf', 1, 0), ('roundf', 1, 0), ('floor', 1, 1), ('ceil', 1, 1), ('round', 1, 1), ('fabsf', 1, 0), ('fabs', 1, 1),
                   ('log2', 1, 1), ('log2f', 1, 0), ('atan2', 2, 1), ('fmod', 2, 1), ('fmodf', 2, 0), ('log10', 1, 1), ('exp2', 1, 1), ('atan', 1, 1), ('atanf', 1, 0), ('acos', 1, 1), ('remainder', 2, 1), ('remainderf', 2, 0)):
    LIBM[_n] = (_cf(_n, _k, bool(_d)), _k, 64 if _d else 32)

MASK = lambda b: (1 << b) - 1
def sgn(v, b): return v - (1 << b) if v >> (b - 1) else v

class Unsupported(Exception): pass
class MemError(Exception): pass
CALL_REAL = object()      # returned by an external-function handler: run the function's own IR after all
class GarbageUse(MemError): pass   # an index / address computed from never-written heap bytes (garbage_heap mode): a finding about the code under test, not a limit of the executor
class PathEnd(Exception): pass      # a modelled noreturn (abort, assert fail, throw) ends this path
class CxxThrow(Exception):
    """a C++ exception in flight: object address + mangled name of its std::type_info"""
    def __init__(s, obj, tinfo): s.obj = obj; s.tinfo = tinfo

# ------------------------------------------------------------------ float domains
def _np(bits): return np.float32 if bits == 32 else np.float64
class ConcreteDom:
    """IEEE semantics with numpy scalars + the process's libm (validates the interpreter against native runs)."""
    name = 'concrete'
    def const(s, x, bits): return _np(bits)(x)
    def from_bits(s, v, bits): return np.frombuffer(int(v).to_bytes(bits // 8, 'little'), dtype=_np(bits))[0]
    def to_bits(s, x, bits): return int.from_bytes(np.array([x], dtype=_np(bits)).tobytes(), 'little')
    def is_conc(s, x): return True
    def bin(s, op, a, b, bits):
        with np.errstate(all='ignore'):
            if op == 'frem': return _np(bits)(math.fmod(float(a), float(b)))
            return {'fadd': lambda: a + b, 'fsub': lambda: a - b, 'fmul': lambda: a * b, 'fdiv': lambda: a / b}[op]()
    def neg(s, a): return -a
    def cmp(s, pred, a, b):
        un = bool(np.isnan(a) or np.isnan(b))
        r = {'oeq': a == b, 'ogt': a > b, 'oge': a >= b, 'olt': a < b, 'ole': a <= b, 'one': a != b and not un, 'ord': not un,
             'ueq': a == b or un, 'ugt': a > b or un, 'uge': a >= b or un, 'ult': a < b or un, 'ule': a <= b or un, 'une': a != b or un, 'uno': un,
             'true': True, 'false': False}[pred]
        return int(bool(r))
    def conv(s, a, frm, to): return _np(to)(a)
    def from_int(s, v, signed, ibits, bits):
        if signed: v = sgn(v, ibits)
        return _np(bits)(v)
    def fn(s, name, args, bits):
        f, k, b = LIBM[name]
        return _np(b)(f(*[float(a) for a in args]))
    def z(s, x): raise Unsupported('concrete value to term')

class RealDom:
    """floats as exact reals: Fraction when concrete, z3 Real terms when symbolic."""
    name = 'real'
    def __init__(s, round_concrete=False):
        s.ufs = {}; s.div0_fresh = False; s.nfresh = 0
        s.round_concrete = round_concrete      # concrete (operand-wise constant) arithmetic is rounded like IEEE, so values built in IR equal natively built ones
    def _rc(s, r, bits):
        if not s.round_concrete: return r
        return Fraction(float(np.float32(float(r)))) if bits == 32 else Fraction(float(r))
    def _div0(s):
        if not s.div0_fresh: raise Unsupported('division by zero in real domain')
        s.nfresh += 1; return z3.Real('div0_%d' % s.nfresh)
    def const(s, x, bits):
        if math.isnan(x) or math.isinf(x): return float(x)        # NaN / +-inf constants (operands of selects in NaN-recovery code): they may be moved around, any arithmetic on them is refused; comparisons against +-inf are meaningful (every real is finite)
        return Fraction(float(x))
    def from_bits(s, v, bits):
        f = struct.unpack('<f' if bits == 32 else '<d', int(v).to_bytes(bits // 8, 'little'))[0]
        if math.isnan(f) or math.isinf(f): raise Unsupported('non-finite float in real domain')
        return Fraction(f)
    def to_bits(s, x, bits):
        if isinstance(x, Fraction):
            return int.from_bytes(struct.pack('<f' if bits == 32 else '<d', float(x)), 'little')
        raise Unsupported('real -> bits')
    def is_conc(s, x): return isinstance(x, (Fraction, float))
    def z(s, x): return z3.RealVal(str(x)) if isinstance(x, Fraction) else x
    def bin(s, op, a, b, bits):
        if isinstance(a, float) or isinstance(b, float): raise Unsupported('arithmetic on a non-finite constant in the real domain')
        if isinstance(a, Fraction) and isinstance(b, Fraction):
            if op == 'fdiv' and b == 0: return s._div0()
            return s._rc({'fadd': lambda: a + b, 'fsub': lambda: a - b, 'fmul': lambda: a * b, 'fdiv': lambda: a / b}[op](), bits)
        if op == 'fmul':
            if isinstance(a, Fraction) and a == 0: return a
            if isinstance(b, Fraction) and b == 0: return b
            if isinstance(a, Fraction) and a == 1: return b
            if isinstance(b, Fraction) and b == 1: return a
        if op in ('fadd',):
            if isinstance(a, Fraction) and a == 0: return b
            if isinstance(b, Fraction) and b == 0: return a
        if op == 'fsub' and isinstance(b, Fraction) and b == 0: return a
        if op == 'fdiv' and isinstance(a, Fraction) and a == 0: return a      # 0/x = 0 (x = 0 would be NaN: non-finite values are outside the real domain)
        if op == 'fdiv' and isinstance(b, Fraction):
            if b == 0: return s._div0()
            return s.z(a) * z3.RealVal(str(1 / b))
        a, b = s.z(a), s.z(b)
        return {'fadd': lambda: a + b, 'fsub': lambda: a - b, 'fmul': lambda: a * b, 'fdiv': lambda: a / b}[op]()
    def neg(s, a): return -a
    def cmp(s, pred, a, b):
        if pred in ('uno', 'false'): return 0
        if pred in ('ord', 'true'): return 1
        p = pred[1:]
        if isinstance(a, (Fraction, float)) and isinstance(b, (Fraction, float)):
            return int({'eq': a == b, 'gt': a > b, 'ge': a >= b, 'lt': a < b, 'le': a <= b, 'ne': a != b}[p])
        if isinstance(a, float) or isinstance(b, float):      # symbolic (finite) real against +-inf
            inf, flip = (b, False) if isinstance(b, float) else (a, True)
            pos = inf > 0
            r = {'eq': False, 'ne': True, 'lt': pos, 'le': pos, 'gt': not pos, 'ge': not pos}[p]
            if flip: r = {'eq': False, 'ne': True, 'lt': not pos, 'le': not pos, 'gt': pos, 'ge': pos}[p]
            return int(r)
        a, b = s.z(a), s.z(b)
        return {'eq': a == b, 'gt': a > b, 'ge': a >= b, 'lt': a < b, 'le': a <= b, 'ne': a != b}[p]
    def conv(s, a, frm, to): return s._rc(a, to) if isinstance(a, Fraction) else a
    def from_int(s, v, signed, ibits, bits):
        if isinstance(v, int): return s._rc(Fraction(sgn(v, ibits) if signed else v), bits)
        if z3.is_bool(v): return z3.If(v, z3.RealVal(1), z3.RealVal(0))
        return z3.ToReal(z3.BV2Int(v, signed))
    def uf(s, name, k):
        f = s.ufs.get(name)
        if f is None: f = s.ufs[name] = z3.Function(name, *([z3.RealSort()] * (k + 1)))
        return f
    def fn(s, name, args, bits):
        base = name[:-1] if (name.endswith('f') and name[:-1] in ('tan', 'sin', 'cos', 'asin', 'sqrt', 'exp', 'log', 'pow', 'cbrt', 'floor', 'ceil', 'round', 'fabs', 'atan', 'log2', 'fmod')) else name
        if all(isinstance(a, Fraction) for a in args):
            if base == 'fabs': return abs(args[0])
            if base == 'floor': return Fraction(math.floor(args[0]))
            if base == 'ceil': return Fraction(math.ceil(args[0]))
            if base == 'round':
                v = args[0]; return Fraction(math.floor(v + Fraction(1, 2)) if v >= 0 else -math.floor(-v + Fraction(1, 2)))
            if base == 'pow' and args[1].denominator == 1 and 0 <= args[1] <= 8: return args[0] ** int(args[1])
            if base == 'sqrt':
                r = Fraction(math.isqrt(args[0].numerator), 1) / Fraction(math.isqrt(args[0].denominator), 1) if args[0] >= 0 else None
                if r is not None and r * r == args[0]: return r
            f, k, b = LIBM[name]
            r = f(*[float(a) for a in args])
            if math.isnan(r) or math.isinf(r): raise Unsupported('non-finite result of %s%r in real domain' % (name, tuple(float(a) for a in args)))
            return Fraction(r)
        if base == 'fabs': return z3.If(s.z(args[0]) >= 0, s.z(args[0]), -s.z(args[0]))
        if base == 'pow' and isinstance(args[1], Fraction) and args[1].denominator == 1 and 0 <= args[1] <= 8:
            r = z3.RealVal(1)
            for _ in range(int(args[1])): r = r * s.z(args[0])
            return r
        return s.uf('uf_' + base, len(args))(*[s.z(a) for a in args])

# ------------------------------------------------------------------ snapshot
class Snapshot:
    def __init__(self, regions=(), symbols=None):
        self.regions = sorted(regions)        # (base, bytes)
        self.symbols = symbols or {}          # name -> addr
        self.addr2syms = {}
        for n, a in self.symbols.items(): self.addr2syms.setdefault(a, []).append(n)
        self.allocs = []; self.arena = (0, 0)
    def read(self, addr, n):
        for base, data in self.regions:
            if base <= addr and addr + n <= base + len(data):
                return data[addr - base: addr - base + n]
        return None
    def mapped(self, addr, n):
        for base, data in self.regions:
            if base <= addr and addr + n <= base + len(data): return True
        return False

class Forks:
    def __init__(s, alts): s.alts = alts   # [(constraints, retval, effect(state))]
class Packed:
    """a multi-cell value moved around by wider integer loads/stores"""
    def __init__(s, parts): s.parts = parts  # [(size, kind, val)]
class FBits:
    """bit pattern of a non-concrete float living in an integer register"""
    def __init__(s, val, bits): s.val = val; s.bits = bits

class Frame:
    __slots__ = ('fn', 'blk', 'ip', 'prev', 'loc', 'ret_to', 'allocas', 'active_invoke')
    def __init__(s, fn): s.fn = fn; s.blk = fn.order[0]; s.ip = 0; s.prev = None; s.loc = {}; s.ret_to = None; s.allocas = []; s.active_invoke = None

class State:
    def __init__(s):
        s.frames = []; s.pages = {}; s.sym = {}; s.pc = []; s.heap = 0x7000_0000_0000; s.allocs = {}
        s.events = []; s.nins = 0; s.retval = None; s.ranges = {}; s.wlog = None; s.extra = {}; s.aver = 0; s.gseen = 0
    def fork(s):
        n = State.__new__(State)
        n.frames = []
        for f in s.frames:
            g = Frame.__new__(Frame); g.fn = f.fn; g.blk = f.blk; g.ip = f.ip; g.prev = f.prev; g.loc = dict(f.loc); g.ret_to = f.ret_to; g.allocas = list(f.allocas); g.active_invoke = f.active_invoke
            n.frames.append(g)
        n.pages = {k: bytearray(v) for k, v in s.pages.items()}
        n.sym = dict(s.sym); n.pc = list(s.pc); n.heap = s.heap; n.allocs = dict(s.allocs); n.events = list(s.events); n.nins = s.nins; n.retval = None
        n.gseen = getattr(s, 'gseen', 0)
        n.aver = s.aver; n.ranges = dict(s.ranges); n.wlog = None if s.wlog is None else list(s.wlog); n.extra = copy.deepcopy(s.extra)
        return n

EXEC_HEAP = 0x7000_0000_0000

class Exec:
    def __init__(self, mod, snap, dom, externals=None, max_ins=20_000_000):
        self.m = mod; self.snap = snap; self.dom = dom; self.ext = dict(DEFAULT_EXT); self.ext.update(externals or {})
        self.solver = z3.Solver(); self.max_ins = max_ins
        self.stats = {'queries': 0, 'solver_s': 0.0, 'paths': 0, 'forks': 0}
        self.gaddr = {}     # IR globals not present in the snapshot get addresses here
        self.gnext = 0x6000_0000_0000
        self.faddr = {}; self.addr2f = {}
        self.ginit = []; self.gimg = State(); self.glog = []      # glog: (address, size) of every IR-only global materialised so far, in order
        self.int_range = (-64, 64)
        self.check_mem = True
        self.fcount = {}
        self.intof = {}
        self._alloc_starts = [a for a, n in snap.allocs]
        self.branch_timeout = 30000
        self.ext_prefix = [('_ZN4vfps7Display9printText', ext_noop)]      # logging is not the subject
        self.max_paths = 1500
        self.track_uninit = False    # optional: flag scalar loads from never-written stack bytes (allocas; re-poisoned by llvm.lifetime.start)
        self.garbage_heap = (getattr(dom, 'name', '') != 'concrete') and not os.environ.get('VERIF_NO_GARBAGE')    # optional: storage obtained from operator new / malloc during the run holds arbitrary bytes - a scalar load of never-written bytes yields a fresh symbol (garb_<addr>)
        self.garbage_stack = not os.environ.get('VERIF_NO_GARBAGE_STACK')      # locals hold arbitrary bytes until written, like heap storage
        self.check_gep = True        # inbounds address computations must stay inside the object they start in (only where the base lies in a known heap allocation)
        self.fork_guide = None       # optional: fork_guide(st, cond, true_block, false_block) -> None | True | False, asked before fork_filter
        self.round_toint = False     # symbolic round/ceil/floor/fp-to-int as fresh mathematical integers (no enumeration of integer parts)
        self.intsym = {}             # id of ToReal(k) term -> (term, k)
        self.intarg = {}             # name of k -> (rounding function, its real argument)
        self.fork_filter = None      # optional: decide a genuine two-way fork (path-tree partitioning); returns None (explore both) | True | False
        self.time_budget = 150

    # ---------------- memory
    def _page(self, st, addr, create):
        pn = addr >> 12
        pg = st.pages.get(pn)
        if pg is None:
            gi = self.gimg.pages.get(pn) if st is not self.gimg else None
            base = bytes(gi) if gi is not None else self.snap.read(pn << 12, 4096)
            if base is None:
                b = bytearray(4096); ok = False
                for i in range(0, 4096, 8):
                    d = self.snap.read((pn << 12) + i, 8)
                    if d is not None: b[i:i+8] = d; ok = True
                if not ok and not create: return None
                base = bytes(b)
            pg = bytearray(base)
            st.pages[pn] = pg
        return pg
    def check_access(self, st, addr, n, what):
        """allocation-granular bounds check (like ASan without red zones inside objects)"""
        if not self.check_mem or n == 0: return
        if addr >= EXEC_HEAP:
            # executor heap: must be inside one live allocation
            for a, sz in st.allocs.items() if len(st.allocs) < 8 else self._near_allocs(st, addr):
                if a <= addr and addr + n <= a + sz: return
            raise MemError('%s of %d bytes at 0x%x is outside every live allocation (executor heap)' % (what, n, addr))
        a0, an = self.snap.arena
        if a0 <= addr < a0 + an or (a0 <= addr + n - 1 < a0 + an):
            i = bisect.bisect_right(self._alloc_starts, addr) - 1
            if i >= 0:
                a, sz = self.snap.allocs[i]
                if a <= addr and addr + n <= a + sz: return
            raise MemError('%s of %d bytes at 0x%x is outside every allocation of the snapshot arena' % (what, n, addr))
        if addr < 4096: raise MemError('%s of %d bytes at null+0x%x' % (what, n, addr))
        if 0x5000_0000_0000 <= addr < EXEC_HEAP: return
        if not self.snap.mapped(addr, n): raise MemError('%s of %d bytes at unmapped address 0x%x' % (what, n, addr))
    def check_inbounds(self, st, base, res):
        """getelementptr inbounds: base and result must lie in (or one past the end of) the same allocated object - the provenance the allocation table alone does not have"""
        al = None
        if base >= EXEC_HEAP:
            for a, sz in self._near_allocs(st, base):
                if a <= base <= a + sz: al = (a, sz)
        else:
            a0, an = self.snap.arena
            if a0 <= base <= a0 + an:
                i = bisect.bisect_right(self._alloc_starts, base) - 1
                if i >= 0 and self.snap.allocs[i][0] <= base <= self.snap.allocs[i][0] + self.snap.allocs[i][1]: al = self.snap.allocs[i]
        if al is not None and not (al[0] <= res <= al[0] + al[1]):
            raise MemError('inbounds address computation leaves its object: base 0x%x in allocation [0x%x, +%d), result 0x%x' % (base, al[0], al[1], res))
    def _near_allocs(self, st, addr):
        ks = getattr(st, '_aks', None)
        if ks is None or getattr(st, '_aver', -1) != st.aver: ks = st._aks = sorted(st.allocs); st._aver = st.aver
        i = bisect.bisect_right(ks, addr) - 1
        return [(ks[i], st.allocs[ks[i]])] if i >= 0 else []
    def read_bytes(self, st, addr, n):
        out = bytearray()
        while n:
            pg = self._page(st, addr, False)
            if pg is None: raise MemError('read of unmapped address 0x%x' % addr)
            o = addr & 4095; k = min(n, 4096 - o)
            out += pg[o:o+k]; addr += k; n -= k
        return bytes(out)
    def write_bytes(self, st, addr, data):
        if self.garbage_heap and addr >= EXEC_HEAP and 'garb' in st.extra: self._garb_clear(st, addr, len(data))
        i = 0
        while i < len(data):
            pg = self._page(st, addr + i, True)
            o = (addr + i) & 4095; k = min(len(data) - i, 4096 - o)
            pg[o:o+k] = data[i:i+k]; i += k
    def _overlap(self, st, addr, n):
        r = []
        sym = st.sym
        if not sym: return r
        for a in range(addr - 15, addr + n):
            c = sym.get(a)
            if c is not None and a + c[0] > addr: r.append(a)
        return r
    def store(self, st, addr, ty, val):
        ty = self.m.resolve(ty); n = self.m.sizeof(ty)
        if not isinstance(addr, int): raise Unsupported('symbolic store address')
        if isinstance(ty, (StructTy, ArrTy)):
            self.store_agg(st, addr, ty, val); return
        self.check_access(st, addr, n, 'store')
        if st.wlog is not None: st.wlog.append((addr, n))
        if self.track_uninit: self._mark_init(st, addr, n)
        if self.garbage_heap and addr >= EXEC_HEAP: self._garb_clear(st, addr, n)
        for a in self._overlap(st, addr, n):
            sz, kind, v = st.sym.pop(a)
            if a < addr or a + sz > addr + n:
                raise Unsupported('partial overwrite of symbolic cell at 0x%x' % a)
        if isinstance(val, Packed):
            o = 0
            for sz, kind, v in val.parts:
                if kind == 'bytes': self.write_bytes(st, addr + o, v)
                else: st.sym[addr + o] = (sz, kind, v)
                o += sz
            return
        if isinstance(ty, FloatTy):
            if self.dom.name in ('concrete', 'fp') and self.dom.is_conc(val):
                self.write_bytes(st, addr, self.dom.to_bits(val, ty.bits).to_bytes(n, 'little'))
            else:
                st.sym[addr] = (n, 'f', val)
            return
        if isinstance(val, FBits):
            st.sym[addr] = (n, 'f', val.val); return
        if isinstance(val, int):
            self.write_bytes(st, addr, (val & MASK(8 * n)).to_bytes(n, 'little'))
        else:
            if z3.is_bool(val): val = z3.If(val, z3.BitVecVal(1, 8 * n), z3.BitVecVal(0, 8 * n))
            st.sym[addr] = (n, 'i', val)
    def _addr_alts(self, addr):
        # a pointer chosen by a select between two concrete objects (std::min / std::max return references): (condition, address if true, address if false)
        if z3.is_expr(addr) and z3.is_app_of(addr, z3.Z3_OP_ITE):
            c, a, b = addr.children()
            if z3.is_bv_value(a) and z3.is_bv_value(b): return c, a.as_long(), b.as_long()
        return None
    def load(self, st, addr, ty):
        ty = self.m.resolve(ty); n = self.m.sizeof(ty)
        if not isinstance(addr, int):
            alt = self._addr_alts(addr)
            if alt is None and z3.is_bv(addr) and not isinstance(ty, (StructTy, ArrTy)):
                # table lookup: the feasible addresses under the path condition (at most 64), one load each, chosen by the address
                vals = []; sol = z3.Solver(); sol.set('timeout', self.branch_timeout)
                for c in st.pc: sol.add(c)
                while len(vals) <= 64:
                    r = sol.check(); self.stats['queries'] += 1
                    if r == z3.unknown: raise Unsupported('solver unknown while enumerating a symbolic address')
                    if r != z3.sat: break
                    a = sol.model().eval(addr, model_completion=True).as_long(); vals.append(a); sol.add(addr != z3.BitVecVal(a, 64))
                if not vals or len(vals) > 64: raise Unsupported('symbolic load address with %s feasible values' % ('no' if not vals else 'more than 64'))
                out = None
                for a in reversed(vals):
                    v = self.load(st, a, ty)
                    if out is None: out = v
                    elif isinstance(ty, FloatTy): out = z3.If(addr == z3.BitVecVal(a, 64), self.dom.z(v), self.dom.z(out))
                    else: out = self.ite(addr == z3.BitVecVal(a, 64), v, out, ty)
                return out
            if alt is not None and not isinstance(ty, (StructTy, ArrTy)):
                c, a, b = alt; va = self.load(st, a, ty); vb = self.load(st, b, ty)
                if isinstance(ty, FloatTy): return z3.If(c, self.dom.z(va), self.dom.z(vb))
                return self.ite(c, va, vb, ty)
            raise Unsupported('symbolic load address')
        if isinstance(ty, (StructTy, ArrTy)): return self.load_agg(st, addr, ty)
        self.check_access(st, addr, n, 'load')
        if self.track_uninit and self._is_uninit(st, addr, n):
            fr_ = st.frames[-1] if st.frames else None
            st.extra.setdefault('uninit_reads', []).append((fr_.fn.name if fr_ else '?', addr, n))
        if self.garbage_heap and addr >= EXEC_HEAP and 'garb' in st.extra:
            g = self._garb_load(st, addr, n, ty)
            if g is not None: return g
        ov = self._overlap(st, addr, n)
        if ov:
            if len(ov) == 1 and ov[0] == addr and st.sym[addr][0] == n:
                sz, kind, v = st.sym[addr]
                if isinstance(ty, FloatTy):
                    if kind == 'f': return v
                    raise Unsupported('float load of int cell')
                if kind == 'i': return v
                if kind == 'f': return FBits(v, 8 * n)
            if len(ov) == 1 and st.sym[ov[0]][1] == 'i' and ov[0] <= addr and addr + n <= ov[0] + st.sym[ov[0]][0] and isinstance(ty, IntTy):
                sz, kind, v = st.sym[ov[0]]; lo = 8 * (addr - ov[0])
                return z3.simplify(z3.Extract(lo + 8 * n - 1, lo, v))
            parts = []; a = addr
            while a < addr + n:
                c = st.sym.get(a)
                if c is not None and a + c[0] <= addr + n:
                    parts.append(c); a += c[0]
                else:
                    if self._overlap(st, a, 1): raise Unsupported('misaligned symbolic load at 0x%x' % a)
                    parts.append((1, 'bytes', self.read_bytes(st, a, 1))); a += 1
            merged = []
            for p in parts:
                if p[1] == 'bytes' and merged and merged[-1][1] == 'bytes':
                    merged[-1] = (merged[-1][0] + 1, 'bytes', merged[-1][2] + p[2])
                else: merged.append(p)
            return Packed(merged)
        b = self.read_bytes(st, addr, n)
        v = int.from_bytes(b, 'little')
        if isinstance(ty, FloatTy): return self.dom.from_bits(v, ty.bits)
        if isinstance(ty, IntTy): return v & MASK(ty.bits)
        return v
    def load_agg(self, st, addr, ty):
        if isinstance(ty, ArrTy):
            es = self.m.sizeof(ty.el); return [self.load(st, addr + i * es, ty.el) for i in range(ty.n)]
        offs, _ = self.m.layout(ty)
        return [self.load(st, addr + o, e) for o, e in zip(offs, ty.els)]
    def store_agg(self, st, addr, ty, val):
        if isinstance(ty, ArrTy):
            es = self.m.sizeof(ty.el)
            for i in range(ty.n): self.store(st, addr + i * es, ty.el, val[i])
            return
        offs, _ = self.m.layout(ty)
        for o, e, v in zip(offs, ty.els, val): self.store(st, addr + o, e, v)
    def _uninit_region(self, st, addr):
        u = st.extra.get('uninit')
        if not u: return None, None
        for a, mask in u.items():
            if a <= addr < a + len(mask): return a, mask
        return None, None
    def _mark_init(self, st, addr, n):
        a, mask = self._uninit_region(st, addr)
        if mask is not None:
            lo = addr - a; mask[lo:lo + n] = b'\0' * min(n, len(mask) - lo)
    def _is_uninit(self, st, addr, n):
        a, mask = self._uninit_region(st, addr)
        return mask is not None and any(mask[addr - a: addr - a + n])
    def _garb_region(self, st, addr):
        g = st.extra.get('garb')
        if not g: return None, None
        import bisect
        i = bisect.bisect_right(g['bases'], addr) - 1
        if i < 0: return None, None
        a = g['bases'][i]; mask = g['mask'][a]
        return (a, mask) if addr < a + len(mask) else (None, None)
    def _garb_clear(self, st, addr, n):
        a, mask = self._garb_region(st, addr)
        if mask is not None:
            lo = addr - a; mask[lo:lo + n] = bytes(min(n, len(mask) - lo))
    def _garb_load(self, st, addr, n, ty):
        a, mask = self._garb_region(st, addr)
        if mask is None: return None
        lo = addr - a; m_ = mask[lo:lo + n]
        if not any(m_): return None
        if self._overlap(st, addr, n): mask[lo:lo + n] = bytes(len(m_)); return None      # a model placed a value there directly
        st.extra.setdefault('garb_reads', []).append((st.frames[-1].fn.name if st.frames else '?', addr, n))
        if not all(m_) or len(m_) < n:
            mask[lo:lo + n] = bytes(len(m_)); return None      # partly written: the unwritten bytes read as zero (under-approximation, noted in garb_reads)
        mask[lo:lo + n] = bytes(n)
        if isinstance(ty, FloatTy):
            if self.dom.name == 'concrete': return None
            v = z3.Real('garb_%x' % addr) if self.dom.name != 'fp' else z3.FP('garb_%x' % addr, self.dom.sort(ty.bits))
            st.sym[addr] = (n, 'f', v); return v
        if isinstance(ty, IntTy) and n in (1, 2, 4, 8) and ty.bits == 8 * n:
            v = z3.BitVec('garbi_%x' % addr, 8 * n); st.sym[addr] = (n, 'i', v); return v
        return None
    def _garb_copy(self, st, dst, src, n):
        # copying never-written bytes: the destination is as arbitrary as the source where it is tracked storage itself; elsewhere the bytes arrive as zeros (noted)
        sa, sm = self._garb_region(st, src) if src >= EXEC_HEAP else (None, None)
        da, dm = self._garb_region(st, dst) if dst >= EXEC_HEAP else (None, None)
        src_mask = bytes(sm[src - sa: src - sa + n]) if sm is not None else bytes(n)
        src_mask = src_mask + bytes(n - len(src_mask))
        if dm is not None:
            lo = dst - da; k = min(n, len(dm) - lo); dm[lo:lo + k] = src_mask[:k]
        elif any(src_mask): st.extra.setdefault('garb_reads', []).append(('memcpy-to-untracked', src, n))
    def garbage_alloc(self, st, a, n):
        import bisect
        g = st.extra.setdefault('garb', {'bases': [], 'mask': {}})
        bisect.insort(g['bases'], a); g['mask'][a] = bytearray(b'\1' * n)
    def malloc(self, st, n, zero=True):
        a = (st.heap + 31) & ~15; st.heap = a + max(n, 1) + 32; st.allocs[a] = n; st.aver += 1
        self.write_bytes(st, a, bytes(n))
        return a

    # ---------------- values
    def gaddr_of(self, st, name):
        name = self.m.aliases.get(name, name)
        if name in self.snap.symbols: return self.snap.symbols[name]
        if '@m' in name and name.startswith(('_ZZ', '_ZGVZ')):
            # function-local static (and its guard): internal in the IR module, but one object in the process - the snapshot holds its current state
            base = name.split('@m')[0]
            if base in self.snap.symbols: return self.snap.symbols[base]
        if name in self.gaddr: return self.gaddr[name]
        if name.startswith('_ZTI') and (name not in self.m.globals or self.m.globals[name][1] is None):
            # std::type_info object living in a shared library (fundamental / std types): a stand-in { vptr, const char* __name }
            a = (self.gnext + 15) & ~15; self.gnext = a + 64; self.gaddr[name] = a
            cm = self.check_mem; self.check_mem = False
            try:
                if st is not None and st is not self.gimg: self.sync_globals(st)
                for tgt in ((self.gimg, st) if st is not None and st is not self.gimg else (self.gimg,)):
                    self.write_bytes(tgt, a, bytes(16) + name[4:].encode() + b'\0')
                    self.store(tgt, a + 8, IntTy(64), a + 16)
                self.glog.append((a, 64))
                if st is not None and st is not self.gimg: st.gseen = len(self.glog)
            finally: self.check_mem = cm
            return a
        if name in self.m.funcs or name in self.m.decls or name not in self.m.globals:
            a = self.faddr.get(name)
            if a is None:
                a = 0x5000_0000_0000 + 16 * len(self.faddr); self.faddr[name] = a; self.addr2f[a] = name
            return a
        ty, init, ext = self.m.globals[name]
        n = self.m.sizeof(ty); a = (self.gnext + 15) & ~15; self.gnext = a + n + 16
        self.gaddr[name] = a
        self.ginit.append((a, ty, init))
        return a
    def sync_globals(self, st):
        """a state that copied a page of the global image before a later global was materialised on it (by another path) gets that global's bytes now"""
        k = getattr(st, 'gseen', 0)
        if k >= len(self.glog) or st is self.gimg: return
        for a, n in self.glog[k:]:
            for pn in range(a >> 12, ((a + max(n, 1) - 1) >> 12) + 1):
                pg = st.pages.get(pn); gi = self.gimg.pages.get(pn)
                if pg is None or gi is None: continue
                lo = max(a, pn << 12) - (pn << 12); hi = min(a + n, (pn + 1) << 12) - (pn << 12)
                pg[lo:hi] = gi[lo:hi]
            for c in [c for c in self.gimg.sym if a <= c < a + n]: st.sym[c] = self.gimg.sym[c]
        st.gseen = len(self.glog)
    def flush_ginit(self, st):
        # initialisers of IR-only globals go to an image shared by all states (a state that already copied the page gets the bytes too)
        self.sync_globals(st)
        done = []
        while self.ginit:
            a, ty, init = self.ginit.pop(); done.append((a, self.m.sizeof(ty)))
            cm = self.check_mem; self.check_mem = False
            try:
                for tgt in ([self.gimg, st] if ((a >> 12) in st.pages or ((a + self.m.sizeof(ty)) >> 12) in st.pages) else [self.gimg]):
                    self.write_bytes(tgt, a, bytes(self.m.sizeof(ty)))
                    if init is not None: self.store_const(tgt, a, ty, init)
            finally: self.check_mem = cm
        self.glog.extend(done)
        if st is not self.gimg: st.gseen = len(self.glog)
    def store_const(self, st, a, ty, c):
        ty = self.m.resolve(ty)
        if c[0] == 'zero' or c[0] == 'undef': return
        if c[0] == 'cstr': self.write_bytes(st, a, c[1]); return
        if c[0] == 'agg':
            if isinstance(ty, ArrTy):
                es = self.m.sizeof(ty.el)
                for i, (t, v) in enumerate(c[1]): self.store_const(st, a + i * es, t, v)
            else:
                offs, _ = self.m.layout(ty)
                for o, (t, v) in zip(offs, c[1]): self.store_const(st, a + o, t, v)
            return
        v = self.val(st, None, ty, c)
        if isinstance(ty, FloatTy) and self.dom.name != 'concrete' and self.dom.is_conc(v):
            self.write_bytes(st, a, struct.pack('<f' if ty.bits == 32 else '<d', float(v)))
        else: self.store(st, a, ty, v)
    def val(self, st, fr, ty, v):
        k = v[0]
        if k == 'local':
            try: return fr.loc[v[1]]
            except KeyError: raise Unsupported('undefined local %s in %s' % (v[1], fr.fn.name))
        if k == 'int': return v[1] & MASK(ty.bits) if isinstance(ty, IntTy) else v[1]
        if k == 'fp': return self.dom.const(v[1], v[2])
        if k == 'null': return 0
        if k == 'global':
            a = self.gaddr_of(st, v[1])
            if self.ginit: self.flush_ginit(st)
            return a
        if k == 'undef' or k == 'zero':
            t = self.m.resolve(ty)
            if isinstance(t, FloatTy): return self.dom.const(0.0, t.bits)
            if isinstance(t, StructTy): return [self.val(st, fr, e, v) for e in t.els]
            if isinstance(t, ArrTy): return [self.val(st, fr, t.el, v) for _ in range(t.n)]
            return 0
        if k == 'agg': return [self.val(st, fr, t, x) for t, x in v[1]]
        if k == 'cexpr':
            if v[1] == 'getelementptr':
                ops = v[3]; base = self.val(st, fr, ops[0][0], ops[0][1])
                return self.gep(st, fr, v[2], base, ops[1:])
            if v[1] in ('bitcast', 'inttoptr', 'ptrtoint', 'addrspacecast'): return self.val(st, fr, v[2], v[3])
            if v[1] in ('add', 'sub'):
                (t1, a), (t2, b) = v[3]
                return self.ibin(v[1], self.val(st, fr, t1, a), self.val(st, fr, t2, b), 64)
            raise Unsupported('cexpr ' + v[1])
        raise Unsupported('value ' + k)
    def gep(self, st, fr, bty, base, idx):
        ty = bty; off = 0; first = True
        for t, iv in idx:
            i = self.val(st, fr, t, iv)
            if isinstance(i, int): i = sgn(i, t.bits) if isinstance(t, IntTy) else i
            if first:
                off = self.addmul(off, i, self.m.sizeof(ty), t); first = False; continue
            r = self.m.resolve(ty)
            if isinstance(r, StructTy):
                off = off + self.m.layout(r)[0][i]; ty = r.els[i]
            elif isinstance(r, ArrTy):
                off = self.addmul(off, i, self.m.sizeof(r.el), t); ty = r.el
            else: raise Unsupported('gep into %r' % r)
        if isinstance(base, int) and isinstance(off, int): return (base + off) & MASK(64)
        return self.sym_ptr(st, base, off)
    def sym_ptr(self, st, base, off):
        # an address with a symbolic index (a lookup table): a 64-bit term; a load through it enumerates the feasible cells (see load)
        if isinstance(base, int) and z3.is_bv(off) and off.size() == 64: return z3.BitVecVal(base, 64) + off
        raise Unsupported('symbolic gep')
    def addmul(self, off, i, sz, t):
        if isinstance(i, int) and isinstance(off, int): return off + i * sz
        return self.sym_index(off, i, sz, t)
    def sym_index(self, off, i, sz, t):
        if z3.is_expr(i) and 'garbi_' in str(i): raise GarbageUse('an address is computed from heap storage that was never written (index %s)' % str(i)[:80])
        if z3.is_bv(i) and isinstance(sz, int):
            ii = i if i.size() == 64 else (z3.SignExt(64 - i.size(), i) if i.size() < 64 else z3.Extract(63, 0, i))
            o = off if z3.is_bv(off) else z3.BitVecVal(off, 64)
            return o + ii * z3.BitVecVal(sz, 64)
        raise Unsupported('symbolic gep index')

    # ---------------- int ops
    def ibin(self, op, a, b, bits):
        if isinstance(a, int) and isinstance(b, int):
            M = MASK(bits)
            if op == 'add': return (a + b) & M
            if op == 'sub': return (a - b) & M
            if op == 'mul': return (a * b) & M
            if op == 'and': return a & b
            if op == 'or': return a | b
            if op == 'xor': return a ^ b
            if op == 'shl': return (a << b) & M if b < bits else 0
            if op == 'lshr': return a >> b if b < bits else 0
            if op == 'ashr': return (sgn(a, bits) >> min(b, bits - 1)) & M
            if op in ('udiv', 'urem', 'sdiv', 'srem') and b == 0: raise MemError('integer division by zero')
            if op == 'udiv': return a // b
            if op == 'urem': return a % b
            if op == 'sdiv':
                x, y = sgn(a, bits), sgn(b, bits); q = abs(x) // abs(y); return (q if (x < 0) == (y < 0) else -q) & M
            if op == 'srem':
                x, y = sgn(a, bits), sgn(b, bits); r = abs(x) % abs(y); return (r if x >= 0 else -r) & M
        if isinstance(a, (Packed, FBits)) or isinstance(b, (Packed, FBits)): return self.packed_arith(op, a, b, bits)
        if bits == 1 and op in ('and', 'or', 'xor'):
            A = bool(a) if isinstance(a, int) else self.as_bool(a); B = bool(b) if isinstance(b, int) else self.as_bool(b)
            return z3.simplify({'and': z3.And, 'or': z3.Or, 'xor': z3.Xor}[op](A, B))
        A = z3.BitVecVal(a, bits) if isinstance(a, int) else a
        B = z3.BitVecVal(b, bits) if isinstance(b, int) else b
        if z3.is_bool(A): A = z3.If(A, z3.BitVecVal(1, bits), z3.BitVecVal(0, bits))
        if z3.is_bool(B): B = z3.If(B, z3.BitVecVal(1, bits), z3.BitVecVal(0, bits))
        return z3.simplify({'add': lambda: A + B, 'sub': lambda: A - B, 'mul': lambda: A * B, 'and': lambda: A & B, 'or': lambda: A | B, 'xor': lambda: A ^ B,
                'shl': lambda: A << B, 'lshr': lambda: z3.LShR(A, B), 'ashr': lambda: A >> B, 'udiv': lambda: z3.UDiv(A, B), 'urem': lambda: z3.URem(A, B),
                'sdiv': lambda: A / B, 'srem': lambda: z3.SRem(A, B)}[op]())
    def packed_arith(self, op, a, b, bits): raise Unsupported('arith on packed value')
    def icmp(self, pred, a, b, bits):
        if isinstance(a, int) and isinstance(b, int):
            if pred[0] == 's': a, b = sgn(a, bits), sgn(b, bits)
            return int({'eq': a == b, 'ne': a != b, 'ugt': a > b, 'uge': a >= b, 'ult': a < b, 'ule': a <= b,
                        'sgt': a > b, 'sge': a >= b, 'slt': a < b, 'sle': a <= b}[pred])
        if isinstance(a, (Packed, FBits)) or isinstance(b, (Packed, FBits)): raise Unsupported('compare of packed value')
        A = z3.BitVecVal(a, bits) if isinstance(a, int) else a
        B = z3.BitVecVal(b, bits) if isinstance(b, int) else b
        if z3.is_bool(A): A = z3.If(A, z3.BitVecVal(1, bits), z3.BitVecVal(0, bits))
        if z3.is_bool(B): B = z3.If(B, z3.BitVecVal(1, bits), z3.BitVecVal(0, bits))
        return z3.simplify({'eq': lambda: A == B, 'ne': lambda: A != B, 'ugt': lambda: z3.UGT(A, B), 'uge': lambda: z3.UGE(A, B), 'ult': lambda: z3.ULT(A, B), 'ule': lambda: z3.ULE(A, B),
                'sgt': lambda: A > B, 'sge': lambda: A >= B, 'slt': lambda: A < B, 'sle': lambda: A <= B}[pred]())

    # ---------------- solver
    def feasible(self, st, cond):
        if z3.is_true(cond): return True
        if z3.is_false(cond): return False
        t = time.time(); self.solver.push()
        self.solver.set('timeout', self.branch_timeout)
        for c in st.pc: self.solver.add(c)
        self.solver.add(cond); r = self.solver.check(); self.solver.pop()
        self.stats['queries'] += 1; self.stats['solver_s'] += time.time() - t
        if r == z3.unknown:
            # opt-in: follow the branch anyway.  The path set becomes an over-approximation; every obligation carries the path condition into its own query, so a path that
            # cannot be taken gives unsat there and never a counterexample the solver did not find satisfiable.
            if getattr(self, 'unknown_is_feasible', False): self.stats['unknown_branches'] = self.stats.get('unknown_branches', 0) + 1; return True
            raise Unsupported('solver unknown on branch feasibility')
        return r == z3.sat
    def as_bool(self, c):
        if isinstance(c, int): return bool(c)
        if z3.is_bool(c): return c
        return c == z3.BitVecVal(1, c.size())

    # ---------------- interval evaluation of real terms (to narrow integer-part case splits)
    def interval(self, st, t):
        INF = float('inf')
        if isinstance(t, Fraction): return (t, t)
        if isinstance(t, int): return (t, t)
        try:
            if z3.is_rational_value(t):
                v = Fraction(t.numerator_as_long(), t.denominator_as_long()); return (v, v)
            if z3.is_const(t) and t.decl().kind() == z3.Z3_OP_UNINTERPRETED:
                return st.ranges.get(t.decl().name(), (-INF, INF))
            k = t.decl().kind(); ch = [self.interval(st, c) for c in t.children()]
            if k == z3.Z3_OP_ADD: return (sum(c[0] for c in ch), sum(c[1] for c in ch))
            if k == z3.Z3_OP_SUB:
                if len(ch) == 1: return (-ch[0][1], -ch[0][0])
                lo, hi = ch[0]
                for c in ch[1:]: lo, hi = lo - c[1], hi - c[0]
                return (lo, hi)
            if k == z3.Z3_OP_UMINUS: return (-ch[0][1], -ch[0][0])
            if k == z3.Z3_OP_MUL:
                lo, hi = ch[0]
                for c in ch[1:]:
                    ps = []
                    for x in (lo, hi):
                        for y in c:
                            if (x == 0 or y == 0): ps.append(0)
                            else: ps.append(x * y)
                    lo, hi = min(ps), max(ps)
                return (lo, hi)
            if k == z3.Z3_OP_ITE: return (min(ch[1][0], ch[2][0]), max(ch[1][1], ch[2][1]))
        except Exception:
            pass
        return (-INF, INF)

    # ---------------- run
    def call(self, st, fname, args, ret_dst=None):
        fname = self.m.aliases.get(fname, fname)
        f = self.m.funcs.get(fname)
        if f is None: raise Unsupported('call to undefined ' + fname)
        fr = Frame(f); fr.ret_to = ret_dst
        for i, (t, pn) in enumerate(f.params):
            if i < len(args): fr.loc[pn if pn is not None else '%%%d' % i] = args[i]
        st.frames.append(fr)
    def run(self, st):
        """run all paths; yields finished states"""
        work = [st]; done = 0; t0 = time.time()
        while work:
            s = work.pop(); done += 1
            if time.time() - t0 > self.time_budget: raise Unsupported('time budget of %ds for one symbolic run exceeded after %d paths' % (self.time_budget, done))
            if done > self.max_paths or len(work) > self.max_paths: raise Unsupported('path budget of %d exceeded (a branch on symbolic data forks per cell?)' % self.max_paths)
            try:
                self.run_path(s, work)
            except PathEnd as e:
                s.ended = str(e); self.stats['paths'] += 1; yield s; continue
            except (Unsupported, MemError) as e:
                s.error = e; yield s; continue
            self.stats['paths'] += 1
            yield s
    def run1(self, st, fname, args):
        """run a call that must not fork; returns the final state (raises on error)"""
        self.call(st, fname, args)
        r = list(self.run(st))
        if len(r) != 1: raise Unsupported('%s: expected one path, got %d' % (fname, len(r)))
        if hasattr(r[0], 'error'): raise r[0].error
        if hasattr(r[0], 'ended'): raise PathEnd('%s ended abnormally: %s' % (fname, r[0].ended))
        return r[0]
    def run_all(self, st, fname, args):
        self.call(st, fname, args)
        return list(self.run(st))
    def goto(self, st, fr, tgt):
        fr.prev = fr.blk; fr.blk = tgt; fr.ip = 0; self.enter(st, fr)
    def run_path(self, st, work):
        self.sync_globals(st)
        while True:
            try:
                return self._run_path(st, work)
            except CxxThrow as t:
                self.unwind(st, t)
    def unwind(self, st, t):
        """two-phase unwinding collapsed into one: pop frames until one has an active invoke; continue at its landing pad"""
        while st.frames:
            fr = st.frames[-1]
            if fr.active_invoke is not None:
                lbl, blk = fr.active_invoke; fr.active_invoke = None
                fr.prev = blk; fr.blk = lbl; fr.ip = 0; st.extra['exc'] = (t.obj, t.tinfo); return
            for a in fr.allocas: st.allocs.pop(a, None)
            st.frames.pop(); st.aver += 1
        raise PathEnd('uncaught C++ exception of type %s' % t.tinfo)
    def tinfo_name(self, addr):
        if hasattr(addr, 'base') and str(addr.base).startswith('@'): return str(addr.base)[1:]
        if not isinstance(addr, int) or addr == 0: return None
        for n, a in self.gaddr.items():
            if a == addr: return n
        n = self.addr2f.get(addr)
        if n: return n
        for c in self.snap.addr2syms.get(addr, []):
            if c.startswith('_ZTI'): return c
        return None
    STD_BASES = {'_ZTISt8bad_cast': ['_ZTISt9exception'], '_ZTISt9bad_alloc': ['_ZTISt9exception'], '_ZTISt11logic_error': ['_ZTISt9exception'], '_ZTISt13runtime_error': ['_ZTISt9exception'],
                 '_ZTISt12out_of_range': ['_ZTISt11logic_error'], '_ZTISt16invalid_argument': ['_ZTISt11logic_error'], '_ZTISt12length_error': ['_ZTISt11logic_error']}
    def tinfo_bases(self, name):
        if name in self.STD_BASES: return self.STD_BASES[name]
        g = self.m.globals.get(name); out = []
        def walk(c):
            if c is None: return
            if c[0] == 'global' and c[1].startswith('_ZTI') and c[1] != name: out.append(c[1])
            elif c[0] == 'agg':
                for t_, v in c[1]: walk(v)
            elif c[0] == 'cexpr':
                if c[1] == 'getelementptr': [walk(v) for t_, v in c[3]]
                elif len(c) > 3 and isinstance(c[3], tuple): walk(c[3])
        if g and g[1]: walk(g[1])
        return out
    def exc_matches(self, thrown, caught):
        if caught is None or thrown == caught: return True
        seen = set(); stack = [thrown]
        while stack:
            x = stack.pop()
            if x in seen: continue
            seen.add(x)
            if x == caught: return True
            stack.extend(self.tinfo_bases(x))
        return False
    def typeid_for(self, name):
        ids = self.__dict__.setdefault('_typeids', {})
        return ids.setdefault(name, len(ids) + 1)
    def _run_path(self, st, work):
        m = self.m
        while st.frames:
            fr = st.frames[-1]
            ins = fr.fn.blocks[fr.blk][fr.ip]; fr.ip += 1
            st.nins += 1
            if st.nins > self.max_ins: raise Unsupported('instruction budget exceeded')
            op = ins['op']
            if op == 'phi':
                blk = fr.fn.blocks[fr.blk]; vals = []; j = fr.ip - 1
                while blk[j]['op'] == 'phi':
                    p = blk[j]
                    for v, b in p['inc']:
                        if b == fr.prev: vals.append((p['dst'], self.val(st, fr, p['ty'], v))); break
                    else: raise Unsupported('phi without incoming %s' % fr.prev)
                    j += 1
                for d, v in vals: fr.loc[d] = v
                fr.ip = j
            elif op in ('add', 'sub', 'mul', 'udiv', 'sdiv', 'urem', 'srem', 'and', 'or', 'xor', 'shl', 'lshr', 'ashr'):
                t = ins['ty']
                if isinstance(t, ArrTy):
                    a = self.val(st, fr, t, ins['a']); b = self.val(st, fr, t, ins['b'])
                    fr.loc[ins['dst']] = [self.ibin(op, x, y, t.el.bits) for x, y in zip(a, b)]
                else:
                    a = self.val(st, fr, t, ins['a']); b = self.val(st, fr, t, ins['b'])
                    if op in ('udiv', 'sdiv', 'urem', 'srem') and not isinstance(b, int): self.div_guard(st, b, t.bits)
                    fr.loc[ins['dst']] = self.ibin(op, a, b, t.bits)
            elif op in ('fadd', 'fsub', 'fmul', 'fdiv', 'frem'):
                t = ins['ty']; fr.loc[ins['dst']] = self.fbin(st, op, self.val(st, fr, t, ins['a']), self.val(st, fr, t, ins['b']), t.bits)
            elif op == 'fneg':
                fr.loc[ins['dst']] = self.dom.neg(self.val(st, fr, ins['ty'], ins['a']))
            elif op == 'icmp':
                t = m.resolve(ins['ty']); bits = t.bits if isinstance(t, IntTy) else 64
                fr.loc[ins['dst']] = self.icmp(ins['pred'], self.val(st, fr, t, ins['a']), self.val(st, fr, t, ins['b']), bits)
            elif op == 'fcmp':
                t = ins['ty']; fr.loc[ins['dst']] = self.dom.cmp(ins['pred'], self.val(st, fr, t, ins['a']), self.val(st, fr, t, ins['b']))
            elif op == 'load':
                fr.loc[ins['dst']] = self.load(st, self.val(st, fr, None, ins['ptr']), ins['ty'])
            elif op == 'store':
                self.store(st, self.val(st, fr, None, ins['ptr']), ins['ty'], self.val(st, fr, ins['ty'], ins['val']))
            elif op == 'getelementptr':
                b_ = self.val(st, fr, None, ins['base']); r_ = self.gep(st, fr, ins['bty'], b_, ins['idx'])
                if self.check_mem and self.check_gep and ins.get('inbounds') and isinstance(b_, int) and isinstance(r_, int) and r_ != b_: self.check_inbounds(st, b_, r_)
                fr.loc[ins['dst']] = r_
            elif op == 'alloca':
                n = self.val(st, fr, IntTy(64), ins['n'])
                if not isinstance(n, int): raise Unsupported('symbolic alloca size')
                a = self.malloc(st, m.sizeof(ins['ty']) * n); fr.loc[ins['dst']] = a; fr.allocas.append(a)
                if self.track_uninit: st.extra.setdefault('uninit', {})[a] = bytearray(b'\1' * (m.sizeof(ins['ty']) * n))
                if self.garbage_heap and self.garbage_stack: self.garbage_alloc(st, a, m.sizeof(ins['ty']) * n)      # a local variable holds arbitrary bytes until it is written
            elif op in ('bitcast', 'addrspacecast'):
                v = self.val(st, fr, ins['ty'], ins['a']); t1 = m.resolve(ins['ty']); t2 = m.resolve(ins['ty2'])
                if isinstance(t1, FloatTy) and isinstance(t2, IntTy):
                    v = self.dom.to_bits(v, t1.bits) if self.dom.is_conc(v) else FBits(v, t1.bits)
                elif isinstance(t1, IntTy) and isinstance(t2, FloatTy):
                    v = v.val if isinstance(v, FBits) else self.bits_to_float(v, t2.bits)
                fr.loc[ins['dst']] = v
            elif op in ('ptrtoint', 'inttoptr'):
                fr.loc[ins['dst']] = self.val(st, fr, ins['ty'], ins['a'])
            elif op in ('zext', 'sext', 'trunc'):
                v = self.val(st, fr, ins['ty'], ins['a']); b1 = ins['ty'].bits; b2 = ins['ty2'].bits
                if isinstance(v, int):
                    v = {'zext': v, 'sext': sgn(v, b1) & MASK(b2), 'trunc': v & MASK(b2)}[op]
                elif isinstance(v, (Packed, FBits)): v = self.packed_cast(op, v, b1, b2)
                else:
                    if z3.is_bool(v): v = z3.If(v, z3.BitVecVal(1, b1), z3.BitVecVal(0, b1))
                    v = z3.simplify({'zext': lambda: z3.ZeroExt(b2 - b1, v), 'sext': lambda: z3.SignExt(b2 - b1, v), 'trunc': lambda: z3.Extract(b2 - 1, 0, v)}[op]())
                fr.loc[ins['dst']] = v
            elif op in ('fpext', 'fptrunc'):
                fr.loc[ins['dst']] = self.dom.conv(self.val(st, fr, ins['ty'], ins['a']), ins['ty'].bits, ins['ty2'].bits)
            elif op in ('uitofp', 'sitofp'):
                fr.loc[ins['dst']] = self.dom.from_int(self.val(st, fr, ins['ty'], ins['a']), op == 'sitofp', ins['ty'].bits, ins['ty2'].bits)
            elif op in ('fptoui', 'fptosi'):
                v = self.val(st, fr, ins['ty'], ins['a'])
                r = self.fp_to_int(st, v, op == 'fptosi', ins['ty2'].bits)
                if isinstance(r, Forks):
                    self.apply_forks(st, work, r, ins['dst'])
                else: fr.loc[ins['dst']] = r
            elif op == 'select':
                c = self.val(st, fr, IntTy(1), ins['cond']); a = self.val(st, fr, ins['ty'], ins['a']); b = self.val(st, fr, ins['ty'], ins['b'])
                if isinstance(c, int): fr.loc[ins['dst']] = a if c else b
                else: fr.loc[ins['dst']] = self.ite(self.as_bool(c), a, b, ins['ty'])
            elif op == 'br':
                self.goto(st, fr, ins['target'])
            elif op == 'condbr':
                c = self.val(st, fr, IntTy(1), ins['cond'])
                if isinstance(c, int): tgt = ins['t'] if c else ins['f']
                else:
                    cb = self.as_bool(c)
                    ft = self.feasible(st, cb); ff = self.feasible(st, z3.Not(cb))
                    if ft and ff:
                        choice = self.fork_guide(st, cb, ins['t'], ins['f']) if self.fork_guide else None
                        if choice is None: choice = self.fork_filter(st) if self.fork_filter else None
                        if choice is None:
                            self.stats['forks'] += 1
                            o = st.fork(); o.pc.append(z3.Not(cb)); of = o.frames[-1]; self.goto(o, of, ins['f']); work.append(o)
                            st.pc.append(cb); tgt = ins['t']
                        elif choice: st.pc.append(cb); tgt = ins['t']
                        else: st.pc.append(z3.Not(cb)); tgt = ins['f']
                    elif ft: tgt = ins['t']
                    elif ff: tgt = ins['f']
                    else: raise Unsupported('infeasible path')
                self.goto(st, fr, tgt)
            elif op == 'switch':
                v = self.val(st, fr, ins['ty'], ins['val'])
                if not isinstance(v, int):
                    alts = []; rest = []
                    for cv, lb in ins['cases']:
                        c = v == z3.BitVecVal(cv & MASK(ins['ty'].bits), ins['ty'].bits); rest.append(z3.Not(c))
                        if self.feasible(st, c): alts.append((c, lb))
                    d = z3.And(*rest) if rest else z3.BoolVal(True)
                    if self.feasible(st, d): alts.append((d, ins['default']))
                    if not alts: raise Unsupported('infeasible switch')
                    for c, lb in alts[1:]:
                        self.stats['forks'] += 1
                        o = st.fork(); o.pc.append(c); self.goto(o, o.frames[-1], lb); work.append(o)
                    st.pc.append(alts[0][0]); self.goto(st, fr, alts[0][1])
                    continue
                tgt = ins['default']
                for cv, lb in ins['cases']:
                    if (cv & MASK(ins['ty'].bits)) == v: tgt = lb; break
                self.goto(st, fr, tgt)
            elif op == 'ret':
                rv = self.val(st, fr, ins['ty'], ins['val']) if ins['val'] is not None else None
                for a in fr.allocas: st.allocs.pop(a, None)
                if fr.allocas: st.aver += 1
                st.frames.pop()
                if st.frames:
                    st.frames[-1].active_invoke = None
                    if fr.ret_to is not None: st.frames[-1].loc[fr.ret_to] = rv
                else: st.retval = rv
            elif op in ('call', 'invoke'):
                cal = ins['callee']
                args = [self.val(st, fr, t, a) for t, a in ins['args']]
                if cal[0] == 'global': name = cal[1]
                else:
                    fp = self.val(st, fr, None, cal)
                    name = None
                    if isinstance(fp, int):
                        name = self.addr2f.get(fp)
                        if name is None:
                            cands = self.snap.addr2syms.get(fp, [])
                            for c in cands:
                                if c in self.ext or c in self.m.funcs: name = c; break
                            if name is None and cands: name = cands[0]
                    if name is None and getattr(self, 'indirect_hook', None):
                        if op == 'invoke': self.goto(st, fr, ins['normal'])
                        r = self.indirect_hook(st, fr, ins, fp, args)
                        if ins['dst'] is not None: fr.loc[ins['dst']] = r
                        continue
                    if name is None: raise Unsupported('indirect call to 0x%x' % fp if isinstance(fp, int) else 'symbolic fn ptr')
                if op == 'invoke':
                    fr.active_invoke = (ins['unwind'], fr.blk); self.goto(st, fr, ins['normal'])
                else: fr.active_invoke = None
                name = self.m.aliases.get(name, name)
                self.fcount[name] = self.fcount.get(name, 0) + 1
                h = self.ext.get(name)
                if h is None and self.ext_prefix:
                    for pfx, hh in self.ext_prefix:
                        if name.startswith(pfx): h = hh; break
                if h is not None:
                    r = h(self, st, fr, args, ins)
                    if r is CALL_REAL and name in self.m.funcs:
                        self.call(st, name, args, ins['dst']); continue
                    if isinstance(r, Forks): self.apply_forks(st, work, r, ins['dst'])
                    elif ins['dst'] is not None: fr.loc[ins['dst']] = r
                elif name.startswith('llvm.'):
                    r = self.intrinsic(st, fr, name, args, ins)
                    if isinstance(r, Forks): self.apply_forks(st, work, r, ins['dst'])
                    elif ins['dst'] is not None: fr.loc[ins['dst']] = r
                elif name in self.m.funcs:
                    self.call(st, name, args, ins['dst']); continue
                elif name in LIBM:
                    r = self.libm(st, name, args)
                    if isinstance(r, Forks): self.apply_forks(st, work, r, ins['dst'])
                    elif ins['dst'] is not None: fr.loc[ins['dst']] = r
                else:
                    raise Unsupported('external function without model: ' + name)
                fr.active_invoke = None        # the external / intrinsic returned normally
            elif op == 'extractvalue':
                v = self.val(st, fr, ins['ty'], ins['a'])
                for i in ins['idx']: v = v[i]
                fr.loc[ins['dst']] = v
            elif op == 'insertvalue':
                v = copy.copy(self.val(st, fr, ins['ty'], ins['a'])); b = self.val(st, fr, ins['ty2'], ins['b'])
                cur = v
                for i in ins['idx'][:-1]: cur[i] = copy.copy(cur[i]); cur = cur[i]
                cur[ins['idx'][-1]] = b; fr.loc[ins['dst']] = v
            elif op == 'extractelement':
                fr.loc[ins['dst']] = self.val(st, fr, ins['ty'], ins['a'])[self.val(st, fr, IntTy(64), ins['ix'])]
            elif op == 'insertelement':
                v = list(self.val(st, fr, ins['ty'], ins['a'])); v[self.val(st, fr, IntTy(64), ins['ix'])] = self.val(st, fr, ins['ty'].el, ins['b']); fr.loc[ins['dst']] = v
            elif op == 'shufflevector':
                a = self.val(st, fr, ins['ty'], ins['a']); b = self.val(st, fr, ins['ty'], ins['b']); mk = ins['mask']
                n = len(a)
                if mk[0] == 'zero': idx = [0] * n
                elif mk[0] == 'agg': idx = [x[1][1] if x[1][0] == 'int' else 0 for x in mk[1]]
                else: raise Unsupported('shuffle mask')
                ab = list(a) + list(b); fr.loc[ins['dst']] = [ab[i] for i in idx]
            elif op == 'freeze':
                fr.loc[ins['dst']] = self.val(st, fr, ins['ty'], ins['a'])
            elif op == 'unreachable':
                raise Unsupported('reached unreachable in ' + fr.fn.name)
            elif op == 'atomicrmw':
                a = self.val(st, fr, None, ins['ptr']); old = self.load(st, a, ins['ty']); v = self.val(st, fr, ins['ty'], ins['val'])
                new = {'add': lambda: self.ibin('add', old, v, ins['ty'].bits), 'sub': lambda: self.ibin('sub', old, v, ins['ty'].bits), 'xchg': lambda: v}[ins['rmw']]()
                self.store(st, a, ins['ty'], new); fr.loc[ins['dst']] = old
            elif op == 'cmpxchg':
                a = self.val(st, fr, None, ins['ptr']); old = self.load(st, a, ins['ty']); c = self.val(st, fr, ins['ty'], ins['cmp']); nv = self.val(st, fr, ins['ty'], ins['new'])
                if not (isinstance(old, int) and isinstance(c, int)): raise Unsupported('symbolic cmpxchg')
                if old == c: self.store(st, a, ins['ty'], nv)
                fr.loc[ins['dst']] = [old, int(old == c)]
            elif op == 'fence': pass
            elif op == 'landingpad':
                exc = st.extra.get('exc')
                if exc is None: raise Unsupported('landingpad reached without an exception in flight in ' + fr.fn.name)
                sel = 0
                for kind, tname in re.findall(r'\b(catch|filter)\s+(?:i8\*|ptr)\s+(null|[^@]*@(?:"[^"]*"|[-\w.$]+))', ins['raw']):
                    if kind != 'catch': continue
                    cn = None if tname.strip() == 'null' else tname[tname.index('@') + 1:].strip('"')
                    if self.exc_matches(exc[1], cn):
                        sel = 0 if cn is None else self.typeid_for(cn)
                        if cn is None: sel = self.typeid_for('<catch-all>')
                        break
                fr.loc[ins['dst']] = [exc[0], sel]
            elif op == 'resume':
                exc = st.extra.get('exc')
                for a in fr.allocas: st.allocs.pop(a, None)
                st.frames.pop(); st.aver += 1
                raise CxxThrow(exc[0], exc[1])
            else:
                raise Unsupported('instruction ' + op)
        return st
    def apply_forks(self, st, work, r, dst):
        if not r.alts: raise Unsupported('no feasible alternative in a case split')
        for cons, rv, eff in r.alts[1:]:
            self.stats['forks'] += 1
            o = st.fork(); o.pc.extend(cons)
            if eff: eff(o)
            if dst is not None: o.frames[-1].loc[dst] = rv
            work.append(o)
        cons, rv, eff = r.alts[0]; st.pc.extend(cons)
        if eff: eff(st)
        if dst is not None: st.frames[-1].loc[dst] = rv
    def enter(self, st, fr): pass
    def div_guard(self, st, b, bits):
        if self.feasible(st, b == z3.BitVecVal(0, bits)): raise MemError('integer division by a possibly-zero value')
    def fbin(self, st, op, a, b, bits):
        return self.dom.bin(op, a, b, bits)
    def bits_to_float(self, v, bits):
        if isinstance(v, int): return self.dom.from_bits(v, bits)
        raise Unsupported('symbolic bits to float')
    def packed_cast(self, op, v, b1, b2): raise Unsupported('cast of packed')
    def ite(self, c, a, b, ty):
        t = self.m.resolve(ty)
        if isinstance(t, FloatTy):
            return z3.If(c, self.dom.z(a), self.dom.z(b))
        bits = t.bits if isinstance(t, IntTy) else 64
        if isinstance(a, FBits) and isinstance(b, FBits): return FBits(z3.If(c, self.dom.z(a.val), self.dom.z(b.val)), a.bits)
        if isinstance(a, (Packed, FBits)) or isinstance(b, (Packed, FBits)): raise Unsupported('select of packed values')
        A = z3.BitVecVal(a, bits) if isinstance(a, int) else a
        B = z3.BitVecVal(b, bits) if isinstance(b, int) else b
        if bits == 1:
            A = self.as_bool(A) if not z3.is_bool(A) else A; B = self.as_bool(B) if not z3.is_bool(B) else B
        return z3.If(c, A, B)
    def int_split(self, st, x, what='trunc'):
        """case split of a symbolic real (or IEEE float in the FP domain) into integer part k (toward zero for trunc, floor for floor) ; returns [(constraints, k)]"""
        isfp = self.dom.name == 'fp'
        if isfp:
            srt = x.sort()
            def K(k): return z3.FPVal(float(k), srt)
            ge = lambda a, k: z3.fpGEQ(a, K(k)); gt = lambda a, k: z3.fpGT(a, K(k)); lt = lambda a, k: z3.fpLT(a, K(k)); le = lambda a, k: z3.fpLEQ(a, K(k))
            lo, hi = st.ranges.get(str(x), (-float('inf'), float('inf'))) if z3.is_const(x) else (-float('inf'), float('inf'))
        else:
            ge = lambda a, k: a >= k; gt = lambda a, k: a > k; lt = lambda a, k: a < k; le = lambda a, k: a <= k
            lo, hi = self.interval(st, x)
        rlo, rhi = self.int_range
        if lo != -float('inf'): rlo = max(rlo, math.floor(lo) - 1)
        if hi != float('inf'): rhi = min(rhi, math.ceil(hi) + 1)
        alts = []
        for k in range(rlo, rhi + 1):
            if what == 'floor': c = z3.And(ge(x, k), lt(x, k + 1))
            else: c = z3.And(ge(x, k), lt(x, k + 1)) if k > 0 else (z3.And(gt(x, k - 1), le(x, k)) if k < 0 else z3.And(gt(x, -1), lt(x, 1)))
            if self.feasible(st, c): alts.append(([c], k))
        # outside the split range?
        out = z3.Or(lt(x, rlo), ge(x, rhi + 1)) if not isfp else z3.Or(lt(x, rlo), ge(x, rhi + 1), z3.fpIsNaN(x))
        if self.feasible(st, out): raise Unsupported('integer part of a symbolic value may lie outside the stated range [%d,%d] (or be NaN)' % (rlo, rhi))
        return alts
    def fp_to_int(self, st, v, signed, bits):
        if self.dom.name in ('concrete', 'fp') and self.dom.is_conc(v):
            if np.isnan(v) or np.isinf(v): return 0
            iv = int(v)
            if not signed and iv < 0: iv = int(np.float64(v).astype(np.int64))   # what x86 cvttss2si does in practice
            return iv & MASK(bits)
        if isinstance(v, Fraction):
            iv = int(v)
            if (not signed and (iv < 0 or iv >= (1 << bits))) or (signed and not (-(1 << (bits - 1)) <= iv < (1 << (bits - 1)))):
                self.note_ub(st, 'fp-to-int conversion of out-of-range value %s' % float(v))
            return iv & MASK(bits)
        tag = self.intof.get(v.get_id()) if hasattr(v, 'get_id') else None
        if tag is not None: return tag[1]
        if self.round_toint and self.dom.name != 'fp':
            t = self.intsym.get(v.get_id())
            if t is not None: k = t[1]
            else:
                k = self.fresh_int(st, 'trunc'); kr = z3.ToReal(k); vz = self.dom.z(v)
                st.pc.append(z3.Or(z3.And(vz >= 0, kr <= vz, vz < kr + 1), z3.And(vz < 0, kr - 1 < vz, vz <= kr)))
            lo, hi = (-(1 << (bits - 1)), (1 << (bits - 1)) - 1) if signed else (0, (1 << bits) - 1)
            rng = z3.And(k >= lo, k <= hi)
            if self.feasible(st, z3.Not(rng)): self.note_ub(st, 'fp-to-int conversion may be out of range of the %d-bit target (excluded from the claim)' % bits)
            st.pc.append(rng)
            return z3.Int2BV(k, bits)
        alts = self.int_split(st, v, 'trunc')
        res = []
        for cons, k in alts:
            if (not signed and k < 0): self.note_ub(st, 'fptoui of a negative value (integer part %d)' % k)
            res.append((cons, k & MASK(bits), None))
        return Forks(res)
    def note_ub(self, st, msg):
        st.extra.setdefault('ub', []).append(msg)
    def libm(self, st, name, args):
        bits = LIBM[name][2]
        base = name[:-1] if bits == 32 and name.endswith('f') else name
        if self.dom.name != 'concrete' and base in ('floor', 'ceil', 'round') and not self.dom.is_conc(args[0]):
            if self.dom.name == 'fp' and base != 'floor': raise Unsupported('symbolic %s in the FP domain' % base)
            return self.round_sym(st, base, args[0])
        if base == 'remainder' and self.dom.name not in ('concrete', 'fp') and not all(self.dom.is_conc(a) for a in args):
            # IEEE remainder: x - k*y with k the integer nearest to x/y (ties, where the two candidates differ in parity only, are left to the solver)
            x, y = self.dom.z(args[0]), self.dom.z(args[1]); k = self.fresh_int(st, 'rem'); r = x - z3.ToReal(k) * y; ay = z3.If(y >= 0, y, -y)
            st.pc += [y != 0, 2 * r <= ay, 2 * r >= -ay]
            return r
        return self.dom.fn(name, args, bits)
    def fresh_int(self, st, hint):
        k = st.extra['nint'] = st.extra.get('nint', 0) + 1
        return z3.Int('%s!%d' % (hint, k))
    def round_sym(self, st, base, x):
        if self.round_toint and self.dom.name != 'fp':
            xz = self.dom.z(x); k = self.fresh_int(st, base); kr = z3.ToReal(k); h = z3.RealVal('1/2')
            if base == 'floor': st.pc.append(z3.And(kr <= xz, xz < kr + 1))
            elif base == 'ceil': st.pc.append(z3.And(kr - 1 < xz, xz <= kr))
            else: st.pc.append(z3.Or(z3.And(xz >= 0, kr - h <= xz, xz < kr + h), z3.And(xz < 0, kr - h < xz, xz <= kr + h)))     # half away from zero
            self.intsym[kr.get_id()] = (kr, k); self.intarg[str(k)] = (base, xz)
            return kr
        if base == 'floor':
            mk = (lambda k: np.float32(k)) if self.dom.name == 'fp' else (lambda k: Fraction(k))
            return Forks([(c, mk(k), None) for c, k in self.int_split(st, x, 'floor')])
        if base == 'ceil':
            return Forks([(c, Fraction(-k), None) for c, k in self.int_split(st, -x, 'floor')])
        # round half away from zero
        alts = []
        for c, k in self.int_split(st, x + Fraction(1, 2) if True else x, 'floor'):
            alts.append((c, Fraction(k), None))
        return Forks(alts)
    def intrinsic(self, st, fr, name, args, ins):
        if name.startswith('llvm.lifetime.start') and self.track_uninit and isinstance(args[1], int):
            a, mask = self._uninit_region(st, args[1])
            if mask is not None and a == args[1]: mask[:] = b'\1' * len(mask)
            return None
        if name.startswith(('llvm.lifetime', 'llvm.dbg', 'llvm.experimental.noalias', 'llvm.assume', 'llvm.invariant', 'llvm.prefetch')): return None
        if name.startswith('llvm.fmuladd') or name.startswith('llvm.fma.'):
            bits = 32 if name.endswith('f32') else 64
            return self.fbin(st, 'fadd', self.fbin(st, 'fmul', args[0], args[1], bits), args[2], bits)
        if name.startswith('llvm.memcpy') or name.startswith('llvm.memmove'):
            dst, src, n = args[0], args[1], args[2]
            if not isinstance(n, int): raise Unsupported('symbolic memcpy length')
            self.memcpy(st, dst, src, n); return None
        if name.startswith('llvm.memset'):
            dst, v, n = args[0], args[1], args[2]
            if not (isinstance(n, int) and isinstance(v, int)): raise Unsupported('symbolic memset')
            self.check_access(st, dst, n, 'memset')
            if st.wlog is not None: st.wlog.append((dst, n))
            for a in self._overlap(st, dst, n): st.sym.pop(a)
            if self.track_uninit: self._mark_init(st, dst, n)
            self.write_bytes(st, dst, bytes([v & 255]) * n); return None
        if name.startswith(('llvm.umin', 'llvm.umax', 'llvm.smin', 'llvm.smax')):
            bits = ins['ty'].bits; k = name[5:9]
            pred = {'umin': 'ult', 'umax': 'ugt', 'smin': 'slt', 'smax': 'sgt'}[k]
            c = self.icmp(pred, args[0], args[1], bits)
            if isinstance(c, int): return args[0] if c else args[1]
            return self.ite(self.as_bool(c), args[0], args[1], ins['ty'])
        if name.startswith(('llvm.usub.sat', 'llvm.uadd.sat')):
            bits = ins['ty'].bits; a, b = args[0], args[1]
            if name.startswith('llvm.usub.sat'):
                c = self.icmp('ugt', a, b, bits); d = self.ibin('sub', a, b, bits)
                if isinstance(c, int): return d if c else 0
                return self.ite(self.as_bool(c), d, 0 if isinstance(d, int) else z3.BitVecVal(0, bits), ins['ty'])
            d = self.ibin('add', a, b, bits); c = self.icmp('ult', d, a, bits)       # wrapped around
            if isinstance(c, int): return MASK(bits) if c else d
            return self.ite(self.as_bool(c), z3.BitVecVal(MASK(bits), bits), d, ins['ty'])
        if name.startswith('llvm.abs.'):
            bits = ins['ty'].bits; v = args[0]
            if isinstance(v, int): return abs(sgn(v, bits)) & MASK(bits)
            return z3.If(v < 0, -v, v)
        if name.startswith(('llvm.floor', 'llvm.fabs', 'llvm.round', 'llvm.ceil', 'llvm.sqrt', 'llvm.sin', 'llvm.cos', 'llvm.exp', 'llvm.log', 'llvm.pow.', 'llvm.trunc')):
            k = name.split('.')[1]; bits = 32 if name.endswith('f32') else 64
            if k == 'trunc':
                v = args[0]
                if self.dom.name in ('concrete', 'fp') and self.dom.is_conc(v): return np.trunc(v)
                if isinstance(v, Fraction): return Fraction(int(v))
                raise Unsupported('symbolic trunc')
            return self.libm(st, k + ('f' if bits == 32 else ''), args)
        if name.startswith(('llvm.minnum', 'llvm.maxnum')):
            a, b = args; isn = name.startswith('llvm.minnum')
            if self.dom.name in ('concrete', 'fp') and self.dom.is_conc(a) and self.dom.is_conc(b): return (np.fmin if isn else np.fmax)(a, b)
            c = self.dom.cmp('olt' if isn else 'ogt', a, b)
            if isinstance(c, int): return a if c else b
            if self.dom.name == 'fp':      # IEEE minNum/maxNum: a quiet NaN operand yields the other operand
                A, Bz = self.dom.z(a), self.dom.z(b)
                return z3.If(z3.fpIsNaN(Bz), A, z3.If(z3.fpIsNaN(A), Bz, z3.If(c, A, Bz)))
            return z3.If(c, self.dom.z(a), self.dom.z(b))
        if name.startswith('llvm.ctlz') or name.startswith('llvm.cttz') or name.startswith('llvm.ctpop'):
            v = args[0]; bits = ins['ty'].bits
            if not isinstance(v, int): raise Unsupported('symbolic ' + name)
            if 'ctpop' in name: return bin(v).count('1')
            if 'ctlz' in name: return bits - v.bit_length()
            return (v & -v).bit_length() - 1 if v else bits
        if name.startswith('llvm.uadd.with.overflow') or name.startswith('llvm.umul.with.overflow') or name.startswith('llvm.usub.with.overflow') or name.startswith('llvm.sadd.with.overflow') or name.startswith('llvm.smul.with.overflow'):
            a, b = args; bits = int(name.rsplit('.i', 1)[1])
            if not (isinstance(a, int) and isinstance(b, int)): raise Unsupported('symbolic ' + name)
            if name.startswith('llvm.u'):
                r = {'uadd': a + b, 'umul': a * b, 'usub': a - b}[name[5:9]]
                return [r & MASK(bits), int(r < 0 or r > MASK(bits))]
            x, y = sgn(a, bits), sgn(b, bits); r = x + y if 'sadd' in name else x * y
            return [r & MASK(bits), int(not (-(1 << (bits - 1)) <= r < (1 << (bits - 1))))]
        if name.startswith('llvm.bswap'):
            v = args[0]; bits = ins['ty'].bits
            if not isinstance(v, int): raise Unsupported('symbolic bswap')
            return int.from_bytes(v.to_bytes(bits // 8, 'little'), 'big')
        if name.startswith('llvm.eh.typeid.for'):
            n = self.tinfo_name(args[0]); return self.typeid_for(n) if n else 0
        if name.startswith('llvm.stacksave'): return 0
        if name.startswith('llvm.stackrestore'): return None
        if name.startswith('llvm.expect'): return args[0]
        if name.startswith('llvm.trap'): raise PathEnd('llvm.trap')
        if name.startswith('llvm.fshl') or name.startswith('llvm.fshr'):
            a, b, c = args; bits = ins['ty'].bits
            if not all(isinstance(x, int) for x in args): raise Unsupported('symbolic funnel shift')
            c %= bits; w = (a << bits) | b
            return ((w << c) >> bits) & MASK(bits) if 'fshl' in name else (w >> c) & MASK(bits)
        if name.startswith('llvm.is.constant'): return 0
        if name.startswith('llvm.objectsize'): return MASK(64)
        if name.startswith('llvm.copysign'):
            a, b = args
            if self.dom.name == 'concrete': return np.copysign(a, b)
            if isinstance(a, Fraction) and isinstance(b, Fraction): return abs(a) if b >= 0 else -abs(a)
            raise Unsupported('symbolic copysign')
        raise Unsupported('intrinsic ' + name)
    def memcpy(self, st, dst, src, n):
        if n == 0: return
        self.check_access(st, src, n, 'memcpy-read'); self.check_access(st, dst, n, 'memcpy-write')
        if st.wlog is not None: st.wlog.append((dst, n))
        cells = []
        a = src
        if st.sym:
            while a < src + n:
                c = st.sym.get(a)
                if c is not None:
                    if a + c[0] > src + n: raise Unsupported('memcpy splits symbolic cell')
                    cells.append((a - src, c)); a += c[0]
                else:
                    a += 1
            for x in self._overlap(st, src, 1):
                if x < src: raise Unsupported('memcpy misaligned symbolic cell')
        data = self.read_bytes(st, src, n)
        if self.track_uninit: self._mark_init(st, dst, n)
        if self.garbage_heap: self._garb_copy(st, dst, src, n)
        for x in self._overlap(st, dst, n):
            c = st.sym[x]
            if x < dst or x + c[0] > dst + n: raise Unsupported('memcpy partially overwrites a symbolic cell')
            st.sym.pop(x)
        self.write_bytes(st, dst, data)
        for o, c in cells: st.sym[dst + o] = c

# ------------------------------------------------------------------ default external models
def ext_new(ex, st, fr, args, ins):
    n = args[0]
    if not isinstance(n, int): raise Unsupported('symbolic allocation size')
    if n > (1 << 32): raise MemError('allocation of %d bytes (size computation wrapped?)' % n)
    a = ex.malloc(st, n)
    if ex.garbage_heap: ex.garbage_alloc(st, a, n)
    return a
def ext_free(ex, st, fr, args, ins): return None
def ext_modff(ex, st, fr, args, ins):
    x, ip = args
    if ex.dom.name in ('concrete', 'fp') and ex.dom.is_conc(x):
        f, i = np.modf(x); ex.store(st, ip, FloatTy(32), np.float32(i)); return np.float32(f)
    if isinstance(x, Fraction):
        i = Fraction(int(x)); ex.store(st, ip, FloatTy(32), i); return x - i
    alts = []
    for cons, k in ex.int_split(st, x, 'trunc'):
        if ex.dom.name == 'fp':
            kk = np.float32(k); frac = z3.fpSub(z3.RNE(), x, z3.FPVal(float(k), x.sort()))      # exact: |x - k| < 1 is representable
        else:
            kk = Fraction(k); frac = x - k
        def eff(o, kk=kk): ex.store(o, ip, FloatTy(32), kk)
        alts.append((cons, frac, eff))
    return Forks(alts)
def ext_memcmp(ex, st, fr, args, ins):
    a, b, n = args
    if not isinstance(n, int): raise Unsupported('symbolic memcmp length')
    if ex._overlap(st, a, n) or ex._overlap(st, b, n): raise Unsupported('memcmp over symbolic cells')
    ex.check_access(st, a, n, 'memcmp'); ex.check_access(st, b, n, 'memcmp')
    x = ex.read_bytes(st, a, n); y = ex.read_bytes(st, b, n)
    return ((x > y) - (x < y)) & MASK(32)
def ext_strcmp(ex, st, fr, args, ins):
    a, b = args; i = 0
    while True:
        x = ex.read_bytes(st, a + i, 1)[0]; y = ex.read_bytes(st, b + i, 1)[0]
        if x != y: return (1 if x > y else -1) & MASK(32)
        if x == 0: return 0
        i += 1
def ext_strlen(ex, st, fr, args, ins):
    a = args[0]; n = 0
    while ex.read_bytes(st, a + n, 1) != b'\0': n += 1
    return n
def ext_memchr(ex, st, fr, args, ins):
    a, c, n = args
    d = ex.read_bytes(st, a, n); i = d.find(bytes([c & 255]))
    return 0 if i < 0 else a + i
def ext_noop(ex, st, fr, args, ins): return None
def ext_zero(ex, st, fr, args, ins): return 0
def ext_pathend(msg):
    def f(ex, st, fr, args, ins): raise PathEnd(msg)
    return f
def ext_memmove(ex, st, fr, args, ins):
    ex.memcpy(st, args[0], args[1], args[2]); return args[0]
def ext_memset(ex, st, fr, args, ins):
    dst, v, n = args
    ex.check_access(st, dst, n, 'memset')
    for a in ex._overlap(st, dst, n): st.sym.pop(a)
    if ex.track_uninit: ex._mark_init(st, dst, n)
    if ex.garbage_heap and dst >= EXEC_HEAP: ex._garb_clear(st, dst, n)
    ex.write_bytes(st, dst, bytes([v & 255]) * n); return dst
def ext_atomic_guard(ex, st, fr, args, ins):
    # __cxa_guard_acquire: a function-local static that the (native) process has already initialised keeps its value - the guard byte in the snapshot says so
    g = args[0]
    if isinstance(g, int):
        try:
            if ex.read_bytes(st, g, 1) != b'\0': return 0
        except MemError: pass
    return 1
def ext_guard_release(ex, st, fr, args, ins):
    if isinstance(args[0], int):
        cm = ex.check_mem; ex.check_mem = False
        try: ex.write_bytes(st, args[0], b'\1')
        finally: ex.check_mem = cm
    return None
def ext_cxa_alloc(ex, st, fr, args, ins): return ex.malloc(st, args[0] + 128) + 128
def ext_cxa_throw(ex, st, fr, args, ins):
    n = ex.tinfo_name(args[1])
    if n is None: raise Unsupported('throw of an object with unknown type_info')
    raise CxxThrow(args[0], n)
def ext_cxa_begin_catch(ex, st, fr, args, ins): return args[0]
def ext_cxa_rethrow(ex, st, fr, args, ins):
    exc = st.extra.get('exc')
    if exc is None: raise PathEnd('rethrow without exception')
    raise CxxThrow(exc[0], exc[1])
def ext_rd_getval(ex, st, fr, args, ins): return 5489   # std::random_device: a fixed seed; random draws are modelled at the distribution level
def ext_lround(ex, st, fr, args, ins):
    """lround / llround: nearest integer, halves away from zero (ties of a symbolic argument go up: a null set)"""
    x = args[0]
    if ex.dom.is_conc(x):
        v = Fraction(x) if not isinstance(x, Fraction) else x
        k = math.floor(v + Fraction(1, 2)) if v >= 0 else -math.floor(-v + Fraction(1, 2))
        return k & MASK(64)
    if ex.round_toint and ex.dom.name != 'fp':      # no enumeration of integer parts: a fresh mathematical integer tied to the argument
        kr = ex.round_sym(st, 'round', x); k = ex.intsym[kr.get_id()][1]
        return z3.Int2BV(k, 64)
    return Forks([(c, k & MASK(64), None) for c, k in ex.int_split(st, x + Fraction(1, 2), 'floor')])
DEFAULT_EXT = {'lround': ext_lround, 'lroundf': ext_lround, 'llround': ext_lround, 'llroundf': ext_lround, '_Znwm': ext_new, '_Znam': ext_new, '_ZdlPv': ext_free, '_ZdaPv': ext_free, '_ZdlPvm': ext_free, '_ZdaPvm': ext_free, 'free': ext_free, 'malloc': ext_new,
               'modff': ext_modff, 'memcmp': ext_memcmp, 'bcmp': ext_memcmp, 'strlen': ext_strlen, 'strcmp': ext_strcmp, 'memchr': ext_memchr,
               'memcpy': ext_memmove, 'memmove': ext_memmove, 'memset': ext_memset,
               '_ZNSt13random_device7_M_initERKNSt7__cxx1112basic_stringIcSt11char_traitsIcESaIcEEE': ext_noop, '_ZNSt13random_device7_M_finiEv': ext_noop,
               '_ZNSt13random_device9_M_getvalEv': ext_rd_getval,
               '__cxa_guard_acquire': ext_atomic_guard, '__cxa_guard_release': ext_guard_release, '__cxa_atexit': ext_zero,
               '__assert_fail': ext_pathend('assertion failed'), 'abort': ext_pathend('abort'), '_ZSt9terminatev': ext_pathend('terminate'),
               '__cxa_allocate_exception': ext_cxa_alloc, '__cxa_throw': ext_cxa_throw, '__cxa_begin_catch': ext_cxa_begin_catch, '__cxa_end_catch': ext_noop, '__cxa_free_exception': ext_noop,
               '__cxa_rethrow': ext_cxa_rethrow,
               '_ZSt20__throw_length_errorPKc': ext_pathend('throw length_error'), '_ZSt17__throw_bad_allocv': ext_pathend('throw bad_alloc'),
               '_ZSt20__throw_out_of_rangePKc': ext_pathend('throw out_of_range'), '_ZSt24__throw_out_of_range_fmtPKcz': ext_pathend('throw out_of_range'),
               '_ZSt19__throw_logic_errorPKc': ext_pathend('throw logic_error'), '_ZSt28__throw_bad_array_new_lengthv': ext_pathend('throw bad_array_new_length'),
               '_ZSt25__throw_bad_function_callv': ext_pathend('throw bad_function_call'),
               }

# ------------------------------------------------------------------ IEEE domain (z3 FP theory) for bit-exact claims on short expressions
class FPDom:
    """concrete values are numpy floats (IEEE, via numpy); symbolic values are z3 FP terms.  fmuladd is evaluated unfused."""
    name = 'fp'
    RM = z3.RNE()
    def __init__(s): s.c = ConcreteDom()
    def sort(s, bits): return z3.Float32() if bits == 32 else z3.Float64()
    def const(s, x, bits): return s.c.const(x, bits)
    def from_bits(s, v, bits): return s.c.from_bits(v, bits)
    def to_bits(s, x, bits):
        if s.is_conc(x): return s.c.to_bits(x, bits)
        raise Unsupported('symbolic fp -> bits (use FBits)')
    def is_conc(s, x): return isinstance(x, (np.floating, float))
    def z(s, x, bits=32):
        if s.is_conc(x):
            bits = 32 if isinstance(x, np.float32) else 64
            return z3.fpBVToFP(z3.BitVecVal(s.c.to_bits(x, bits), bits), s.sort(bits))
        return x
    def bin(s, op, a, b, bits):
        if s.is_conc(a) and s.is_conc(b): return s.c.bin(op, a, b, bits)
        A, B = s.z(a, bits), s.z(b, bits)
        return {'fadd': lambda: z3.fpAdd(s.RM, A, B), 'fsub': lambda: z3.fpSub(s.RM, A, B), 'fmul': lambda: z3.fpMul(s.RM, A, B), 'fdiv': lambda: z3.fpDiv(s.RM, A, B)}[op]()
    def neg(s, a): return -a if s.is_conc(a) else z3.fpNeg(a)
    def cmp(s, pred, a, b):
        if s.is_conc(a) and s.is_conc(b): return s.c.cmp(pred, a, b)
        A, B = s.z(a), s.z(b)
        un = z3.Or(z3.fpIsNaN(A), z3.fpIsNaN(B))
        base = {'eq': z3.fpEQ(A, B), 'gt': z3.fpGT(A, B), 'ge': z3.fpGEQ(A, B), 'lt': z3.fpLT(A, B), 'le': z3.fpLEQ(A, B), 'ne': z3.Not(z3.fpEQ(A, B))}
        if pred == 'uno': return un
        if pred == 'ord': return z3.Not(un)
        if pred == 'true': return 1
        if pred == 'false': return 0
        p = pred[1:]
        if pred[0] == 'o': return z3.And(z3.Not(un), base[p])
        return z3.Or(un, base[p])
    def conv(s, a, frm, to):
        if s.is_conc(a): return s.c.conv(a, frm, to)
        return z3.fpToFP(s.RM, a, s.sort(to))
    def from_int(s, v, signed, ibits, bits):
        if isinstance(v, int): return s.c.from_int(v, signed, ibits, bits)
        return z3.fpToFP(s.RM, v, s.sort(bits)) if signed else z3.fpToFPUnsigned(s.RM, v, s.sort(bits))
    def fn(s, name, args, bits):
        if all(s.is_conc(a) for a in args): return s.c.fn(name, args, bits)
        base = name[:-1] if name.endswith('f') else name
        if base == 'fabs': return z3.fpAbs(s.z(args[0]))
        if base == 'sqrt': return z3.fpSqrt(s.RM, s.z(args[0]))
        raise Unsupported('symbolic %s in FP domain' % name)

class EpsDom(RealDom):
    """reals with the standard rounding model: every inexact float32 operation returns exact*(1+e)+a, |e| <= 2^-24, |a| <= 2^-149 (mul/div only);
    concrete operands are rounded exactly like IEEE (via numpy)."""
    name = 'eps'
    def __init__(s):
        super().__init__(); s.eps = []; s.abs = []
    def _round(s, x, op):
        e = z3.Real('eps%d' % len(s.eps)); s.eps.append(e)
        r = x * (1 + e)
        if op in ('fmul', 'fdiv'):
            a = z3.Real('uf%d' % len(s.abs)); s.abs.append(a); r = r + a
        return r
    def constraints(s):
        u = z3.RealVal(str(Fraction(1, 2**24))); t = z3.RealVal(str(Fraction(1, 2**149)))
        return [c for e in s.eps for c in (e >= -u, e <= u)] + [c for a in s.abs for c in (a >= -t, a <= t)]
    @staticmethod
    def _pow2(x): return isinstance(x, Fraction) and x != 0 and (abs(x).numerator & (abs(x).numerator - 1)) == 0 and (abs(x).denominator & (abs(x).denominator - 1)) == 0
    def bin(s, op, a, b, bits):
        if isinstance(a, Fraction) and isinstance(b, Fraction):
            r = RealDom.bin(s, op, a, b, bits)
            return Fraction(float(np.float32(float(r)))) if bits == 32 else Fraction(float(r))
        r = RealDom.bin(s, op, a, b, bits)
        if isinstance(r, Fraction): return r
        # exact cases: x*0, x*1, x+0 are folded by RealDom; scaling by a power of two is exact (up to underflow)
        if op in ('fmul', 'fdiv') and (s._pow2(a) and op == 'fmul' or s._pow2(b)): return r
        if (op == 'fmul' and ((isinstance(a, Fraction) and a in (0, 1)) or (isinstance(b, Fraction) and b in (0, 1)))): return r
        if op in ('fadd', 'fsub') and ((isinstance(a, Fraction) and a == 0) or (isinstance(b, Fraction) and b == 0)): return r
        return s._round(r, op)

# ------------------------------------------------------------------ libstdc++ red-black tree support (compiled library code reached from std::map)
def _rb(ex, st):
    I64 = IntTy(64); I32 = IntTy(32)
    class N:
        @staticmethod
        def color(n): return ex.load(st, n, I32)
        @staticmethod
        def setcolor(n, c): ex.store(st, n, I32, c)
        @staticmethod
        def parent(n): return ex.load(st, n + 8, I64)
        @staticmethod
        def left(n): return ex.load(st, n + 16, I64)
        @staticmethod
        def right(n): return ex.load(st, n + 24, I64)
        @staticmethod
        def setparent(n, v): ex.store(st, n + 8, I64, v)
        @staticmethod
        def setleft(n, v): ex.store(st, n + 16, I64, v)
        @staticmethod
        def setright(n, v): ex.store(st, n + 24, I64, v)
    return N
RED, BLACK = 0, 1
def ext_rb_insert(ex, st, fr, args, ins):
    """std::_Rb_tree_insert_and_rebalance(bool insert_left, node* x, node* p, node_base& header) - transcription of libstdc++'s tree.cc"""
    insert_left, x, p, header = args
    T = _rb(ex, st)
    def root(): return T.parent(header)
    def setroot(v): T.setparent(header, v)
    def rot_left(x):
        y = T.right(x); T.setright(x, T.left(y))
        if T.left(y): T.setparent(T.left(y), x)
        T.setparent(y, T.parent(x))
        if x == root(): setroot(y)
        elif x == T.left(T.parent(x)): T.setleft(T.parent(x), y)
        else: T.setright(T.parent(x), y)
        T.setleft(y, x); T.setparent(x, y)
    def rot_right(x):
        y = T.left(x); T.setleft(x, T.right(y))
        if T.right(y): T.setparent(T.right(y), x)
        T.setparent(y, T.parent(x))
        if x == root(): setroot(y)
        elif x == T.right(T.parent(x)): T.setright(T.parent(x), y)
        else: T.setleft(T.parent(x), y)
        T.setright(y, x); T.setparent(x, y)
    T.setparent(x, p); T.setleft(x, 0); T.setright(x, 0); T.setcolor(x, RED)
    if insert_left & 1:
        T.setleft(p, x)
        if p == header: setroot(x); T.setright(header, x)
        elif p == T.left(header): T.setleft(header, x)
    else:
        T.setright(p, x)
        if p == T.right(header): T.setright(header, x)
    while x != root() and T.color(T.parent(x)) == RED:
        xpp = T.parent(T.parent(x))
        if T.parent(x) == T.left(xpp):
            y = T.right(xpp)
            if y and T.color(y) == RED:
                T.setcolor(T.parent(x), BLACK); T.setcolor(y, BLACK); T.setcolor(xpp, RED); x = xpp
            else:
                if x == T.right(T.parent(x)): x = T.parent(x); rot_left(x)
                T.setcolor(T.parent(x), BLACK); T.setcolor(xpp, RED); rot_right(xpp)
        else:
            y = T.left(xpp)
            if y and T.color(y) == RED:
                T.setcolor(T.parent(x), BLACK); T.setcolor(y, BLACK); T.setcolor(xpp, RED); x = xpp
            else:
                if x == T.left(T.parent(x)): x = T.parent(x); rot_right(x)
                T.setcolor(T.parent(x), BLACK); T.setcolor(xpp, RED); rot_left(xpp)
    T.setcolor(root(), BLACK)
    return None
def ext_rb_increment(ex, st, fr, args, ins):
    T = _rb(ex, st); x = args[0]
    if T.right(x):
        x = T.right(x)
        while T.left(x): x = T.left(x)
        return x
    y = T.parent(x)
    while x == T.right(y): x = y; y = T.parent(y)
    if T.right(x) != y: x = y
    return x
def ext_rb_decrement(ex, st, fr, args, ins):
    T = _rb(ex, st); x = args[0]
    if T.color(x) == RED and T.parent(T.parent(x)) == x: return T.right(x)
    if T.left(x):
        y = T.left(x)
        while T.right(y): y = T.right(y)
        return y
    y = T.parent(x)
    while x == T.left(y): x = y; y = T.parent(y)
    return y
DEFAULT_EXT.update({'_ZSt29_Rb_tree_insert_and_rebalancebPSt18_Rb_tree_node_baseS0_RS_': ext_rb_insert,
                    '_ZSt18_Rb_tree_incrementPSt18_Rb_tree_node_base': ext_rb_increment, '_ZSt18_Rb_tree_incrementPKSt18_Rb_tree_node_base': ext_rb_increment,
                    '_ZSt18_Rb_tree_decrementPSt18_Rb_tree_node_base': ext_rb_decrement, '_ZSt18_Rb_tree_decrementPKSt18_Rb_tree_node_base': ext_rb_decrement})

def occurs(term, sym):
    """syntactic occurrence of an uninterpreted constant in a z3 term"""
    seen = set(); stack = [term]; sid = sym.get_id()
    while stack:
        t = stack.pop()
        if t.get_id() in seen: continue
        seen.add(t.get_id())
        if t.get_id() == sid: return True
        stack.extend(t.children())
    return False

# ------------------------------------------------------------------ libstdc++ std::string (compiled members reached from inlined code); layout {char* p; size_t len; union{char buf[16]; size_t cap;}}
def _str_get(ex, st, s):
    p = ex.load(st, s, IntTy(64)); n = ex.load(st, s + 8, IntTy(64))
    cap = 15 if p == s + 16 else ex.load(st, s + 16, IntTy(64))
    return p, n, cap
def ext_str_create(ex, st, fr, args, ins):
    this, capref, old = args
    cap = ex.load(st, capref, IntTy(64))
    if cap > old and cap < 2 * old: cap = 2 * old; ex.store(st, capref, IntTy(64), cap)
    return ex.malloc(st, cap + 1)
def _str_set(ex, st, s, data):
    p, n, cap = _str_get(ex, st, s)
    if len(data) > cap:
        newcap = max(len(data), 2 * cap); p = ex.malloc(st, newcap + 1)
        ex.store(st, s, IntTy(64), p); ex.store(st, s + 16, IntTy(64), newcap)
    ex.write_bytes(st, p, data + b'\0'); ex.store(st, s + 8, IntTy(64), len(data))
def ext_str_append(ex, st, fr, args, ins):
    this, src, k = args
    p, n, cap = _str_get(ex, st, this)
    _str_set(ex, st, this, ex.read_bytes(st, p, n) + ex.read_bytes(st, src, k)); return this
def ext_str_assign(ex, st, fr, args, ins):
    this, other = args
    p, n, cap = _str_get(ex, st, other); _str_set(ex, st, this, ex.read_bytes(st, p, n)); return None
def ext_str_replace(ex, st, fr, args, ins):
    this, pos, len1, src, len2 = args
    p, n, cap = _str_get(ex, st, this); cur = ex.read_bytes(st, p, n)
    _str_set(ex, st, this, cur[:pos] + ex.read_bytes(st, src, len2) + cur[pos + len1:]); return this
def ext_str_mutate(ex, st, fr, args, ins):
    this, pos, len1, src, len2 = args
    p, n, cap = _str_get(ex, st, this); cur = ex.read_bytes(st, p, n)
    new = cur[:pos] + (ex.read_bytes(st, src, len2) if src else bytes(len2)) + cur[pos + len1:]
    newcap = max(len(new), 2 * cap); q = ex.malloc(st, newcap + 1); ex.write_bytes(st, q, new + b'\0')
    ex.store(st, this, IntTy(64), q); ex.store(st, this + 16, IntTy(64), newcap); return None
def ext_str_compare(ex, st, fr, args, ins):
    a, b = args[0], args[1]
    pa, na, _ = _str_get(ex, st, a); x = ex.read_bytes(st, pa, na)
    if ins['args'][1][0].__class__.__name__ == 'PtrTy' and len(args) == 2 and 'PKc' in (ins['callee'][1] if ins['callee'][0] == 'global' else ''):
        k = 0
        while ex.read_bytes(st, b + k, 1) != b'\0': k += 1
        y = ex.read_bytes(st, b, k)
    else:
        pb, nb_, _ = _str_get(ex, st, b); y = ex.read_bytes(st, pb, nb_)
    return ((x > y) - (x < y)) & MASK(32)
SP = '_ZNSt7__cxx1112basic_stringIcSt11char_traitsIcESaIcEE'
DEFAULT_EXT.update({SP + '9_M_createERmm': ext_str_create, SP + '9_M_appendEPKcm': ext_str_append, SP + '9_M_assignERKS4_': ext_str_assign,
                    SP + '10_M_replaceEmmPKcm': ext_str_replace, SP + '9_M_mutateEmmPKcm': ext_str_mutate,
                    '_ZNKSt7__cxx1112basic_stringIcSt11char_traitsIcESaIcEE7compareEPKc': ext_str_compare, '_ZNKSt7__cxx1112basic_stringIcSt11char_traitsIcESaIcEE7compareERKS4_': ext_str_compare})

# ---- more std::string members (explicit instantiations in libstdc++; reached when the TU is compiled with -fno-inline)
def _str_init(ex, st, s, data):
    ex.store(st, s, IntTy(64), s + 16); ex.store(st, s + 8, IntTy(64), 0); ex.write_bytes(st, s + 16, bytes(16)); _str_set(ex, st, s, data)
def _cstr_at(ex, st, p):
    n = 0
    while ex.read_bytes(st, p + n, 1) != b'\0': n += 1
    return ex.read_bytes(st, p, n)
def _str_bytes(ex, st, s):
    p, n, cap = _str_get(ex, st, s); return ex.read_bytes(st, p, n)
def ext_str_cstr(ex, st, fr, a, ins): return ex.load(st, a[0], IntTy(64))
def ext_str_size(ex, st, fr, a, ins): return ex.load(st, a[0] + 8, IntTy(64))
def ext_str_empty(ex, st, fr, a, ins): return int(ex.load(st, a[0] + 8, IntTy(64)) == 0)
def ext_str_ctor_default(ex, st, fr, a, ins): _str_init(ex, st, a[0], b''); return None
def ext_str_ctor_cstr(ex, st, fr, a, ins): _str_init(ex, st, a[0], _cstr_at(ex, st, a[1])); return None
def ext_str_ctor_copy(ex, st, fr, a, ins): _str_init(ex, st, a[0], _str_bytes(ex, st, a[1])); return None
def ext_str_assign_op(ex, st, fr, a, ins): _str_set(ex, st, a[0], _str_bytes(ex, st, a[1])); return a[0]
def ext_str_assign_cstr(ex, st, fr, a, ins): _str_set(ex, st, a[0], _cstr_at(ex, st, a[1])); return a[0]
def ext_str_append_str(ex, st, fr, a, ins): _str_set(ex, st, a[0], _str_bytes(ex, st, a[0]) + _str_bytes(ex, st, a[1])); return a[0]
def ext_str_append_cstr(ex, st, fr, a, ins): _str_set(ex, st, a[0], _str_bytes(ex, st, a[0]) + _cstr_at(ex, st, a[1])); return a[0]
def ext_str_index(ex, st, fr, a, ins): return ex.load(st, a[0], IntTy(64)) + a[1]
def ext_str_eq_cstr(ex, st, fr, a, ins): return int(_str_bytes(ex, st, a[0]) == _cstr_at(ex, st, a[1]))
def ext_str_eq_str(ex, st, fr, a, ins): return int(_str_bytes(ex, st, a[0]) == _str_bytes(ex, st, a[1]))
def ext_str_lt(ex, st, fr, a, ins): return int(_str_bytes(ex, st, a[0]) < _str_bytes(ex, st, a[1]))
def ext_str_clear(ex, st, fr, a, ins): _str_set(ex, st, a[0], b''); return None
SC = '_ZNKSt7__cxx1112basic_stringIcSt11char_traitsIcESaIcEE'
DEFAULT_EXT.update({SC + '5c_strEv': ext_str_cstr, SC + '4dataEv': ext_str_cstr, SC + '4sizeEv': ext_str_size, SC + '6lengthEv': ext_str_size, SC + '5emptyEv': ext_str_empty,
                    SP + 'C1Ev': ext_str_ctor_default, SP + 'C2Ev': ext_str_ctor_default, SP + 'C1EPKcRKS3_': ext_str_ctor_cstr, SP + 'C2EPKcRKS3_': ext_str_ctor_cstr, SP + 'C1ERKS4_': ext_str_ctor_copy, SP + 'C2ERKS4_': ext_str_ctor_copy,
                    SP + 'C1EOS4_': ext_str_ctor_copy, SP + 'C2EOS4_': ext_str_ctor_copy, SP + 'D1Ev': ext_noop, SP + 'D2Ev': ext_noop, SP + 'aSERKS4_': ext_str_assign_op, SP + 'aSEOS4_': ext_str_assign_op, SP + 'aSEPKc': ext_str_assign_cstr,
                    SP + 'pLERKS4_': ext_str_append_str, SP + 'pLEPKc': ext_str_append_cstr, SP + '6appendERKS4_': ext_str_append_str, SP + '6appendEPKc': ext_str_append_cstr, SP + 'ixEm': ext_str_index, SC + 'ixEm': ext_str_index,
                    SP + '5clearEv': ext_str_clear,
                    '_ZSteqIcSt11char_traitsIcESaIcEEbRKNSt7__cxx1112basic_stringIT_T0_T1_EEPKS5_': ext_str_eq_cstr, '_ZSteqIcEN9__gnu_cxx11__enable_ifIXsr9__is_charIT_EE7__valueEbE6__typeERKNSt7__cxx1112basic_stringIS2_St11char_traitsIS2_ESaIS2_EEESC_': ext_str_eq_str,
                    '_ZStltIcSt11char_traitsIcESaIcEEbRKNSt7__cxx1112basic_stringIT_T0_T1_EES8_': ext_str_lt,
                    '_ZNSaIcEC1Ev': ext_noop, '_ZNSaIcED1Ev': ext_noop, '_ZNSaIcEC2Ev': ext_noop, '_ZNSaIcED2Ev': ext_noop})

def ext_str_plus_cstr_str(ex, st, fr, a, ins): _str_init(ex, st, a[0], _cstr_at(ex, st, a[1]) + _str_bytes(ex, st, a[2])); return None
def ext_str_plus_str_cstr(ex, st, fr, a, ins): _str_init(ex, st, a[0], _str_bytes(ex, st, a[1]) + _cstr_at(ex, st, a[2])); return None
def ext_str_plus_str_str(ex, st, fr, a, ins): _str_init(ex, st, a[0], _str_bytes(ex, st, a[1]) + _str_bytes(ex, st, a[2])); return None
DEFAULT_EXT.update({'_ZStplIcSt11char_traitsIcESaIcEENSt7__cxx1112basic_stringIT_T0_T1_EEPKS5_RKS8_': ext_str_plus_cstr_str, '_ZStplIcSt11char_traitsIcESaIcEENSt7__cxx1112basic_stringIT_T0_T1_EEOS8_PKS5_': ext_str_plus_str_cstr,
                    '_ZStplIcSt11char_traitsIcESaIcEENSt7__cxx1112basic_stringIT_T0_T1_EERKS8_PKS5_': ext_str_plus_str_cstr, '_ZStplIcSt11char_traitsIcESaIcEENSt7__cxx1112basic_stringIT_T0_T1_EERKS8_SA_': ext_str_plus_str_str})
for _n in ('_ZNSt8bad_castD2Ev', '_ZNSt8bad_castD1Ev', '_ZNSt8bad_castD0Ev', '_ZNSt9exceptionD2Ev', '_ZNSt9exceptionD1Ev', '_ZNSt9exceptionD0Ev', '_ZNSt13runtime_errorD2Ev', '_ZNSt11logic_errorD2Ev'):
    DEFAULT_EXT[_n] = ext_noop
