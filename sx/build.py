"""Build step of every check: compile /repo's *current working tree* and one harness TU with clang-14,
once to objects (linked into the native snapshot/replay executable) and once to textual LLVM IR (input of
the symbolic executor).  Results are cached under /verif/build/<sha256(sources+flags)>/ so that a changed
tree always rebuilds and an unchanged tree does not."""
import os, sys, re, hashlib, subprocess, shutil, json, time
from concurrent.futures import ThreadPoolExecutor

REPO = os.environ.get('VERIF_REPO', '/repo')
VERIF = os.path.dirname(os.path.dirname(os.path.abspath(__file__)))
BUILD = os.path.join(os.environ['VERIF_SCRATCH'], 'build') if os.environ.get('VERIF_SCRATCH') else os.path.join(VERIF, 'build')      # runs on a mutated scratch copy keep their builds with their scratch output
CXX = 'clang++-14'
GUARD = 'INOVESA_VERIF'

BASE_FLAGS = ['-std=c++14', '-O1', '-fno-vectorize', '-fno-slp-vectorize', '-fno-unroll-loops',
              '-fno-strict-aliasing', '-DNDEBUG', '-w',
              '-DINOVESA_USE_OPENCL=0', '-DINOVESA_USE_OPENGL=0', '-DINOVESA_USE_PNG=0', '-DINOVESA_USE_CLFFT=0',
              '-DINOVESA_ENABLE_CLPROFILING=0', '-DINOVESA_ENABLE_INTERRUPT=1', '-D%s=1' % GUARD,
              '-DGIT_BRANCH="verif"', '-DGIT_COMMIT="verif"', '-DINOVESA_ALLOW_PS_RESET=1',
              '-I/usr/include/hdf5/serial']

def _files(root, exts):
    out = []
    for d, _, fs in os.walk(root):
        if '/CL' in d or '/GUI' in d: continue
        for f in fs:
            if f.endswith(exts): out.append(os.path.join(d, f))
    return sorted(out)

def tree_hash(extra=()):
    h = hashlib.sha256()
    for p in _files(os.path.join(REPO, 'inc'), ('.hpp', '.h')) + _files(os.path.join(REPO, 'src'), ('.cpp',)) + [os.path.join(REPO, 'CMakeLists.txt'), os.path.join(REPO, 'InovesaConfig.hpp.in')]:
        h.update(p.encode()); h.update(open(p, 'rb').read())
    for e in extra: h.update(e if isinstance(e, bytes) else str(e).encode())
    return h.hexdigest()[:20]

def _gen_config(d):
    cm = open(os.path.join(REPO, 'CMakeLists.txt')).read()
    src = open(os.path.join(REPO, 'InovesaConfig.hpp.in')).read()
    for k in ('MAJOR', 'MINOR', 'FIX'):
        m = re.search(r'set\s*\(\s*INOVESA_VERSION_%s\s+(-?\d+)' % k, cm)
        src = src.replace('@INOVESA_VERSION_%s@' % k, m.group(1) if m else '0')
    open(os.path.join(d, 'InovesaConfig.hpp'), 'w').write(src)

def _run(cmd):
    r = subprocess.run(cmd, capture_output=True, text=True)
    if r.returncode != 0:
        raise RuntimeError('build failed: %s\n%s' % (' '.join(cmd), r.stderr[-4000:]))

def build(harness, tus, hdf5=0, extra_flags=(), libs=('-lfftw3f',), noinline_tus=(), link=True):
    """harness: path of harness .cpp (relative to /verif/harness) or None; tus: repo-relative sources, e.g. 'src/SM/KickMap.cpp'.
    Returns dict(dir, exe, ll={name: path})."""
    flags = BASE_FLAGS + ['-DINOVESA_USE_HDF5=%d' % hdf5] + list(extra_flags)
    hsrc = os.path.join(VERIF, 'harness', harness) if harness else None
    extra = [json.dumps(flags), json.dumps(sorted(tus)), json.dumps(sorted(noinline_tus)), json.dumps(libs)]
    if hsrc:
        extra.append(open(hsrc, 'rb').read()); extra.append(open(os.path.join(VERIF, 'harness', 'snap.hpp'), 'rb').read())
    key = tree_hash(extra)
    d = os.path.join(BUILD, (os.path.splitext(harness)[0] if harness else 'repo') + '-' + key)
    res = {'dir': d, 'exe': os.path.join(d, 'harness'), 'll': {}, 'key': key}
    names = []
    for t in tus:
        n = os.path.splitext(os.path.basename(t))[0]; names.append((n, os.path.join(REPO, t)))
    if hsrc: names.append(('harness', hsrc))
    for n, _ in names: res['ll'][n] = os.path.join(d, n + '.ll')
    if os.path.exists(os.path.join(d, '.done')):
        return res
    tmp = d + '.tmp%d' % os.getpid()
    shutil.rmtree(tmp, ignore_errors=True); os.makedirs(tmp)
    _gen_config(tmp)
    inc = ['-I' + os.path.join(REPO, 'inc'), '-I' + tmp, '-I' + os.path.join(VERIF, 'harness')]
    jobs = []
    for n, src in names:
        fl = list(flags)
        if os.path.relpath(src, REPO) in noinline_tus: fl.append('-fno-inline')
        if n == 'harness': fl.append('-fno-access-control')    # harness may read private members (for roots); repo TUs are compiled as they are
        jobs.append([CXX] + fl + inc + ['-c', src, '-o', os.path.join(tmp, n + '.o')])
        jobs.append([CXX] + fl + inc + ['-S', '-emit-llvm', src, '-o', os.path.join(tmp, n + '.ll')])
    with ThreadPoolExecutor(16) as ex: list(ex.map(_run, jobs))
    if hsrc and link:
        _run([CXX, '-no-pie', '-o', os.path.join(tmp, 'harness')] + [os.path.join(tmp, n + '.o') for n, _ in names] + list(libs) + ['-ldl', '-lm'])
    open(os.path.join(tmp, '.done'), 'w').write(time.ctime())
    try:
        os.rename(tmp, d)
    except OSError:
        shutil.rmtree(tmp, ignore_errors=True)   # somebody else won the race
    return res

def gc(keep=12):
    """drop old build dirs (called by setup and by the driver)"""
    if not os.path.isdir(BUILD): return
    ds = sorted((os.path.join(BUILD, x) for x in os.listdir(BUILD)), key=os.path.getmtime)
    for x in ds[:-keep]: shutil.rmtree(x, ignore_errors=True)
