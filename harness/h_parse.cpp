// Harness for ProgramOptions::parse (C20): the option registry is what the real constructor builds (read back through boost's own API),
// parse(int, char**) is executed from IR against a model of boost::program_options' documented store/notify contract.
//   snap <prefix> <workdir>        registry + object snapshot (an existing regular file <workdir>/parent.cfg is created for the config-file paths)
//   run <in> <out>                 native oracle: parse a concrete command line / config file, print every bound variable
#include "snap.hpp"
#include "defines.hpp"
#include "IO/ProgramOptions.hpp"
#include <fstream>
#include <sstream>
using namespace vfps;
namespace po = boost::program_options;
extern "C" {
__attribute__((noinline)) bool e_parse(ProgramOptions* o, int ac, char** av) { return o->parse(ac, av); }
}
struct Reg { std::string type; const void* store_to = nullptr; bool has_default = false; std::string dflt = "-"; bool composing = false, multitoken = false, zero_tokens = false, has_implicit = false; };
template <class T> static std::string bits_of(const T& v) { char b[40]; uint64_t u = 0; memcpy(&u, &v, sizeof(T)); snprintf(b, 40, "%lx", (unsigned long)u); return b; }
template <class T> static bool probe(const po::value_semantic* s, const char* tn, Reg& r) {
    auto* t = dynamic_cast<const po::typed_value<T>*>(s); if (!t) return false;
    r.type = tn; r.store_to = t->m_store_to; r.composing = t->m_composing; r.multitoken = t->m_multitoken; r.zero_tokens = t->m_zero_tokens; r.has_implicit = !t->m_implicit_value.empty();
    if (!t->m_default_value.empty()) { r.has_default = true; r.dflt = bits_of(boost::any_cast<T>(t->m_default_value)); }
    return true;
}
static Reg describe(const po::value_semantic* s) {
    Reg r; r.type = "other";
    if (probe<float>(s, "f32", r) || probe<double>(s, "f64", r) || probe<int32_t>(s, "i32", r) || probe<uint32_t>(s, "u32", r) || probe<int64_t>(s, "i64", r) || probe<uint64_t>(s, "u64", r) || probe<bool>(s, "b", r)) return r;
    if (probe<unsigned char>(s, "c8", r) || probe<signed char>(s, "c8", r) || probe<char>(s, "c8", r)) return r;      // character types: boost reads one character, not a number
    if (auto* t = dynamic_cast<const po::typed_value<std::string>*>(s)) {
        r.type = "str"; r.store_to = t->m_store_to; r.composing = t->m_composing; r.multitoken = t->m_multitoken; r.zero_tokens = t->m_zero_tokens;
        if (!t->m_default_value.empty()) { r.has_default = true; std::string d = boost::any_cast<std::string>(t->m_default_value); r.dflt = "s"; for (unsigned char c : d) { char b[4]; snprintf(b, 4, "%02x", c); r.dflt += b; } }
        return r;
    }
    if (auto* t = dynamic_cast<const po::typed_value<std::vector<float>>*>(s)) { r.type = "vf32"; r.store_to = t->m_store_to; r.composing = t->m_composing; r.multitoken = t->m_multitoken; r.has_default = !t->m_default_value.empty(); return r; }
    if (dynamic_cast<const po::untyped_value*>(s)) { r.type = "flag"; r.zero_tokens = true; return r; }
    return r;
}
static void publish_group(const char* g, const po::options_description& d) {
    int i = 0;
    for (auto& od : d.options()) {
        Reg r = describe(od->semantic().get()); char nm[160], v[200];
        snprintf(nm, 160, "opt:%s:%d", g, i++);
        snprintf(v, 200, "%s|%s|%lx|%d|%s|%d%d%d%d|%lx", od->long_name().c_str(), r.type.c_str(), (unsigned long)(uintptr_t)r.store_to, r.has_default ? 1 : 0, r.dflt.c_str(), r.composing, r.multitoken, r.zero_tokens, r.has_implicit,
                 (unsigned long)(uintptr_t)od->semantic().get());
        snap_val(nm, v);
    }
}
static bool parse(ProgramOptions& o, std::vector<std::string> a) {
    std::vector<char*> av; for (auto& s : a) av.push_back(const_cast<char*>(s.c_str()));
    return o.parse((int)av.size(), av.data());
}
static std::string var_bits(const Reg& r) {
    if (!r.store_to) return "-";
    if (r.type == "f32" || r.type == "i32" || r.type == "u32") return bits_of(*(const uint32_t*)r.store_to);
    if (r.type == "f64" || r.type == "i64" || r.type == "u64") return bits_of(*(const uint64_t*)r.store_to);
    if (r.type == "b" || r.type == "c8") return bits_of(*(const uint8_t*)r.store_to);
    if (r.type == "str") { std::string s = "s"; for (unsigned char c : *(const std::string*)r.store_to) { char b[4]; snprintf(b, 4, "%02x", c); s += b; } return s; }
    if (r.type == "vf32") { std::string s = "v"; for (float f : *(const std::vector<float>*)r.store_to) s += bits_of(f) + ","; return s; }
    return "-";
}
int main(int argc, char** argv) {
    std::string mode = argc > 1 ? argv[1] : "";
    if (mode == "snap") {
        std::string wd = argv[3];
        { std::ofstream f(wd + "/parent.cfg"); f << "# placeholder: the symbolic run decides what this file contains\n"; }
        auto* o = new ProgramOptions();
        // argv of the symbolic run: program name and "-c <workdir>/parent.cfg" (the config path is the only concrete token; every other option is symbolic in the model)
        auto* a0 = new std::string("inovesa"); auto* a1 = new std::string("-c"); auto* a2 = new std::string(wd + "/parent.cfg");
        char** av = new char*[4]; av[0] = const_cast<char*>(a0->c_str()); av[1] = const_cast<char*>(a1->c_str()); av[2] = const_cast<char*>(a2->c_str()); av[3] = nullptr;
        snap_root("opts", o); snap_root("argv", av); snap_root("cfgpath", a2->c_str());
        snap_root("g_cfgfile", &o->_cfgfileopts); snap_root("g_cmdline", &o->_commandlineopts); snap_root("g_visible", &o->_visibleopts);
        snap_root("vm", &o->_vm); snap_root("vm_map", static_cast<std::map<std::string, po::variable_value>*>(&o->_vm));
        snap_root("m_configfile", &o->_configfile); snap_root("m_outfile", &o->_outfile); snap_root("m_startdistfile", &o->_startdistfile); snap_root("m_cldevice", &o->_cldevice);
        publish_group("cfgfile", o->_cfgfileopts); publish_group("cmdline", o->_commandlineopts); publish_group("visible", o->_visibleopts);
        snap_val("sizeof_opts", std::to_string(sizeof(ProgramOptions)));
        snap_begin(argv[2]); snap_end(); return 0;
    }
    if (mode == "run") {
        // in:  cmd <tok>...   |  cfg <line>... (tokens without blanks, "key=value")  |  workdir <dir>  |  nocfg 1 (no -c)  | missingcfg 1 (-c names a file that does not exist)
        ReplayIn in; if (!in.load(argv[2])) return 2;
        std::string wd = in.kv["workdir"][0]; std::string cfg = wd + "/replay-" + std::to_string(getpid()) + ".cfg";
        std::vector<std::string> a{"inovesa"};
        if (in.i("missingcfg")) { a.push_back("-c"); a.push_back(wd + "/does-not-exist.cfg"); }
        else if (!in.i("nocfg")) { std::ofstream f(cfg); if (in.has("cfg")) for (auto& l : in.kv["cfg"]) f << l << "\n"; a.push_back("-c"); a.push_back(cfg); }
        if (in.has("cmd")) for (auto& t : in.kv["cmd"]) a.push_back(t);
        ProgramOptions o; int ret = -1, threw = 0; std::string what = "-";
        try { ret = parse(o, a) ? 1 : 0; } catch (std::exception& e) { threw = 1; what = e.what(); } catch (...) { threw = 2; }
        FILE* fo = fopen(argv[3], "w");
        fprintf(fo, "ret 1 %d\nthrew 1 %d\n", ret, threw);
        std::map<std::string, Reg> seen;
        for (auto* g : { &o._cfgfileopts, &o._commandlineopts }) for (auto& od : g->options()) seen[od->long_name()] = describe(od->semantic().get());
        FILE* ft = fopen((std::string(argv[3]) + ".txt").c_str(), "w");
        fprintf(ft, "ret %d threw %d what %s\n", ret, threw, what.c_str());
        for (auto& kv : seen) fprintf(ft, "var %s %s %s\n", kv.first.c_str(), kv.second.type.c_str(), var_bits(kv.second).c_str());
        for (auto& kv : static_cast<std::map<std::string, po::variable_value>&>(o._vm)) {
            const boost::any& v = kv.second.value(); std::string b = "-";
            if (v.type() == typeid(float)) b = bits_of(boost::any_cast<float>(v)); else if (v.type() == typeid(double)) b = bits_of(boost::any_cast<double>(v));
            else if (v.type() == typeid(uint32_t)) b = bits_of(boost::any_cast<uint32_t>(v)); else if (v.type() == typeid(int32_t)) b = bits_of(boost::any_cast<int32_t>(v));
            else if (v.type() == typeid(int64_t)) b = bits_of(boost::any_cast<int64_t>(v)); else if (v.type() == typeid(bool)) b = bits_of(boost::any_cast<bool>(v));
            fprintf(ft, "vm %s %d %s\n", kv.first.c_str(), kv.second.defaulted() ? 1 : 0, b.c_str());
        }
        fclose(ft); fclose(fo); unlink(cfg.c_str());
        return 0;
    }
    return 2;
}
