// Harness for the source maps (KickMap, RFKickMap, DriftMap, FokkerPlanckMap, Identity): public API only,
// plus derived classes that re-export protected members.  Modes:
//   snap <prefix> n nb it seed qmin qmax pmin pmax fptype fptrack dt     -> memory snapshot + validation script
//   run  <infile> <outfile>                                               -> native replay of a counterexample
#include "snap.hpp"
#include "defines.hpp"
#include "PS/PhaseSpace.hpp"
#include "SM/KickMap.hpp"
#include "SM/RFKickMap.hpp"
#include "SM/DriftMap.hpp"
#include "SM/FokkerPlanckMap.hpp"
#include "SM/Identity.hpp"
#include "SM/DynamicRFKickMap.hpp"
#include <random>
using namespace vfps;
typedef std::shared_ptr<PhaseSpace> psp;

struct KickX : KickMap { using KickMap::_offset; using SourceMap::calcCoefficiants; using KickMap::updateSM; };
struct RFX : RFKickMap { using RFKickMap::_calcKick; };

extern "C" {
__attribute__((noinline)) void e_km_swap_apply(KickMap* km, std::vector<meshaxis_t>* off) { km->swapOffset(*off); km->apply(); }
__attribute__((noinline)) void* e_hinfo(SourceMap* m) { return m->_hinfo; }
__attribute__((noinline)) void e_km_swap(KickMap* km, std::vector<meshaxis_t>* off) { km->swapOffset(*off); }
__attribute__((noinline)) void e_apply(SourceMap* m) { m->apply(); }
__attribute__((noinline)) void e_applyTo(SourceMap* m, PhaseSpace::Position* p) { m->applyTo(*p); }
__attribute__((noinline)) void e_coeff(interpol_t* ic, interpol_t f, unsigned it) { KickX::calcCoefficiants(ic, f, it); }
__attribute__((noinline)) const meshaxis_t* e_force(KickMap* km) { return km->getForce(); }
__attribute__((noinline)) RFKickMap* e_new_rf_lin(psp* in, psp* out, meshaxis_t angle, frequency_t fRF, unsigned it)
  { return new RFKickMap(*in, *out, angle, fRF, static_cast<SourceMap::InterpolationType>(it), false, nullptr); }
__attribute__((noinline)) RFKickMap* e_new_rf_sin(psp* in, psp* out, timeaxis_t revpart, meshaxis_t V, frequency_t fRF, meshaxis_t V0, unsigned it)
  { return new RFKickMap(*in, *out, revpart, V, fRF, V0, static_cast<SourceMap::InterpolationType>(it), false, nullptr); }
__attribute__((noinline)) void e_rf_calckick(RFKickMap* m, meshaxis_t phase, meshaxis_t ampl) { static_cast<RFX*>(m)->_calcKick(phase, ampl); }
__attribute__((noinline)) DriftMap* e_new_drift(psp* in, psp* out, std::vector<meshaxis_t>* slip, meshaxis_t E0, unsigned it)
  { return new DriftMap(*in, *out, *slip, E0, static_cast<SourceMap::InterpolationType>(it), false, nullptr); }
__attribute__((noinline)) FokkerPlanckMap* e_new_fp(psp* in, psp* out, unsigned fptype, unsigned fptrack, timeaxis_t e1, unsigned dt)
  { return new FokkerPlanckMap(*in, *out, PhaseSpace::nx, PhaseSpace::ny, static_cast<FokkerPlanckMap::FPType>(fptype),
                               static_cast<FokkerPlanckMap::FPTracking>(fptrack), e1, static_cast<FokkerPlanckMap::DerivationType>(dt), nullptr); }
__attribute__((noinline)) DynamicRFKickMap* e_new_drf_lin(psp* in, psp* out, meshaxis_t angle, double revpart, double fRF, meshaxis_t phasespread, meshaxis_t amplspread, meshaxis_t modampl, double modtimeinc, uint32_t steps, unsigned it)
  { return new DynamicRFKickMap(*in, *out, PhaseSpace::nx, PhaseSpace::ny, angle, revpart, fRF, phasespread, amplspread, modampl, modtimeinc, steps, static_cast<SourceMap::InterpolationType>(it), false, nullptr); }
__attribute__((noinline)) DynamicRFKickMap* e_new_drf_sin(psp* in, psp* out, double revpart, double V, double fRF, double V0, meshaxis_t phasespread, meshaxis_t amplspread, meshaxis_t modampl, double modtimeinc, uint32_t steps, unsigned it)
  { return new DynamicRFKickMap(*in, *out, PhaseSpace::nx, PhaseSpace::ny, revpart, V, fRF, V0, phasespread, amplspread, modampl, modtimeinc, steps, static_cast<SourceMap::InterpolationType>(it), false, nullptr); }
__attribute__((noinline)) std::vector<std::array<meshaxis_t,2>>* e_drf_past(DynamicRFKickMap* m) { return new std::vector<std::array<meshaxis_t,2>>(m->getPastModulation()); }
__attribute__((noinline)) const meshaxis_t* e_vecdata(std::vector<std::array<meshaxis_t,2>>* v) { return v->data()->data(); }
__attribute__((noinline)) size_t e_vecsize(std::vector<std::array<meshaxis_t,2>>* v) { return v->size(); }
__attribute__((noinline)) std::queue<std::array<meshaxis_t,2>>* e_drf_calcmod(DynamicRFKickMap* m, uint32_t steps) { return new std::queue<std::array<meshaxis_t,2>>(m->__calcModulation(steps)); }
__attribute__((noinline)) const meshaxis_t* e_queue_front(std::queue<std::array<meshaxis_t,2>>* q) { return q->front().data(); }
__attribute__((noinline)) size_t e_queue_size(std::queue<std::array<meshaxis_t,2>>* q) { return q->size(); }
__attribute__((noinline)) size_t e_drf_nnext(DynamicRFKickMap* m) { return m->_next_modulation.size(); }
__attribute__((noinline)) size_t e_drf_npast(DynamicRFKickMap* m) { return m->_past_modulation.size(); }
__attribute__((noinline)) const meshaxis_t* e_drf_front(DynamicRFKickMap* m) { return m->_next_modulation.front().data(); }
__attribute__((noinline)) const meshaxis_t* e_drf_pastdata(DynamicRFKickMap* m) { return m->_past_modulation.data()->data(); }
__attribute__((noinline)) Identity* e_new_identity(psp* in, psp* out) { return new Identity(*in, *out, nullptr); }
}

struct Cfg { int n, nb, it, seed; float qmin, qmax, pmin, pmax; int fptype, fptrack, dt; float e1, angle; };

struct World {
    std::vector<meshdata_t>* d; psp* in; psp* out; KickMap* kmx; KickMap* kmy; std::vector<meshaxis_t>* offx; std::vector<meshaxis_t>* offy;
    DynamicRFKickMap* drflin; DynamicRFKickMap* drfsin; RFKickMap* rflin; RFKickMap* rfsin; DriftMap* drift; FokkerPlanckMap* fpm; Identity* idm; std::vector<meshaxis_t>* slip;
    PhaseSpace::Position* pos; interpol_t* ic;
};
static World build(const Cfg& c, bool withmaps = true) {
    World w{};
    PhaseSpace::resetSize(c.n, c.nb);
    std::vector<integral_t> fill(c.nb, 1.0f / c.nb);
    std::mt19937 g(c.seed); std::uniform_real_distribution<float> u(0, 1);
    w.d = new std::vector<meshdata_t>(c.nb * c.n * c.n); for (auto& v : *w.d) v = u(g);
    w.in = new psp(new PhaseSpace(c.qmin, c.qmax, 2e-3, c.pmin, c.pmax, 4e5, nullptr, 1, 1, fill, 1, w.d->data()));
    w.out = new psp(new PhaseSpace(c.qmin, c.qmax, 2e-3, c.pmin, c.pmax, 4e5, nullptr, 1, 1, fill, 1));
    auto it = static_cast<SourceMap::InterpolationType>(c.it);
    w.offx = new std::vector<meshaxis_t>(c.nb * c.n); for (auto& v : *w.offx) v = 3 * (u(g) - 0.5f);
    w.offy = new std::vector<meshaxis_t>(c.nb * c.n); for (auto& v : *w.offy) v = 3 * (u(g) - 0.5f);
    w.pos = new PhaseSpace::Position{c.n * 0.4f, c.n * 0.6f};
    w.ic = new interpol_t[4]();
    w.slip = new std::vector<meshaxis_t>{0.11f, 0.013f, 0.0017f};
    if (!withmaps) return w;
    w.kmx = new KickMap(*w.in, *w.out, it, false, KickMap::Axis::x, nullptr);
    w.kmy = new KickMap(*w.in, *w.out, it, false, KickMap::Axis::y, nullptr);
    w.rflin = e_new_rf_lin(w.in, w.out, c.angle, 4.99e8f, c.it);
    w.rfsin = e_new_rf_sin(w.in, w.out, 1e-3f, 1.4e6f, 4.99e8f, 4.5e4f, c.it);
    w.drift = e_new_drift(w.in, w.out, w.slip, 1.3e9f, c.it);
    w.fpm = e_new_fp(w.in, w.out, c.fptype, c.fptrack, c.e1, c.dt);
    w.idm = e_new_identity(w.in, w.out);
    w.drflin = e_new_drf_lin(w.in, w.out, c.angle, 1e-3, 4.99e8, 0.f, 0.f, 0.f, 1e-2, 3, c.it);
    w.drfsin = e_new_drf_sin(w.in, w.out, 1e-3, 1.4e6, 4.99e8, 4.5e4, 2e-3f, 1e-3f, 0.05f, 1e-2, 3, c.it);
    return w;
}

static void dumpf(FILE* f, const char* name, const float* p, size_t n) { fprintf(f, "%s %zu", name, n); for (size_t i = 0; i < n; i++) fprintf(f, " %.9g", p[i]); fprintf(f, "\n"); }

int main(int argc, char** argv) {
    std::string mode = argc > 1 ? argv[1] : "";
    if (mode == "snap") {
        Cfg c{atoi(argv[3]), atoi(argv[4]), atoi(argv[5]), atoi(argv[6]), (float)atof(argv[7]), (float)atof(argv[8]), (float)atof(argv[9]), (float)atof(argv[10]),
              atoi(argv[11]), atoi(argv[12]), atoi(argv[13]), 0.01f, 0.1f};
        World w = build(c);
        size_t N = (size_t)c.nb * c.n * c.n;
        snap_root("in", w.in); snap_root("out", w.out); snap_root("kmx", w.kmx); snap_root("kmy", w.kmy); snap_root("offx", w.offx); snap_root("offy", w.offy);
        snap_root("offx_data", w.offx->data()); snap_root("offy_data", w.offy->data());
        snap_root("rflin", w.rflin); snap_root("rfsin", w.rfsin); snap_root("drift", w.drift); snap_root("fpm", w.fpm); snap_root("idm", w.idm);
        snap_root("drflin", w.drflin); snap_root("drfsin", w.drfsin);
        { RFX* r = static_cast<RFX*>(static_cast<RFKickMap*>(w.drflin));
          snap_val("off_linear", std::to_string((char*)&r->_linear - (char*)r)); snap_val("off_angle", std::to_string((char*)&r->_angle - (char*)r)); snap_val("off_revpart", std::to_string((char*)&r->_revolutionpart - (char*)r));
          snap_val("off_VRF", std::to_string((char*)&r->_V_RF - (char*)r)); snap_val("off_fRF", std::to_string((char*)&r->_f_RF - (char*)r)); snap_val("off_V0", std::to_string((char*)&r->_V0 - (char*)r));
          snap_val("off_syncphase", std::to_string((char*)&r->_syncphase - (char*)r)); snap_val("off_bl2phase", std::to_string((char*)&r->_bl2phase - (char*)r));
          snap_val("off_lastbunch", std::to_string((char*)&r->_lastbunch - (char*)r));
          DynamicRFKickMap* d = w.drflin;
          snap_val("off_phasenoise", std::to_string((char*)&d->_phasenoise - (char*)d)); snap_val("off_amplnoise", std::to_string((char*)&d->_amplnoise - (char*)d)); snap_val("off_modampl", std::to_string((char*)&d->_modampl - (char*)d));
          snap_val("off_modtimedelta", std::to_string((char*)&d->_modtimedelta - (char*)d)); snap_val("sizeof_rf", std::to_string(sizeof(RFKickMap))); snap_val("sizeof_drf", std::to_string(sizeof(DynamicRFKickMap))); }
        { PhaseSpace* pi = w.in->get(); snap_root("proj_in", pi->_projection.data()); snap_root("filling_in", pi->_filling.data()); snap_root("integral_in", &pi->_integral); snap_root("moment_in", pi->_moment.data()); snap_root("rms_in", pi->_rms.data());
          snap_val("sz_moment_in", std::to_string(pi->_moment.num_elements())); snap_val("sz_rms_in", std::to_string(pi->_rms.num_elements())); }
        snap_root("data_in", (*w.in)->getData()); snap_root("data_out", (*w.out)->getData()); snap_root("pos", w.pos); snap_root("ic", w.ic); snap_root("slip", w.slip);
        snap_root("slip_data", w.slip->data());
        snap_root("axis0", (*w.in)->getAxis(0).get()); snap_root("axis1", (*w.in)->getAxis(1).get());
        snap_root("axis0_data", (*w.in)->getAxis(0)->data()); snap_root("axis1_data", (*w.in)->getAxis(1)->data());
        snap_root("rflin_force", w.rflin->getForce()); snap_root("rfsin_force", w.rfsin->getForce()); snap_root("drift_force", w.drift->getForce());
        snap_begin(argv[2]);
        // ---- validation script (native results the IR interpreter must reproduce bit for bit)
        for (int itt = 1; itt <= 4; itt++) { e_coeff(w.ic, 0.3f + 0.1f * itt, itt); snap_step("e_coeff", {A_p(w.ic), A_f(0.3f + 0.1f * itt), A_i(itt)}); snap_expect("coeff", w.ic, 16); }
        e_km_swap_apply(w.kmx, w.offx); snap_step("e_km_swap_apply", {A_p(w.kmx), A_p(w.offx)}); snap_expect("kmx_out", (*w.out)->getData(), 4 * N);
        e_km_swap_apply(w.kmy, w.offy); snap_step("e_km_swap_apply", {A_p(w.kmy), A_p(w.offy)}); snap_expect("kmy_out", (*w.out)->getData(), 4 * N);
        e_apply(w.rflin); snap_step("e_apply", {A_p(w.rflin)}); snap_expect("rflin_out", (*w.out)->getData(), 4 * N);
        e_apply(w.rfsin); snap_step("e_apply", {A_p(w.rfsin)}); snap_expect("rfsin_out", (*w.out)->getData(), 4 * N);
        e_apply(w.drift); snap_step("e_apply", {A_p(w.drift)}); snap_expect("drift_out", (*w.out)->getData(), 4 * N);
        e_apply(w.fpm); snap_step("e_apply", {A_p(w.fpm)}); snap_expect("fpm_out", (*w.out)->getData(), 4 * N);
        e_apply(w.idm); snap_step("e_apply", {A_p(w.idm)}); snap_expect("idm_out", (*w.out)->getData(), 4 * N);
        e_applyTo(w.kmx, w.pos); snap_step("e_applyTo", {A_p(w.kmx), A_p(w.pos)}); snap_expect("pos1", w.pos, 8);
        e_applyTo(w.kmy, w.pos); snap_step("e_applyTo", {A_p(w.kmy), A_p(w.pos)}); snap_expect("pos2", w.pos, 8);
        if (c.fptrack != 3) { e_applyTo(w.fpm, w.pos); snap_step("e_applyTo", {A_p(w.fpm), A_p(w.pos)}); snap_expect("pos3", w.pos, 8); }
        { RFKickMap* r = e_new_rf_lin(w.in, w.out, 0.07f, 5e8f, c.it); snap_step("e_new_rf_lin", {A_p(w.in), A_p(w.out), A_f(0.07f), A_f(5e8f), A_i(c.it)});
          snap_step("e_force", {"ret"}); snap_expect("rf_force", r->getForce(), 4 * c.nb * c.n, true, 0); }
        { RFKickMap* r = e_new_rf_sin(w.in, w.out, 2e-3f, 1.2e6f, 5e8f, 3e4f, c.it); snap_step("e_new_rf_sin", {A_p(w.in), A_p(w.out), A_f(2e-3f), A_f(1.2e6f), A_f(5e8f), A_f(3e4f), A_i(c.it)});
          snap_step("e_force", {"ret"}); snap_expect("rfs_force", r->getForce(), 4 * c.nb * c.n, true, 0); }
        { DriftMap* r = e_new_drift(w.in, w.out, w.slip, 2.5e9f, c.it); snap_step("e_new_drift", {A_p(w.in), A_p(w.out), A_p(w.slip), A_f(2.5e9f), A_i(c.it)});
          snap_step("e_force", {"ret"}); snap_expect("drift_force", r->getForce(), 4 * c.nb * c.n, true, 0); }
        e_apply(w.drfsin); snap_step("e_apply", {A_p(w.drfsin)}); snap_expect("drfsin_out", (*w.out)->getData(), 4 * N);
        { auto* v = e_drf_past(w.drfsin); snap_step("e_drf_past", {A_p(w.drfsin)}); snap_step("e_vecdata", {"ret"}); snap_expect("drf_past", v->data(), 8 * v->size(), true, 0); }
        for (int ft = 0; ft < 4; ft++) for (int dt = 3; dt <= 4; dt++) {
            FokkerPlanckMap* r = e_new_fp(w.in, w.out, ft, 1, 0.02f, dt); snap_step("e_new_fp", {A_p(w.in), A_p(w.out), A_i(ft), A_i(1), A_f(0.02f), A_i(dt)});
            e_apply(r); snap_step("e_apply", {"ret"}); snap_expect("fp_out", (*w.out)->getData(), 4 * N); }
        snap_end();
        return 0;
    }
    if (mode == "run") {
        ReplayIn in; if (!in.load(argv[2])) { fprintf(stderr, "cannot read %s\n", argv[2]); return 2; }
        Cfg c{(int)in.i("n"), (int)in.i("nb"), (int)in.i("it"), (int)in.i("seed"), (float)in.d("qmin", 0, -6), (float)in.d("qmax", 0, 6), (float)in.d("pmin", 0, -6), (float)in.d("pmax", 0, 6),
              (int)in.i("fptype", 0, 3), (int)in.i("fptrack", 0, 1), (int)in.i("dt", 0, 3), (float)in.d("e1", 0, 0.01), (float)in.d("angle", 0, 0.1)};
        // the world (which contains maps of every kind, as the snapshot process does) is built with the harness' standard parameters; the map under test below gets the replayed ones:
        // whatever an earlier map of the same process leaves behind (function-local statics, caches) is then present natively as it is in the snapshot
        Cfg cw = c; cw.angle = 0.1f;
        World w = build(cw, true);
        size_t N = (size_t)c.nb * c.n * c.n;
        if (in.has("data")) { auto v = in.fv("data"); for (size_t i = 0; i < v.size() && i < N; i++) (*w.in)->getData()[i] = v[i]; }
        if (in.has("out_fill")) { float v = (float)in.d("out_fill"); for (size_t i = 0; i < N; i++) (*w.out)->getData()[i] = v; }      // what the target grid holds before the step
        FILE* fo = fopen(argv[3], "w");
        std::string what = in.kv["what"].empty() ? "" : in.kv["what"][0];
        auto it = static_cast<SourceMap::InterpolationType>(c.it);
        SourceMap* m = nullptr;
        if (what == "kick") {
            KickMap* km = new KickMap(*w.in, *w.out, it, false, in.i("axis") ? KickMap::Axis::y : KickMap::Axis::x, nullptr);
            if (in.has("pre_off")) { auto pre = in.fv("pre_off"); pre.resize((size_t)c.nb * c.n); km->swapOffset(pre); km->apply(); }      // an earlier kick with other offsets on the same map (history)
            auto off = in.fv("off"); off.resize((size_t)c.nb * c.n); km->swapOffset(off); m = km;
            dumpf(fo, "force", km->getForce(), (size_t)c.nb * c.n);
        } else if (what == "rflin") { auto r = e_new_rf_lin(w.in, w.out, c.angle, (float)in.d("fRF", 0, 5e8), c.it); m = r; dumpf(fo, "force", r->getForce(), (size_t)c.nb * c.n);
        } else if (what == "rfsin") { auto r = e_new_rf_sin(w.in, w.out, (float)in.d("revpart", 0, 1e-3), (float)in.d("V", 0, 1e6), (float)in.d("fRF", 0, 5e8), (float)in.d("V0", 0, 1e4), c.it); m = r; dumpf(fo, "force", r->getForce(), (size_t)c.nb * c.n);
        } else if (what == "drflin") { auto r = e_new_drf_lin(w.in, w.out, c.angle, 1e-3, (float)in.d("fRF", 0, 5e8), 0.f, 0.f, 0.f, 0.01, 3, c.it); m = r; dumpf(fo, "force", r->getForce(), (size_t)c.nb * c.n);
        } else if (what == "drfsin") { auto r = e_new_drf_sin(w.in, w.out, (float)in.d("revpart", 0, 1e-3), (float)in.d("V", 0, 1e6), (float)in.d("fRF", 0, 5e8), (float)in.d("V0", 0, 1e4), 0.f, 0.f, 0.f, 0.01, 3, c.it); m = r; dumpf(fo, "force", r->getForce(), (size_t)c.nb * c.n);
        } else if (what == "drift") { auto sl = in.fv("slip"); auto r = e_new_drift(w.in, w.out, &sl, (float)in.d("E0", 0, 1e9), c.it); m = r; dumpf(fo, "force", r->getForce(), (size_t)c.nb * c.n);
        } else if (what == "fp") { m = e_new_fp(w.in, w.out, c.fptype, c.fptrack, c.e1, c.dt);
        } else if (what == "identity") { m = e_new_identity(w.in, w.out);
        } else { fprintf(stderr, "unknown what=%s\n", what.c_str()); return 2; }
        if (in.has("set_off")) {      // a counterexample's displacement field put into a constructor-made kick-type map (the public swapOffset rebuilds the table as _calcKick does)
            auto off = in.fv("set_off"); off.resize((size_t)c.nb * c.n); static_cast<KickMap*>(m)->swapOffset(off); }
        if (in.has("pre_apply")) {      // an earlier step of this process by one of the world's own maps (history across map kinds)
            std::string pa = in.kv["pre_apply"][0];
            if (pa == "kmy") e_km_swap_apply(w.kmy, w.offy); else if (pa == "kmx") e_km_swap_apply(w.kmx, w.offx);
            else if (pa == "rflin") w.rflin->apply(); else if (pa == "rfsin") w.rfsin->apply(); else if (pa == "drift") w.drift->apply(); else if (pa == "fpm") w.fpm->apply(); else if (pa == "idm") w.idm->apply();
        }
        dumpf(fo, "in", (*w.in)->getData(), N);
        m->apply();
        dumpf(fo, "out", (*w.out)->getData(), N);
        if (in.has("pos")) { auto p = in.fv("pos"); for (size_t i = 0; i + 1 < p.size(); i += 2) { PhaseSpace::Position q{p[i], p[i+1]};
            if (what == "fp" && c.fptrack == 3) { auto fpm = static_cast<FokkerPlanckMap*>(m); auto g = fpm->_prng; auto d = fpm->_normdist; float nz[2] = {d(g), fpm->_dampdecr}; dumpf(fo, "noise", nz, 2); }   // the draw the next applyTo will make (copies of generator and distribution)
            m->applyTo(q); float r[2] = {q.x, q.y}; dumpf(fo, "posout", r, 2); } }
        fclose(fo);
        return 0;
    }
    fprintf(stderr, "usage: harness snap|run ...\n"); return 2;
}
