// Native snapshot support for the verification harnesses.
//  * interposes malloc & friends with a bump allocator in a static arena, so every heap object lives at a
//    deterministic address inside the (non-PIE) executable's own mappings;
//  * snap_begin() dumps those mappings + the allocation table + named roots;
//  * snap_step()/snap_expect() record a "validation script": entry calls made natively after the dump and
//    the bytes they produced, which the IR interpreter must reproduce bit for bit (translator validation).
#pragma once
#include <cstddef>
#include <cstdint>
#include <cstdio>
#include <cstdlib>
#include <cstring>
#include <string>
#include <vector>
#include <map>
#include <unistd.h>
extern "C" {
static const size_t SNAP_ARENA = 96u<<20;
static char snap_arena[SNAP_ARENA] __attribute__((aligned(4096)));
static size_t snap_cur = 0;
struct snap_alloc_rec { uint64_t addr, size; };
static snap_alloc_rec snap_allocs[1<<18]; static size_t snap_nalloc = 0;
static void* snap_get(size_t al, size_t n) {
    if (al < 16) al = 16;
    size_t p = (snap_cur + 16 + al - 1) / al * al;   // keep a 16 byte header before
    if (p + n + 16 > SNAP_ARENA) { static const char m[] = "snap arena exhausted\n"; if (write(2, m, sizeof m - 1)) {} _exit(3); }
    *(uint64_t*)(snap_arena + p - 8) = n;
    snap_cur = p + n;
    if (snap_nalloc < (1<<18)) snap_allocs[snap_nalloc++] = { (uint64_t)(uintptr_t)(snap_arena + p), n };
    return snap_arena + p;
}
void* malloc(size_t n) { return snap_get(16, n ? n : 1); }
void free(void*) {}
void* calloc(size_t a, size_t b) { void* p = snap_get(16, a*b ? a*b : 1); memset(p, 0, a*b); return p; }
void* realloc(void* o, size_t n) { void* p = snap_get(16, n ? n : 1); if (o) { size_t on = *(uint64_t*)((char*)o - 8); memcpy(p, o, on < n ? on : n); } return p; }
void* memalign(size_t al, size_t n) { return snap_get(al, n); }
void* aligned_alloc(size_t al, size_t n) { return snap_get(al, n); }
int posix_memalign(void** r, size_t al, size_t n) { *r = snap_get(al, n); return 0; }
}
static std::vector<std::pair<std::string,uint64_t>> snap_roots;
static std::vector<std::pair<std::string,std::string>> snap_vals;
static FILE* snap_fm = nullptr; static FILE* snap_fo = nullptr; static long snap_outoff = 0;
static inline void snap_root(const char* name, const void* p) { snap_roots.emplace_back(name, (uint64_t)(uintptr_t)p); }
static inline void snap_val(const char* name, const std::string& v) { snap_vals.emplace_back(name, v); }
static inline void snap_begin(const char* prefix) {
    std::string meta = std::string(prefix) + ".meta", bin = std::string(prefix) + ".bin", out = std::string(prefix) + ".out";
    FILE* fm = fopen(meta.c_str(), "w"); FILE* fb = fopen(bin.c_str(), "wb"); snap_fo = fopen(out.c_str(), "wb");
    FILE* maps = fopen("/proc/self/maps", "r"); char line[512]; char exe[256]; ssize_t k = readlink("/proc/self/exe", exe, 255); exe[k>0?k:0]=0;
    uint64_t a0 = (uint64_t)(uintptr_t)snap_arena, a1 = a0 + SNAP_ARENA, used = a0 + snap_cur;
    uint64_t last_exe_end = 0; long off = 0;
    while (fgets(line, sizeof line, maps)) {
        unsigned long s, e; char perm[8]; char path[300] = "";
        sscanf(line, "%lx-%lx %7s %*s %*s %*s %299s", &s, &e, perm, path);
        bool isexe = !strcmp(path, exe);
        bool anon_after = (path[0] == 0 && s == last_exe_end) || !strcmp(path,"[heap]");
        if (isexe) last_exe_end = e;
        if (!(isexe || anon_after) || perm[0] != 'r') continue;
        if (anon_after) last_exe_end = e;
        uint64_t cs = s, ce = e;
        std::vector<std::pair<uint64_t,uint64_t>> parts;
        if (ce <= a0 || cs >= a1) parts.push_back({cs,ce});
        else { if (cs < a0) parts.push_back({cs,a0}); uint64_t us = cs > a0 ? cs : a0; uint64_t ue = ce < used ? ce : used; if (us < ue) parts.push_back({us, (ue + 4095) & ~4095ull}); if (ce > a1) parts.push_back({a1,ce}); }
        for (auto& p : parts) { fprintf(fm, "region %lx %lx %ld\n", (unsigned long)p.first, (unsigned long)(p.second - p.first), off); fwrite((void*)(uintptr_t)p.first, 1, p.second - p.first, fb); off += p.second - p.first; }
    }
    fclose(maps);
    fprintf(fm, "arena %lx %lx\n", (unsigned long)a0, (unsigned long)(used - a0));
    for (size_t i = 0; i < snap_nalloc; i++) fprintf(fm, "alloc %lx %lx\n", (unsigned long)snap_allocs[i].addr, (unsigned long)snap_allocs[i].size);
    for (auto& r : snap_roots) fprintf(fm, "root %s %lx\n", r.first.c_str(), (unsigned long)r.second);
    for (auto& r : snap_vals) fprintf(fm, "val %s %s\n", r.first.c_str(), r.second.c_str());
    fclose(fb); snap_fm = fm; fflush(fm);
}
// argument encodings for the validation script
static inline std::string A_p(const void* p) { char b[40]; snprintf(b, 40, "p:%lx", (unsigned long)(uintptr_t)p); return b; }
static inline std::string A_i(long long v) { char b[40]; snprintf(b, 40, "i:%lld", v); return b; }
static inline std::string A_f(float f) { uint32_t u; memcpy(&u, &f, 4); char b[40]; snprintf(b, 40, "f:%x", u); return b; }
static inline std::string A_d(double f) { uint64_t u; memcpy(&u, &f, 8); char b[40]; snprintf(b, 40, "d:%lx", (unsigned long)u); return b; }
static inline void snap_step(const char* entry, std::vector<std::string> args) {
    fprintf(snap_fm, "step %s", entry); for (auto& a : args) fprintf(snap_fm, " %s", a.c_str()); fprintf(snap_fm, "\n");
}
// record that after the steps so far, memory [p, p+n) holds these bytes ("@ret" = pointer returned by the last step)
static inline void snap_expect(const char* name, const void* p, size_t n, bool via_ret = false, long retoff = 0) {
    fprintf(snap_fm, "expect %s %s %lx %ld %ld\n", name, via_ret ? "ret" : "abs", via_ret ? (unsigned long)retoff : (unsigned long)(uintptr_t)p, (long)n, snap_outoff);
    fwrite(p, 1, n, snap_fo); snap_outoff += n;
}
static inline void snap_end() { fclose(snap_fm); fclose(snap_fo); }

// ---- tiny reader for native replay inputs:  lines "name count v v v ..." (floats as hex bit patterns, ints decimal)
struct ReplayIn {
    std::map<std::string, std::vector<std::string>> kv;
    bool load(const char* path) {
        FILE* f = fopen(path, "r"); if (!f) return false;
        char* line = nullptr; size_t cap = 0;
        while (getline(&line, &cap, f) > 0) {
            char* tok = strtok(line, " \t\n"); if (!tok) continue; std::string name = tok;
            std::vector<std::string> v; while ((tok = strtok(nullptr, " \t\n"))) v.push_back(tok);
            kv[name] = v;
        }
        fclose(f); return true;
    }
    bool has(const std::string& n) const { return kv.count(n) > 0; }
    long long i(const std::string& n, size_t k = 0, long long dflt = 0) const { auto it = kv.find(n); if (it == kv.end() || it->second.size() <= k) return dflt; return atoll(it->second[k].c_str()); }
    double d(const std::string& n, size_t k = 0, double dflt = 0) const { auto it = kv.find(n); if (it == kv.end() || it->second.size() <= k) return dflt; return atof(it->second[k].c_str()); }
    std::vector<float> fv(const std::string& n) const { std::vector<float> r; auto it = kv.find(n); if (it == kv.end()) return r; for (auto& s : it->second) r.push_back((float)atof(s.c_str())); return r; }
};
