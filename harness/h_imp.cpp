// Harness for the impedance models and the factory.
//   snap <prefix> n        (n = number of samples; objects are only placeholders - the models are run from IR)
//   run <in> <out>
#include "snap.hpp"
#include "defines.hpp"
#include "Z/Impedance.hpp"
#include "Z/FreeSpaceCSR.hpp"
#include "Z/ParallelPlatesCSR.hpp"
#include "Z/ResistiveWall.hpp"
#include "Z/CollimatorImpedance.hpp"
#include "Z/ConstImpedance.hpp"
#include "Z/ImpedanceFactory.hpp"
using namespace vfps;
typedef std::vector<impedance_t> zvec;
extern "C" {
__attribute__((noinline)) zvec* e_freespace(size_t n, frequency_t f_rev, frequency_t f_max) { return new zvec(FreeSpaceCSR::__calcImpedance(n, f_rev, f_max)); }
__attribute__((noinline)) zvec* e_reswall(size_t n, frequency_t f0, frequency_t f_max, double L, double s, double xi, double b) { return new zvec(ResistiveWall::__calcImpedance(n, f0, f_max, L, s, xi, b)); }
__attribute__((noinline)) zvec* e_parplates(size_t n, frequency_t f0, frequency_t f_max, double g) { return new zvec(ParallelPlatesCSR::__calcImpedance(n, f0, f_max, g)); }
__attribute__((noinline)) zvec* e_const(size_t n, csrpower_t zr, csrpower_t zi) { return new zvec(ConstImpedance::__calcImpedance(n, impedance_t(zr, zi))); }
__attribute__((noinline)) Impedance* e_collimator(size_t n, frequency_t f_max, double outer, double inner) { return new CollimatorImpedance(n, f_max, outer, inner); }
__attribute__((noinline)) Impedance* e_make(size_t n, frequency_t fmax, double R_bend, double frev, double gap, bool use_csr, double s, double xi, double coll, std::string* file)
  { return makeImpedance(n, nullptr, fmax, R_bend, frev, gap, use_csr, s, xi, coll, *file).release(); }
__attribute__((noinline)) void e_add(Impedance* a, Impedance* b) { *a += *b; }
__attribute__((noinline)) Impedance* e_new_imp(zvec* v, frequency_t fmax) { return new Impedance(*v, fmax); }
__attribute__((noinline)) const impedance_t* e_vdata(zvec* v) { return v->data(); }
__attribute__((noinline)) size_t e_vsize(zvec* v) { return v->size(); }
__attribute__((noinline)) const impedance_t* e_idata(Impedance* z) { return z->data(); }
__attribute__((noinline)) size_t e_isize(Impedance* z) { return z->size(); }
__attribute__((noinline)) size_t e_infreqs(Impedance* z) { return z->nFreqs(); }
}
static void dumpz(FILE* f, const char* name, const impedance_t* p, size_t n) { fprintf(f, "%s %zu", name, 2 * n); for (size_t i = 0; i < n; i++) fprintf(f, " %.9g %.9g", p[i].real(), p[i].imag()); fprintf(f, "\n"); }
int main(int argc, char** argv) {
    std::string mode = argc > 1 ? argv[1] : "";
    if (mode == "snap") {
        size_t n = atoi(argv[3]);
        auto* empty = new std::string(""); auto* v = e_freespace(n, 2.7e6f, 1e12f);
        auto* fname = new std::string("impedance-table.dat");
        snap_root("empty", empty); snap_root("v", v); snap_root("fname", fname);
        snap_begin(argv[2]);
        { auto* r = e_freespace(n, 2.7e6f, 1e12f); snap_step("e_freespace", {A_i(n), A_f(2.7e6f), A_f(1e12f)}); snap_step("e_vdata", {"ret"}); snap_expect("fs", r->data(), 8 * r->size(), true, 0); }
        { auto* r = e_reswall(n, 2.7e6f, 1e12f, 110.4, 3.5e7, 0.0, 0.016); snap_step("e_reswall", {A_i(n), A_f(2.7e6f), A_f(1e12f), A_d(110.4), A_d(3.5e7), A_d(0.0), A_d(0.016)}); snap_step("e_vdata", {"ret"}); snap_expect("rw", r->data(), 8 * r->size(), true, 0); }
        { auto* r = e_const(n, 3.5f, -1.25f); snap_step("e_const", {A_i(n), A_f(3.5f), A_f(-1.25f)}); snap_step("e_vdata", {"ret"}); snap_expect("cz", r->data(), 8 * r->size(), true, 0); }
        { auto* r = e_collimator(n, 1e12f, 0.016, 0.004); snap_step("e_collimator", {A_i(n), A_f(1e12f), A_d(0.016), A_d(0.004)}); snap_step("e_idata", {"ret"}); snap_expect("coll", r->data(), 8 * r->size(), true, 0); }
        { auto* r = e_make(n, 1e12f, 5.559, 2.7e6, -0.032, true, 3.5e7, 0.0, 0.004, empty); snap_step("e_make", {A_i(n), A_f(1e12f), A_d(5.559), A_d(2.7e6), A_d(-0.032), A_i(1), A_d(3.5e7), A_d(0.0), A_d(0.004), A_p(empty)}); snap_step("e_idata", {"ret"}); snap_expect("make", r->data(), 8 * r->size(), true, 0); }
        snap_end(); return 0;
    }
    if (mode == "run") {
        ReplayIn in; if (!in.load(argv[2])) return 2;
        size_t n = in.i("n"); FILE* fo = fopen(argv[3], "w"); std::string none("");
        if (in.has("table")) {          // a table file with the given samples (re im re im ...)
            none = std::string(argv[3]) + ".table"; FILE* ft = fopen(none.c_str(), "w"); auto t = in.fv("table");
            for (size_t i = 0; i + 1 < t.size(); i += 2) fprintf(ft, "%zu %.9g %.9g\n", i / 2, t[i], t[i + 1]);
            fclose(ft);
        }
        if (in.i("pp_direct")) {       // the parallel-plates model itself (not through the factory, whose sum clips to the requested length), optionally after an earlier request
            float f0 = (float)(2.99792458e8 / (6.283185307179586 * in.d("R_bend")));
            if (in.has("first_n")) e_parplates((size_t)in.i("first_n"), f0, (float)in.d("fmax"), in.d("gap"));
            auto* v = e_parplates(n, f0, (float)in.d("fmax"), in.d("gap")); dumpz(fo, "pp", v->data(), v->size()); fclose(fo); return 0; }
        if (in.has("first_n")) { std::string nf(""); e_make((size_t)in.i("first_n"), (float)in.d("fmax"), in.d("R_bend"), in.d("frev"), in.d("gap"), in.i("use_csr"), in.d("s"), in.d("xi"), in.d("coll"), &nf); }   // an earlier request of the same process (history)
        auto* z = e_make(n, (float)in.d("fmax"), in.d("R_bend"), in.d("frev"), in.d("gap"), in.i("use_csr"), in.d("s"), in.d("xi"), in.d("coll"), &none);
        if (z) dumpz(fo, "make", z->data(), z->size()); else fprintf(fo, "make 0\n");
        if (z) fprintf(fo, "sizes 2 %zu %zu\n", z->size(), z->nFreqs());
        auto* fs = e_freespace(n, (float)(2.99792458e8 / (6.283185307179586 * in.d("R_bend"))), (float)in.d("fmax")); dumpz(fo, "fs", fs->data(), fs->size());
        double radius = in.d("gap") < 0 ? -in.d("gap") / 2 : in.d("gap") / 2;
        auto* rw = e_reswall(n, (float)in.d("frev"), (float)in.d("fmax"), 2.99792458e8 / in.d("frev"), in.d("s") > 0 ? in.d("s") : 1.0, in.d("xi"), radius); dumpz(fo, "rw", rw->data(), rw->size());
        fclose(fo); return 0;
    }
    return 2;
}
