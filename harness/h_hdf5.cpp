// Harness for HDF5File: the constructor and the append functions are executed from IR against a recorder of the HDF5 C++ API.
// Natively only the arguments are built (phase space on a grid shifted differently in q and p, impedance, two fields, wake map, tracks, RF kicks).
//   snap <prefix> n nb N nparticles        |   run <in> <out>  (writes a real file, reads it back with libhdf5 and dumps datasets as text)
#include "snap.hpp"
#include "defines.hpp"
#include "PS/PhaseSpace.hpp"
#include "PS/ElectricField.hpp"
#include "Z/Impedance.hpp"
#include "SM/WakePotentialMap.hpp"
#include "IO/HDF5File.hpp"
#include <random>
using namespace vfps;
typedef std::shared_ptr<PhaseSpace> psp;
typedef std::vector<std::array<meshaxis_t,2>> kickvec;
extern "C" {
__attribute__((noinline)) HDF5File* e_new_h5(std::string* fname, psp* ps, ElectricField* ef, std::shared_ptr<Impedance>* imp, size_t nparticles, double t_sync, double f_rev)
  { return new HDF5File(*fname, *ps, ef, *imp, nparticles, t_sync, f_rev); }
__attribute__((noinline)) void e_append_ps(HDF5File* h, PhaseSpace* ps, timeaxis_t t, unsigned at) { h->append(*ps, t, static_cast<HDF5File::AppendType>(at)); }
__attribute__((noinline)) void e_append_ef(HDF5File* h, ElectricField* ef) { h->append(ef); }
__attribute__((noinline)) void e_append_wkm(HDF5File* h, WakeKickMap* w) { h->append(w); }
__attribute__((noinline)) void e_append_tracks(HDF5File* h, std::vector<PhaseSpace::Position>* p) { h->appendTracks(*p); }
__attribute__((noinline)) void e_append_rf(HDF5File* h, kickvec* k) { h->appendRFKicks(*k); }
__attribute__((noinline)) void e_append_padded(HDF5File* h, ElectricField* ef) { h->appendPadded(ef); }
}
struct W { psp* ps; std::shared_ptr<Impedance>* z; std::shared_ptr<Impedance>* nullz; ElectricField* rdtn; ElectricField* wake; WakePotentialMap* wkm; psp* ps2; std::vector<PhaseSpace::Position>* tracks; kickvec* kicks; std::string* fname; std::vector<uint32_t>* bk; };
static W build(int n, int nb, size_t N, int np, size_t Nr = 0) {      // Nr: padded length of the radiation field when it differs from the length N of the wake impedance (main: padded_bins vs spaced_bins)
    W w{};
    PhaseSpace::resetSize(n, nb);
    std::vector<integral_t> fill(nb, 1.0f / nb);
    std::mt19937 g(9); std::uniform_real_distribution<float> u(0.1f, 1);
    auto* d = new std::vector<float>(nb * n * n); for (auto& v : *d) v = u(g);
    w.ps = new psp(new PhaseSpace(-5.5f, 6.5f, 2e-3, -6.25f, 5.75f, 4e5, nullptr, 1.1e-9, 2.3e-3, fill, 1, d->data()));
    w.ps2 = new psp(new PhaseSpace(-5.5f, 6.5f, 2e-3, -6.25f, 5.75f, 4e5, nullptr, 1.1e-9, 2.3e-3, fill, 1));
    (*w.ps)->updateXProjection(); (*w.ps)->updateYProjection(); (*w.ps)->integrate(); (*w.ps)->variance(0); (*w.ps)->variance(1);
    auto* zv = new std::vector<impedance_t>(N); for (size_t i = 0; i <= N / 2; i++) (*zv)[i] = impedance_t(u(g), u(g) - 0.5f);
    w.z = new std::shared_ptr<Impedance>(new Impedance(*zv, 1e12f)); w.nullz = new std::shared_ptr<Impedance>();
    w.bk = new std::vector<uint32_t>(); for (int b = 0; b < nb; b++) w.bk->push_back(nb - 1 - b);
    if (Nr && Nr != N) { auto* zr = new std::vector<impedance_t>(Nr); for (size_t i = 0; i <= Nr / 2; i++) (*zr)[i] = impedance_t(u(g), u(g) - 0.5f);
                         auto* zrp = new std::shared_ptr<Impedance>(new Impedance(*zr, 1e12f)); w.rdtn = new ElectricField(*w.ps, *zrp, *w.bk, 0, nullptr, 2.7e6, 1e-3f); }
    else w.rdtn = new ElectricField(*w.ps, *w.z, *w.bk, 0, nullptr, 2.7e6, 1e-3f);
    w.wake = new ElectricField(*w.ps, *w.z, *w.bk, nb > 1 ? (N - n) / (nb - 1) : 0, nullptr, 2.7e6, 1e-3f, 1e-3, 1.3e9, 4.7e-4, 3e-12);
    w.wkm = new WakePotentialMap(*w.ps, *w.ps2, w.wake, SourceMap::InterpolationType::cubic, false, nullptr);
    w.wkm->update(); w.rdtn->updateCSR(0);
    w.tracks = new std::vector<PhaseSpace::Position>(); for (int i = 0; i < np; i++) w.tracks->push_back({1.0f + i, n - 2.0f - i});
    w.kicks = new kickvec(); for (int i = 0; i < 3; i++) w.kicks->push_back({{0.1f * i, 1.0f + 0.01f * i}});
    w.fname = new std::string("/tmp/verif-h5-unused.h5");
    return w;
}
static void dump_ds(FILE* fo, H5::H5File& f, const char* path) {
    try {
        H5::DataSet ds = f.openDataSet(path); H5::DataSpace sp = ds.getSpace(); int r = sp.getSimpleExtentNdims(); std::vector<hsize_t> dims(r); sp.getSimpleExtentDims(dims.data());
        size_t tot = 1; for (auto d : dims) tot *= d;
        std::vector<float> buf(tot ? tot : 1); if (tot) ds.read(buf.data(), H5::PredType::NATIVE_FLOAT);
        fprintf(fo, "%s %zu", path, tot); for (size_t i = 0; i < tot; i++) fprintf(fo, " %.9g", buf[i]); fprintf(fo, "\n");
        fprintf(fo, "dims:%s %d", path, r); for (auto d : dims) fprintf(fo, " %llu", (unsigned long long)d); fprintf(fo, "\n");
    } catch (...) { fprintf(fo, "%s -1\n", path); }
}
int main(int argc, char** argv) {
    std::string mode = argc > 1 ? argv[1] : "";
    if (mode == "snap") {
        int n = atoi(argv[3]), nb = atoi(argv[4]); size_t N = atoi(argv[5]); int np = atoi(argv[6]);
        size_t Nr = argc > 7 ? atoi(argv[7]) : 0;
        W w = build(n, nb, N, np, Nr);
        PhaseSpace* p = w.ps->get();
        snap_root("fname", w.fname); snap_root("ps", w.ps); snap_root("psobj", p); snap_root("z", w.z); snap_root("nullz", w.nullz); snap_root("rdtn", w.rdtn); snap_root("wake", w.wake); snap_root("wkm", w.wkm);
        snap_root("tracks", w.tracks); snap_root("tracks_data", w.tracks->data()); snap_root("kicks", w.kicks); snap_root("kicks_data", w.kicks->data());
        snap_root("axis0_data", p->getAxis(0)->data()); snap_root("axis1_data", p->getAxis(1)->data()); snap_root("freq_data", w.rdtn->getFreqRuler()->data()); snap_root("zdata", (*w.z)->data());
        snap_root("data", p->getData()); snap_root("proj", p->_projection.data()); snap_root("filling", p->_filling.data()); snap_root("moment", p->_moment.data()); snap_root("rms", p->_rms.data());
        snap_root("charge", &p->charge); snap_root("current", &p->current); snap_root("volts", &w.rdtn->volts); snap_root("f4wph", &w.rdtn->factor4WattPerHertz); snap_root("f4w", &w.rdtn->factor4Watts);
        snap_root("csrspec", w.rdtn->getCSRSpectrum()); snap_root("csrpow", w.rdtn->getCSRPower()); snap_root("wkm_force", w.wkm->getForce());
        snap_root("bp_padded", w.wake->getPaddedBunchProfiles()); snap_root("wp_padded", w.wake->getPaddedWakePotential()); snap_root("bk_data", w.bk->data());
        snap_val("nmax", std::to_string(w.rdtn->getNMax()));
        snap_begin(argv[2]); snap_end(); return 0;
    }
    if (mode == "run") {
        ReplayIn in; if (!in.load(argv[2])) return 2;
        int n = in.i("n"), nb = in.i("nb"); size_t N = in.i("N"); int np = in.i("np");
        W w = build(n, nb, N, np); std::string fn = in.kv["file"][0];
        FILE* fo0 = fopen((std::string(argv[3]) + ".src0").c_str(), "w");
        { HDF5File h(fn, *w.ps, w.rdtn, *w.z, np, 1e-4, 2.7e6);
          for (auto& op : in.kv["ops"]) {
            if (op == "mut") {      // the objects move on between two records: remember what they held, then give the field a new spectrum and the RF map a shorter block of new kicks
                int NM0 = w.rdtn->getNMax(); float* sp = const_cast<float*>(w.rdtn->getCSRSpectrum());
                fprintf(fo0, "src0:csrspec %d", nb * NM0); for (int i = 0; i < nb * NM0; i++) fprintf(fo0, " %.9g", sp[i]); fprintf(fo0, "\n");
                fprintf(fo0, "src0:kicks %zu", 2 * w.kicks->size()); for (auto& k : *w.kicks) fprintf(fo0, " %.9g %.9g", k[0], k[1]); fprintf(fo0, "\n");
                for (int i = 0; i < nb * NM0; i++) sp[i] = 0.5f * sp[i] + 1.0f + 0.01f * i;
                w.kicks->resize(2); (*w.kicks)[0] = {7.5f, 8.5f}; (*w.kicks)[1] = {9.5f, 10.5f};
                continue; }
            if (op == "ps_all") h.append(**w.ps, 0.25f, HDF5File::AppendType::All); else if (op == "ps_def") h.append(**w.ps, 0.5f, HDF5File::AppendType::Defaults);
            else if (op == "ef") h.append(w.rdtn); else if (op == "wkm") h.append(w.wkm); else if (op == "tracks") h.appendTracks(*w.tracks); else if (op == "rf") h.appendRFKicks(*w.kicks); else if (op == "padded") h.appendPadded(w.wake);
          } }
        H5::H5File f(fn, H5F_ACC_RDONLY); FILE* fo = fopen(argv[3], "w");
        for (const char* p : {"/Info/AxisValues_z", "/Info/AxisValues_E", "/Info/AxisValues_f", "/Info/AxisValues_t", "/PhaseSpace/axis0", "/BunchProfile/data", "/EnergyProfile/data", "/BunchLength/data", "/BunchPosition/data", "/EnergySpread/data",
                              "/EnergyAverage/data", "/BunchPopulation/data", "/PhaseSpace/data", "/CSR/Spectrum/data", "/CSR/Intensity/data", "/WakePotential/data", "/Particles/data", "/RFKicks/data", "/Impedance/data/real", "/Impedance/data/imag",
                              "/BunchProfile/padded", "/WakePotential/padded"}) dump_ds(fo, f, p);
        PhaseSpace* p = w.ps->get(); int NM = w.rdtn->getNMax();
        auto dumpf = [&](const char* name, const float* q, size_t k) { fprintf(fo, "%s %zu", name, k); for (size_t i = 0; i < k; i++) fprintf(fo, " %.9g", q[i]); fprintf(fo, "\n"); };
        dumpf("src:axis0", p->getAxis(0)->data(), n); dumpf("src:axis1", p->getAxis(1)->data(), n); dumpf("src:csrspec", w.rdtn->getCSRSpectrum(), (size_t)nb * NM); dumpf("src:proj", p->_projection.data(), 2 * nb * n);
        dumpf("src:wkm_force", w.wkm->getForce(), (size_t)nb * n); dumpf("src:data", p->getData(), (size_t)nb * n * n);
        { std::vector<float> kk; for (auto& k : *w.kicks) { kk.push_back(k[0]); kk.push_back(k[1]); } dumpf("src:kicks", kk.data(), kk.size()); }
        fclose(fo0); { FILE* f0 = fopen((std::string(argv[3]) + ".src0").c_str(), "r"); char buf[1 << 16]; while (f0 && fgets(buf, sizeof buf, f0)) fputs(buf, fo); if (f0) fclose(f0); unlink((std::string(argv[3]) + ".src0").c_str()); }
        fclose(fo); unlink(fn.c_str()); return 0;
    }
    return 2;
}
