// Harness for PhaseSpace: projections, integral, normalisation, moments, copy constructor.
//   snap <prefix> n nb pattern qmin qmax pmin pmax      pattern: 0 = equal shares, 1 = {0.7,0.3,...}, 2 = with an empty bucket {0.6,0,0.4}
//   run <in> <out>
#include "snap.hpp"
#include "defines.hpp"
#include "PS/PhaseSpace.hpp"
#include <random>
using namespace vfps;
extern "C" {
__attribute__((noinline)) void e_updx(PhaseSpace* p) { p->updateXProjection(); }
__attribute__((noinline)) void e_updy(PhaseSpace* p) { p->updateYProjection(); }
__attribute__((noinline)) void e_integrate(PhaseSpace* p) { p->integrate(); }
__attribute__((noinline)) void e_normalize(PhaseSpace* p) { p->normalize(); }
__attribute__((noinline)) void e_intnorm(PhaseSpace* p) { p->integrateAndNormalize(); }
__attribute__((noinline)) void e_average(PhaseSpace* p, unsigned axis) { p->average(axis); }
__attribute__((noinline)) void e_variance(PhaseSpace* p, unsigned axis) { p->variance(axis); }
__attribute__((noinline)) PhaseSpace* e_copy(PhaseSpace* p) { return new PhaseSpace(*p); }
__attribute__((noinline)) meshaxis_t e_x(PhaseSpace* p, meshaxis_t q) { return p->x(q); }
__attribute__((noinline)) meshaxis_t e_y(PhaseSpace* p, meshaxis_t q) { return p->y(q); }
__attribute__((noinline)) meshdata_t* e_data(PhaseSpace* p) { return p->getData(); }
__attribute__((noinline)) projection_t* e_proj(PhaseSpace* p) { return p->_projection.data(); }
__attribute__((noinline)) integral_t* e_filling(PhaseSpace* p) { return p->_filling.data(); }
__attribute__((noinline)) integral_t* e_integral(PhaseSpace* p) { return &p->_integral; }
__attribute__((noinline)) meshaxis_t* e_moment(PhaseSpace* p) { return p->_moment.data(); }
__attribute__((noinline)) meshaxis_t* e_rms(PhaseSpace* p) { return p->_rms.data(); }
}
static std::vector<integral_t> pattern(int nb, int pat) {
    std::vector<integral_t> f(nb, 1.0f / nb);
    if (pat == 1 && nb >= 2) { f.assign(nb, 0.3f / (nb - 1)); f[0] = 0.7f; }
    if (pat == 2 && nb >= 3) { f.assign(nb, 0.0f); f[0] = 0.6f; f[nb - 1] = 0.4f; }
    return f;
}
static void dumpf(FILE* f, const char* name, const float* p, size_t n) { fprintf(f, "%s %zu", name, n); for (size_t i = 0; i < n; i++) fprintf(f, " %.9g", p[i]); fprintf(f, "\n"); }
int main(int argc, char** argv) {
    std::string mode = argc > 1 ? argv[1] : "";
    if (mode == "snap") {
        int n = atoi(argv[3]), nb = atoi(argv[4]), pat = atoi(argv[5]);
        float qmin = atof(argv[6]), qmax = atof(argv[7]), pmin = atof(argv[8]), pmax = atof(argv[9]);
        PhaseSpace::resetSize(n, nb);
        auto fill = pattern(nb, pat);
        std::mt19937 g(5); std::uniform_real_distribution<float> u(0.1f, 1);
        auto* d = new std::vector<float>(nb * n * n); for (auto& v : *d) v = u(g);
        auto* ps = new PhaseSpace(qmin, qmax, 2e-3, pmin, pmax, 4e5, nullptr, 1e-9, 1e-3, fill, 1, d->data());
        snap_root("ps", ps); snap_root("data", ps->getData()); snap_root("proj", ps->_projection.data()); snap_root("filling", ps->_filling.data()); snap_root("filling_set", ps->_filling_set.data());
        snap_root("integral", &ps->_integral); snap_root("moment", ps->_moment.data()); snap_root("rms", ps->_rms.data()); snap_root("ws", ps->_ws.data());
        snap_root("axis0_data", ps->getAxis(0)->data()); snap_root("axis1_data", ps->getAxis(1)->data());
        snap_val("delta0", std::to_string((double)ps->getDelta(0))); snap_val("delta1", std::to_string((double)ps->getDelta(1)));
        snap_begin(argv[2]);
        size_t N = (size_t)nb * n * n;
        e_updx(ps); snap_step("e_updx", {A_p(ps)}); e_updy(ps); snap_step("e_updy", {A_p(ps)}); snap_expect("proj", ps->_projection.data(), 4 * 2 * nb * n);
        e_integrate(ps); snap_step("e_integrate", {A_p(ps)}); snap_expect("filling", ps->_filling.data(), 4 * nb); snap_expect("integral", &ps->_integral, 4);
        e_normalize(ps); snap_step("e_normalize", {A_p(ps)}); snap_expect("data", ps->getData(), 4 * N);
        e_updx(ps); snap_step("e_updx", {A_p(ps)}); e_updy(ps); snap_step("e_updy", {A_p(ps)}); e_integrate(ps); snap_step("e_integrate", {A_p(ps)}); snap_expect("filling2", ps->_filling.data(), 4 * nb);
        e_variance(ps, 0); snap_step("e_variance", {A_p(ps), A_i(0)}); e_variance(ps, 1); snap_step("e_variance", {A_p(ps), A_i(1)});
        snap_expect("moment", ps->_moment.data(), 4 * 2 * 4 * nb); snap_expect("rms", ps->_rms.data(), 4 * 2 * nb);
        { PhaseSpace* c = e_copy(ps); snap_step("e_copy", {A_p(ps)}); snap_step("e_proj", {"ret"}); snap_expect("copy_proj", c->_projection.data(), 4 * 2 * nb * n, true, 0); }
        snap_end(); return 0;
    }
    if (mode == "run") {
        ReplayIn in; if (!in.load(argv[2])) return 2;
        int n = in.i("n"), nb = in.i("nb"), pat = in.i("pattern");
        PhaseSpace::resetSize(n, nb);
        auto fill = pattern(nb, pat);
        auto d = in.fv("data"); d.resize((size_t)nb * n * n, 0.5f);
        auto* ps = new PhaseSpace((float)in.d("qmin", 0, -6), (float)in.d("qmax", 0, 6), 2e-3, (float)in.d("pmin", 0, -6), (float)in.d("pmax", 0, 6), 4e5, nullptr, 1e-9, 1e-3, fill, 1, d.data());
        FILE* fo = fopen(argv[3], "w");
        for (auto& op : in.kv["ops"]) {
            if (op == "x") ps->updateXProjection(); else if (op == "y") ps->updateYProjection(); else if (op == "i") ps->integrate(); else if (op == "n") ps->normalize();
            else if (op == "v0") ps->variance(0); else if (op == "v1") ps->variance(1); else if (op == "c") ps = new PhaseSpace(*ps);
        }
        dumpf(fo, "data", ps->getData(), (size_t)nb * n * n); dumpf(fo, "proj", ps->_projection.data(), 2 * nb * n); dumpf(fo, "filling", ps->_filling.data(), nb); dumpf(fo, "integral", &ps->_integral, 1);
        dumpf(fo, "moment", ps->_moment.data(), 8 * nb); dumpf(fo, "rms", ps->_rms.data(), 2 * nb); dumpf(fo, "ws", ps->_ws.data(), n);
        fclose(fo); return 0;
    }
    return 2;
}
