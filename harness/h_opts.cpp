// Harness for ProgramOptions::save (C13): options are parsed natively for a scenario (command line / parent config file),
// save(std::string) is executed from IR against a recorder of the output stream.
//   snap <prefix> <scenario> <workdir>      |   run <in> <out>   (native oracle: save, re-parse with --config, compare every getter)
#include "snap.hpp"
#include "defines.hpp"
#include "IO/ProgramOptions.hpp"
#include <fstream>
#include <sstream>
using namespace vfps;
namespace po = boost::program_options;
extern "C" {
__attribute__((noinline)) void e_save(ProgramOptions* o, std::string* fname) { o->save(*fname); }
}
static std::vector<std::string> scenario_args(int sc, const std::string& wd) {
    std::vector<std::string> a{"inovesa"};
    auto cfg = wd + "/parent-" + std::to_string(sc) + "-" + std::to_string(getpid()) + ".cfg";      // one file per scenario and process: snapshots and native oracles of several scenarios run in parallel
    switch (sc) {
    case 0: a.insert(a.end(), {"--gui", "false", "-o", wd + "/out.h5"}); break;                                     // defaults only
    case 1: a.insert(a.end(), {"--gui", "false", "-o", wd + "/out.h5", "-I", "1.2345678e-3", "2.5e-3", "6.7891234e-4", "-f", "8500.5", "-N", "777", "-V", "1234567", "-F", "2712345.5", "-H", "184", "-E", "1.2345678e9",
                               "-e", "4.7123e-4", "-R", "5.559", "-G", "0.032", "-d", "0.01", "-n", "37", "-T", "2.25", "-s", "64", "-P", "11.5", "-p", "3.5", "--RoundPadding", "false", "--PhaseSpaceShiftX", "1.5",
                               "--PhaseSpaceShiftY", "-2.5", "--RenormalizeCharge", "5", "--FPType", "1", "--FPTrack", "2", "--derivation", "3", "--InterpolationPoints", "3", "--alpha1", "1.5e-4", "--alpha2", "-2.5e-5",
                               "--SavePhaseSpace", "3", "--CutoffFreq", "2.5e10", "--WallConductivity", "3.5e7", "--WallSusceptibility", "0.25", "--CollimatorRadius", "0.004", "--UseCSR", "false", "--LinearRF", "false",
                               "--RFAmplitudeSpread", "1e-4", "--RFPhaseSpread", "0.25", "--RFPhaseModAmplitude", "1.5", "--RFPhaseModFrequency", "9000", "--InitialDistZoom", "1.25", "--StepsPerRevolution", "0",
                               "--verbose", "true", "--InitialDistStep", "7", "--InterpolateClamped", "true"}); break;
    case 2: { std::ofstream f(cfg); f << "BunchCurrent=1.2345678e-3\nBunchCurrent=2.5e-3\nalpha0=3.3e-3\nStepsPerTs=640\nAcceleratingVoltage=1.1e6\nGridSize=32\nInitialDistStep=-2\nrotations=0.5\noutstep=10\nVacuumGap=-0.02\nDampingTime=0.02\n";
              a.insert(a.end(), {"--gui", "false", "-c", cfg, "-o", wd + "/out.h5"}); } break;                       // canonical names in a parent config, alpha0 (no f_s)
    case 3: { std::ofstream f(cfg); f << "steps=555\nRFVoltage=1.5e6\nSyncFreq=7100\nBunchCurrent=2.3456789e-3\nGridSize=32\n";
              a.insert(a.end(), {"--gui", "false", "-c", cfg, "-o", wd + "/out.h5"}); } break;                       // legacy aliases in a parent config
    case 5: { std::ofstream f(cfg); f << "steps=2000\nStepsPerTs=500\nRFVoltage=1.5e6\nAcceleratingVoltage=8e5\nSyncFreq=7100\nSynchrotronFrequency=6500\nGridSize=32\n";
              a.insert(a.end(), {"--gui", "false", "-c", cfg, "-o", wd + "/out.h5"}); } break;                       // half-migrated parent config: legacy and current name of the same quantity, different values
    case 6: { std::ofstream f(cfg); f << "steps=2000\nRFVoltage=1.5e6\nSyncFreq=7100\nGridSize=32\n";
              a.insert(a.end(), {"--gui", "false", "-c", cfg, "-o", wd + "/out.h5", "-N", "500", "-V", "8e5", "-f", "6500"}); } break;   // legacy names in the parent config, current names on the command line
    case 7: a.insert(a.end(), {"--gui", "false", "-c", "/dev/null", "-o", wd + "/out.h5", "--derivation", "3", "-i", "/dev/null", "--tracking", "", "-I", "4.5678912e-3"}); break;   // explicit "no file" values: config, start distribution, tracking
    case 4: a.insert(a.end(), {"--gui", "false", "-o", wd + "/out.h5", "--alpha0", "5.5e-3", "-I", "3.4567891e-3"}); break; // alpha0 on the command line, one bunch
    }
    return a;
}
static bool parse(ProgramOptions& o, std::vector<std::string> a) {
    std::vector<char*> av; for (auto& s : a) av.push_back(const_cast<char*>(s.c_str()));
    return o.parse((int)av.size(), av.data());
}
#define OPT(key, member, kind) { key, (void*)&o->member, kind }
struct OptRow { const char* key; void* addr; const char* kind; };
static std::vector<OptRow> table(ProgramOptions* o) {
    return { OPT("alpha0", alpha0, "f32"), OPT("alpha1", alpha1, "f32"), OPT("alpha2", alpha2, "f32"), OPT("SynchrotronFrequency", f_s, "f32"), OPT("RevolutionFrequency", f0, "f32"), OPT("DampingTime", t_d, "f64"),
             OPT("HarmonicNumber", H, "f32"), OPT("InitialDistStep", _startdiststep, "i64"), OPT("InitialDistZoom", zoom, "f64"), OPT("BendingRadius", r_bend, "f64"), OPT("BeamEnergy", E_0, "f64"),
             OPT("BeamEnergySpread", s_E, "f64"), OPT("VacuumGap", g, "f64"), OPT("UseCSR", use_csr, "b"), OPT("CollimatorRadius", collimator, "f64"), OPT("WallConductivity", s_c, "f64"), OPT("WallSusceptibility", xi_wall, "f64"),
             OPT("CutoffFreq", f_c, "f32"), OPT("AcceleratingVoltage", V_RF, "f64"), OPT("LinearRF", linearRF, "b"), OPT("RFAmplitudeSpread", rf_amplitude_spread, "f64"), OPT("RFPhaseSpread", rf_phase_spread, "f64"),
             OPT("RFPhaseModAmplitude", rf_phase_mod_amplitude, "f64"), OPT("RFPhaseModFrequency", rf_phase_mod_frequency, "f64"), OPT("outstep", outsteps, "u32"), OPT("SavePhaseSpace", _savephasespace, "u32"),
             OPT("verbose", _verbose, "b"), OPT("StepsPerTs", steps_per_Ts, "u32"), OPT("StepsPerRevolution", steps_per_Trev, "f64"), OPT("padding", padding, "f64"), OPT("RoundPadding", roundpadding, "b"),
             OPT("PhaseSpaceSize", pq_size, "f32"), OPT("PhaseSpaceShiftX", meshshiftx, "f32"), OPT("PhaseSpaceShiftY", meshshifty, "f32"), OPT("RenormalizeCharge", renormalize, "i32"), OPT("FPType", fptype, "u32"),
             OPT("FPTrack", fptrack, "u32"), OPT("GridSize", meshsize, "u32"), OPT("rotations", rotations, "f64"), OPT("derivation", deriv_type, "u32"), OPT("InterpolationPoints", interpol_type, "u32"),
             OPT("InterpolateClamped", interpol_clamp, "b") };
}
static std::string getters(ProgramOptions& o) {
    std::ostringstream s; s.precision(17);
    s << o.getGridSize() << ' ' << o.getOutSteps() << ' ' << o.getPadding() << ' ' << o.getRoundPadding() << ' ' << o.getStepsPerTsync() << ' ' << o.getStepsPerTrev() << ' ' << o.getNRotations() << ' ' << o.getPhaseSpaceSize() << ' '
      << o.getPSShiftX() << ' ' << o.getPSShiftY() << ' ' << o.getRenormalizeCharge() << ' ' << o.getFPTrack() << ' ' << o.getFPType() << ' ' << o.getDerivationType() << ' ' << o.getInterpolationPoints() << ' ' << o.getInterpolationClamped() << ' '
      << o.getAlpha0() << ' ' << o.getAlpha1() << ' ' << o.getAlpha2() << ' ' << o.getRFAmplitudeSpread() << ' ' << o.getRFPhaseSpread() << ' ' << o.getRFPhaseModAmplitude() << ' ' << o.getRFPhaseModFrequency() << ' ' << o.getBeamEnergy() << ' '
      << o.getBendingRadius() << ' ' << o.getCutoffFrequency() << ' ' << o.getEnergySpread() << ' ' << o.getHarmonicNumber() << ' ' << o.getRevolutionFrequency() << ' ' << o.getRFVoltage() << ' ' << o.getStartDistZoom() << ' '
      << o.getSyncFreq() << ' ' << o.getDampingTime() << ' ' << o.getVacuumChamberGap() << ' ' << o.getUseCSR() << ' ' << o.getLinearRF() << ' ' << o.getCollimatorRadius() << ' ' << o.getWallConductivity() << ' ' << o.getWallSusceptibility() << ' '
      << o.getSavePhaseSpace() << ' ' << o.getVerbosity() << ' ' << o.getStartDistStep() << " I:";
    for (auto v : o.getBunchCurrents()) s << ' ' << v;
    return s.str();
}
int main(int argc, char** argv) {
    std::string mode = argc > 1 ? argv[1] : "";
    if (mode == "snap") {
        int sc = atoi(argv[3]); std::string wd = argv[4];
        auto* o = new ProgramOptions(); if (!parse(*o, scenario_args(sc, wd))) return 4;
        auto* fname = new std::string(wd + "/saved.cfg");
        snap_root("opts", o); snap_root("fname", fname);
        auto* mp = static_cast<std::map<std::string, po::variable_value>*>(&o->_vm); snap_root("vm_map", mp);
        int i = 0;
        for (auto it = mp->begin(); it != mp->end(); ++it, ++i) {
            const boost::any& v = it->second.value(); char nm[96];
            std::string ty = v.empty() ? "empty" : v.type() == typeid(float) ? "f32" : v.type() == typeid(double) ? "f64" : v.type() == typeid(int32_t) ? "i32" : v.type() == typeid(uint32_t) ? "u32" : v.type() == typeid(int64_t) ? "i64"
                           : v.type() == typeid(bool) ? "b" : v.type() == typeid(std::string) ? "str" : v.type() == typeid(std::vector<float>) ? "vf32" : "other";
            const void* held = v.empty() ? nullptr : (const char*)(*(void* const*)&v) + sizeof(void*);      // boost::any { placeholder* content }; holder<T> { vptr; T held; }
            snprintf(nm, 96, "vm:%s:%s", it->first.c_str(), ty.c_str()); snap_root(nm, held);
            if (ty == "vf32") { auto* vec = (const std::vector<float>*)held; snprintf(nm, 96, "vmdata:%s:%zu", it->first.c_str(), vec->size()); snap_root(nm, vec->data()); }
        }
        for (auto& r : table(o)) { char nm[96]; snprintf(nm, 96, "var:%s:%s", r.key, r.kind); snap_root(nm, r.addr); }
        snap_root("var_Ib_data", o->I_b.data()); snap_val("n_Ib", std::to_string(o->I_b.size()));
        snap_begin(argv[2]); snap_end(); return 0;
    }
    if (mode == "run") {
        ReplayIn in; if (!in.load(argv[2])) return 2;
        int sc = in.i("scenario"); std::string wd = in.kv["workdir"][0];
        ProgramOptions a; if (!parse(a, scenario_args(sc, wd))) return 4;
        std::string saved = wd + "/saved-native-" + std::to_string(getpid()) + ".cfg"; a.save(saved);
        ProgramOptions b; if (!parse(b, {"inovesa", "--gui", "false", "-c", saved})) return 5;
        FILE* fo = fopen(argv[3], "w"); std::string ga = getters(a), gb = getters(b);
        fprintf(fo, "same 1 %d\n", ga == gb ? 1 : 0); fclose(fo);
        FILE* ft = fopen((std::string(argv[3]) + ".txt").c_str(), "w"); fprintf(ft, "%s\n%s\n", ga.c_str(), gb.c_str()); fclose(ft);
        return 0;
    }
    return 2;
}
