// Harness for ElectricField (wake potential, padding, CSR spectrum) and WakePotentialMap.  FFTW planning is done natively
// before the snapshot; plans are recorded (by interposing the planner entry points) so that the symbolic executor can
// replace fftwf_execute(plan) by a model of the transform on plan->in / plan->out.
//   snap <prefix> n N spacing cutoffflag b0 b1 ...     (b_i: bucket numbers of the nb filled buckets; cutoffflag = 10*nbps + cutoff, nbps > 0: phase space with nbps bunches although more buckets are listed)
//   run  <infile> <outfile>
#include "snap.hpp"
#include <dlfcn.h>
#include "defines.hpp"
#include "PS/PhaseSpace.hpp"
#include "PS/ElectricField.hpp"
#include "Z/Impedance.hpp"
#include "SM/WakePotentialMap.hpp"
#include <random>
#include <fftw3.h>
using namespace vfps;
typedef std::shared_ptr<PhaseSpace> psp;

struct planrec { void* plan; int n; void* in; void* out; int kind; };
static planrec plans[32]; static int nplans = 0;
extern "C" fftwf_plan fftwf_plan_dft_r2c_1d(int n, float* in, fftwf_complex* out, unsigned flags) {
    auto real = (fftwf_plan(*)(int,float*,fftwf_complex*,unsigned))dlsym(RTLD_NEXT, "fftwf_plan_dft_r2c_1d");
    fftwf_plan p = real(n, in, out, flags); if (p && nplans < 32) plans[nplans++] = { p, n, in, out, 0 }; return p; }
extern "C" fftwf_plan fftwf_plan_dft_c2r_1d(int n, fftwf_complex* in, float* out, unsigned flags) {
    auto real = (fftwf_plan(*)(int,fftwf_complex*,float*,unsigned))dlsym(RTLD_NEXT, "fftwf_plan_dft_c2r_1d");
    fftwf_plan p = real(n, in, out, flags); if (p && nplans < 32) plans[nplans++] = { p, n, in, out, 1 }; return p; }

extern "C" {
__attribute__((noinline)) meshaxis_t* e_wake(ElectricField* f) { return f->wakePotential(); }
__attribute__((noinline)) const csrpower_t* e_csr(ElectricField* f, frequency_t fc) { return f->updateCSR(fc); }
__attribute__((noinline)) void e_pad(ElectricField* f) { f->padBunchProfiles(); }
__attribute__((noinline)) const csrpower_t* e_csrpower(ElectricField* f) { return f->getCSRPower(); }
__attribute__((noinline)) const csrpower_t* e_csrspectrum(ElectricField* f) { return f->getCSRSpectrum(); }
__attribute__((noinline)) const integral_t* e_padded(ElectricField* f) { return f->getPaddedBunchProfiles(); }
__attribute__((noinline)) const meshaxis_t* e_wakepadded(ElectricField* f) { return f->getPaddedWakePotential(); }
__attribute__((noinline)) void e_wpm_update(WakePotentialMap* m) { m->update(); }
__attribute__((noinline)) void e_wpm_apply(WakePotentialMap* m) { m->apply(); }
__attribute__((noinline)) const meshaxis_t* e_force(KickMap* km) { return km->getForce(); }
__attribute__((noinline)) ElectricField* e_new_field(psp* ps, std::shared_ptr<Impedance>* z, std::vector<uint32_t>* bk, meshindex_t spacing, double f_rev, meshaxis_t revpart, double Ib, double E0, double sigma_delta, double dt)
  { return new ElectricField(*ps, *z, *bk, spacing, nullptr, f_rev, revpart, Ib, E0, sigma_delta, dt); }
__attribute__((noinline)) meshaxis_t e_wakescaling(ElectricField* f) { return f->getWakeScaling(); }
}

struct W { psp* ps; psp* ps2; std::shared_ptr<Impedance>* z; std::vector<impedance_t>* zv; std::vector<uint32_t>* bk; ElectricField* f; WakePotentialMap* wpm; std::vector<float>* d; };
static int g_ztail = 0;      // number of exact zeros at the top of the positive-frequency half of the impedance (a table that ends below the grid's top frequency)
static W build(int n, size_t N, int spacing, const std::vector<uint32_t>& bk, int seed, bool maps, int nbps = 0) {
    W w{}; int nb = nbps > 0 ? nbps : (int)bk.size();      // nbps: bunches of the phase space when it differs from the number of listed buckets (main after loading a single-bunch start file)
    PhaseSpace::resetSize(n, nb);
    std::vector<integral_t> fill(nb, 1.0f / nb);
    std::mt19937 g(seed); std::uniform_real_distribution<float> u(0, 1);
    w.d = new std::vector<float>(nb * n * n); for (auto& v : *w.d) v = u(g);
    w.ps = new psp(new PhaseSpace(-6, 6, 2e-3, -6, 6, 4e5, nullptr, 1e-9, 1e-3, fill, 1, w.d->data()));
    w.ps2 = new psp(new PhaseSpace(-6, 6, 2e-3, -6, 6, 4e5, nullptr, 1e-9, 1e-3, fill, 1));
    w.zv = new std::vector<impedance_t>(N); for (size_t i = 0; i <= N / 2; i++) (*w.zv)[i] = impedance_t(u(g), u(g) - 0.5f);
    for (int k = 0; k < g_ztail && (size_t)k <= N / 2; k++) (*w.zv)[N / 2 - k] = impedance_t(0, 0);
    w.z = new std::shared_ptr<Impedance>(new Impedance(*w.zv, 1e12f));
    w.bk = new std::vector<uint32_t>(bk);
    w.f = e_new_field(w.ps, w.z, w.bk, spacing, 2.7e6, 1e-3f, 1e-3, 1.3e9, 4.7e-4, 3e-12);
    if (maps) w.wpm = new WakePotentialMap(*w.ps, *w.ps2, w.f, SourceMap::InterpolationType::cubic, false, nullptr);
    return w;
}
static void dumpf(FILE* f, const char* name, const float* p, size_t n) { fprintf(f, "%s %zu", name, n); for (size_t i = 0; i < n; i++) fprintf(f, " %.9g", p[i]); fprintf(f, "\n"); }

int main(int argc, char** argv) {
    std::string mode = argc > 1 ? argv[1] : "";
    if (mode == "snap") {
        int n = atoi(argv[3]); size_t N = atoi(argv[4]); int spacing = atoi(argv[5]); int cutoff = atoi(argv[6]) % 10; int nbps = (atoi(argv[6]) / 10) % 10; g_ztail = atoi(argv[6]) / 100;
        std::vector<uint32_t> bk; for (int i = 7; i < argc; i++) bk.push_back(atoi(argv[i]));
        int nb = nbps > 0 ? nbps : (int)bk.size();
        W w = build(n, N, spacing, bk, 3, true, nbps);
        snap_root("field", w.f); snap_root("ps", w.ps); snap_root("z", w.z); snap_root("bk", w.bk); snap_root("wpm", w.wpm);
        snap_root("proj0", (*w.ps)->getProjection(0).origin()); snap_root("zdata", (*w.z)->data());
        snap_root("bp_padded", w.f->getPaddedBunchProfiles()); snap_root("wp_padded", w.f->getPaddedWakePotential());
        snap_root("wpm_force", w.wpm->getForce()); snap_root("data_in", (*w.ps)->getData()); snap_root("data_out", (*w.ps2)->getData());
        for (int i = 0; i < nplans; i++) { char nm[64]; snprintf(nm, 64, "plan%d_n%d_k%d", i, plans[i].n, plans[i].kind); snap_root(nm, plans[i].plan);
            snprintf(nm, 64, "plan%d_in", i); snap_root(nm, plans[i].in); snprintf(nm, 64, "plan%d_out", i); snap_root(nm, plans[i].out); }
        // calibration of the FFT stub assumptions (§2.4): planning left the zeroed buffers zero; c2r execution leaves its input unchanged
        bool zero_ok = true; for (size_t i = 0; i < N; i++) if (w.f->getPaddedBunchProfiles()[i] != 0 || w.f->getPaddedWakePotential()[i] != 0) zero_ok = false;
        snap_val("calib_buffers_zero_after_planning", zero_ok ? "1" : "0");
        snap_val("wakescaling", std::to_string((double)w.f->getWakeScaling()));
        snap_val("freq_delta", std::to_string((double)w.f->getFreqRuler()->delta()));
        snap_begin(argv[2]);
        float* wk = e_wake(w.f); snap_step("e_wake", {A_p(w.f)}); snap_expect("wake", wk, 4 * nb * n, true, 0);
        // c2r input preservation: recompute what the code put into the c2r input and compare after execution
        { bool keep = true; const planrec* c2r = nullptr; for (int i = 0; i < nplans; i++) if (plans[i].kind == 1) c2r = &plans[i];
          const planrec* r2c = nullptr; for (int i = 0; i < nplans; i++) if (plans[i].kind == 0) r2c = &plans[i];
          long ch_lo = -1, ch_hi = -1;      // complex cells of the c2r input that the execution changed (FFTW's c2r plans may use their input as scratch space)
          if (c2r && r2c) { auto* in = (std::complex<float>*)c2r->in; auto* ff = (std::complex<float>*)r2c->out;
            for (size_t i = 0; i < N / 2; i++) { std::complex<float> want = (*w.zv)[i] * ff[i]; if (in[i] != want) { keep = false; if (ch_lo < 0) ch_lo = i; ch_hi = i; } }
            for (size_t i = N / 2; i < N; i++) if (in[i] != std::complex<float>(0, 0)) { keep = false; if (ch_lo < 0) ch_lo = i; ch_hi = i; } }
          // an in-place c2r plan (output buffer inside the input buffer) overwrites its input by construction; what matters then is that the cells of the
          // input buffer beyond the N real outputs (the top bin / its imaginary part) are left as they were
          int inplace = 0, tail = 1;
          if (c2r && r2c) { const char* i0 = (const char*)c2r->in; const char* o0 = (const char*)c2r->out; size_t ibytes = 8 * (N / 2 + 1), obytes = 4 * N;
            if (o0 < i0 + ibytes && i0 < o0 + obytes) { inplace = 1; auto* fin = (const float*)c2r->in; auto* ff = (std::complex<float>*)r2c->out;
              for (size_t k = N; k < 2 * (N / 2 + 1); k++) { size_t bin = k / 2; std::complex<float> want = bin < N / 2 ? (*w.zv)[bin] * ff[bin] : std::complex<float>(0, 0);
                float wv = (k % 2) ? want.imag() : want.real(); if (o0 == i0 && fin[k] != wv) tail = 0; }
              if (o0 != i0) tail = 0; } }
          FILE* fc = fopen((std::string(argv[2]) + ".calib").c_str(), "w"); fprintf(fc, "c2r_input_preserved %d\nbuffers_zero_after_planning %d\nc2r_inplace %d\nc2r_inplace_tail_preserved %d\nc2r_changed_lo %ld\nc2r_changed_hi %ld\n", keep ? 1 : 0, zero_ok ? 1 : 0, inplace, tail, ch_lo, ch_hi); fclose(fc); }
        const float* cs = e_csr(w.f, cutoff ? 3e11f : 0.0f); snap_step("e_csr", {A_p(w.f), A_f(cutoff ? 3e11f : 0.0f)}); snap_expect("csr", cs, 4 * nb * N, true, 0);
        snap_step("e_csrpower", {A_p(w.f)}); snap_expect("csrpower", w.f->getCSRPower(), 4 * nb, true, 0);
        wk = e_wake(w.f); snap_step("e_wake", {A_p(w.f)}); snap_expect("wake2", wk, 4 * nb * n, true, 0);
        e_wpm_update(w.wpm); snap_step("e_wpm_update", {A_p(w.wpm)}); snap_step("e_force", {A_p(w.wpm)}); snap_expect("wpm_force", w.wpm->getForce(), 4 * nb * n, true, 0);
        snap_end();
        return 0;
    }
    if (mode == "run") {
        ReplayIn in; if (!in.load(argv[2])) return 2;
        int n = in.i("n"); size_t N = in.i("N"); int spacing = in.i("spacing");
        std::vector<uint32_t> bk; for (auto& s : in.kv["buckets"]) bk.push_back(atoi(s.c_str()));
        int nb = bk.size();
        g_ztail = in.i("ztail", 0, 0);
        W w = build(n, N, spacing, bk, 3, false);
        if (in.has("zupper")) { auto v = in.fv("zupper"); auto* zd = const_cast<impedance_t*>((*w.z)->data()); size_t k = N / 2 + 1; for (size_t i = 0; i + 1 < v.size() && k < N; i += 2, k++) zd[k] = impedance_t(v[i], v[i + 1]); }      // a full-length table: samples above N/2
        if (in.has("z")) { auto v = in.fv("z"); auto* zd = const_cast<impedance_t*>((*w.z)->data()); for (size_t i = 0; i + 1 < v.size() && i / 2 < N; i += 2) zd[i / 2] = impedance_t(v[i], v[i + 1]); }
        FILE* fo = fopen(argv[3], "w");
        // ops: sequence of "prof<k>" installs + calls:  w = wake, c = csr, p = pad
        auto setprof = [&](const std::string& key) { auto v = in.fv(key); float* p = const_cast<float*>((*w.ps)->getProjection(0).origin()); for (size_t i = 0; i < v.size() && i < (size_t)nb * n; i++) p[i] = v[i]; };
        int k = 0;
        for (auto& op : in.kv["ops"]) {
            char key[32]; snprintf(key, 32, "prof%d", k); if (in.has(key)) setprof(key);
            if (in.has("zlast") && (size_t)k + 1 == in.kv["ops"].size()) {      // the shared impedance object is changed before the last call (Impedance::operator= / += between two uses of the field)
                auto v = in.fv("zlast"); auto* zd = const_cast<impedance_t*>((*w.z)->data()); for (size_t i = 0; i + 1 < v.size() && i / 2 < N; i += 2) zd[i / 2] = impedance_t(v[i], v[i + 1]); }
            if (op == "w") { float* r = e_wake(w.f); dumpf(fo, "wake", r, (size_t)nb * n); }
            else if (op == "c") { const float* r = e_csr(w.f, (float)in.d("cutoff", 0, 0)); dumpf(fo, "csr", r, (size_t)nb * N); dumpf(fo, "csrpower", w.f->getCSRPower(), nb); }
            else if (op == "C") { e_csr(w.f, (float)in.d("cutoff2", 0, 0)); }       // an earlier CSR computation with another cutoff setting (history only)
            else if (op == "p") { e_pad(w.f); dumpf(fo, "padded", w.f->getPaddedBunchProfiles(), N); }
            k++;
        }
        float sc = w.f->getWakeScaling(); dumpf(fo, "wakescaling", &sc, 1);
        fclose(fo); return 0;
    }
    return 2;
}
