#!/bin/sh
# offline setup: verify the tools the checks need and warm the build cache from /repo's current tree
set -e
cd "$(dirname "$0")"
command -v clang++-14 >/dev/null
python3-vt -c "import z3, numpy; assert z3.get_version_string().startswith('5.')"
mkdir -p build out evidence
python3-vt tools/prebuild.py
echo setup ok
