"""C06 - wake potential = discrete convolution of the bunch profiles with the impedance."""
import sys, os
sys.path.insert(0, os.path.dirname(os.path.abspath(__file__)))
from field_common import *

UPDATE_SM = '_ZN4vfps7KickMap8updateSMEv'
C_LIGHT = Fraction(2.99792458e8)

def sym_impedance(ex, st, R, N, tag='Z'):
    Z = []
    for k in range(N):
        zr = z3.Real('%sr%d' % (tag, k)); zi = z3.Real('%si%d' % (tag, k)); Z.append((zr, zi))
        st.sym[R['zdata'] + 8 * k] = (4, 'f', zr); st.sym[R['zdata'] + 8 * k + 4] = (4, 'f', zi)
    return Z

def sym_profiles(ex, st, R, n, nb, tag='rho'):
    P = []
    for i in range(nb * n):
        v = z3.Real('%s_%d' % (tag, i)); st.sym[R['proj0'] + 4 * i] = (4, 'f', v); P.append(v)
    return P

def spec_wake(fft, N, n, nb, buckets, spacing, P, Z, scaling):
    train = [z3.RealVal(0)] * N
    for b in range(nb):
        for x in range(n): train[buckets[b] * spacing + x] = P[b * n + x]
    F = fft.apply(0, N, train)                      # r2c: cells 0..N/2 (re, im interleaved)
    Y = []
    for k in range(N // 2 + 1):
        if k < N // 2:
            fr, fi = F[2 * k], F[2 * k + 1]; zr, zi = Z[k]
            Y += [zr * fr - zi * fi, zr * fi + zi * fr]
        else: Y += [z3.RealVal(0), z3.RealVal(0)]    # Nyquist cell of the loss spectrum is never written: stays at its initial zero
    Wp = fft.apply(1, N, Y)
    return [scaling * Wp[buckets[b] * spacing + x] for b in range(nb) for x in range(n)], train

def job_structure(res, n, N, spacing, buckets):
    bld = field_build(); mod = load_module(bld, FIELD_MODS)
    snap, R, pre, plans, calib = field_world(bld, n, N, spacing, buckets)
    nb = len(buckets)
    AP = {k: 3e-5 for k in ('wake', 'csr', 'csrpower', 'wake2', 'wpm_force')}
    validate(res, mod, snap, pre, {'fftwf_execute': fft_concrete(plans)}, approx=AP)
    if not calib.get('buffers_zero_after_planning'):
        res.obs.append(Ob('FFTW calibration for N=%d' % N, 'inconclusive', detail=str(calib))); return
    fft = UFFFT(plans); ex = Exec(mod, snap, RealDom(), {'fftwf_execute': fft, UPDATE_SM: ext_noop}); st = State()
    P = sym_profiles(ex, st, R, n, nb); Z = sym_impedance(ex, st, R, N)
    sc = ex.run1(st, 'e_wakescaling', [R['field']]).retval
    # a wakePotential() that decides on the data (e.g. skips bins of an impedance that is exactly zero) forks: every path meets the same obligations
    for st in run_paths(ex, st, 'e_wake', [R['field']]):
        st.frames = []; account(res, ex, mod, [st])
        got = get_reals(ex, st, st.retval, nb * n)
        want, train = spec_wake(fft, N, n, nb, buckets, spacing, P, Z, ex.dom.z(sc))
        def cex(m): return {'replay': 'wake', 'n': n, 'N': N, 'spacing': spacing, 'buckets': list(buckets), 'rho': [mval(m, v) for v in P], 'z': [mval(m, c) for zz in Z for c in zz]}
        prove(res, 'n=%d N=%d buckets %s spacing %d: wake[b][x] == scaling * c2r( Z_k * r2c(train)_k for k < N/2, 0 above )[bucket_b*spacing + x] with train = profiles placed at bucket*spacing, zero elsewhere (all %d cells)' % (n, N, list(buckets), spacing, nb * n),
              st.pc, z3.Or(*[a != b for a, b in zip(got, want)]), key='wake-structure', cex_fn=cex)
        # sees only the non-negative-frequency half of the impedance
        subs = [(c, z3.Real(str(c) + '_alt')) for k in range(N // 2, N) for c in Z[k]]
        prove(res, 'n=%d N=%d: wake potential does not depend on impedance samples k >= N/2' % (n, N), st.pc, z3.Or(*[z3.substitute(g, *subs) != g for g in got]), key='wake-upper-half-unused')
        if N // 2 > 1:
            witness(res, 'wake term mentions Z_1, every profile cell and no impedance sample above N/2 (N=%d)' % N, [],
                    z3.BoolVal(occurs(got[0], Z[1][0]) and all(occurs(got[0], p) for p in P) and not any(occurs(g, c) for g in got for k in range(N // 2, N) for c in Z[k])))
        # WakePotentialMap::update hands bunch b's wake to bunch b's kick rows
        st2 = ex.run1(st, 'e_wpm_update', [R['wpm']]); frc = ex.run1(st2, 'e_force', [R['wpm']]).retval
        kick = get_reals(ex, st2, frc, nb * n); account(res, ex, mod, [st2])
        prove(res, 'n=%d N=%d buckets %s: WakePotentialMap::update copies the wake potential of bunch b, cell x into displacement row b*n+x (all %d)' % (n, N, list(buckets), nb * n), st2.pc,
              z3.Or(*[a != b for a, b in zip(kick, want)]), key='wake-kick-copy', cex_fn=cex)

def job_exact(res, n, N):
    """the same statement with FFTW's documented r2c/c2r written out exactly (N = 4, 8; one bunch in bucket 0): a model's profile is then a real profile, so a wakePotential() that decides
    on the transform's values (drops small bins, stops early) gets a counterexample the native replay can reproduce.  Every path of the call is followed (DESIGN 9.21)."""
    bld = field_build(); mod = load_module(bld, FIELD_MODS)
    snap, R, pre, plans, calib = field_world(bld, n, N, 0, (0,))
    ex = Exec(mod, snap, RealDom(), {'fftwf_execute': dft_exact(plans, (4, 8))}); st = State()
    ex.unknown_is_feasible = True; ex.branch_timeout = 4000
    RT = z3.Real('sqrt_half')
    if N == 8: st.pc += [RT * RT == Fraction(1, 2), RT > 0]
    P = sym_profiles(ex, st, R, n, 1); Z = sym_impedance(ex, st, R, N)
    sc = ex.dom.z(ex.run1(st, 'e_wakescaling', [R['field']]).retval)
    def tw(m):
        m %= N
        if N == 4: return {0: (1, 0), 1: (0, -1), 2: (-1, 0), 3: (0, 1)}[m]
        return {0: (1, 0), 1: (RT, -RT), 2: (0, -1), 3: (-RT, -RT), 4: (-1, 0), 5: (-RT, RT), 6: (0, 1), 7: (RT, RT)}[m]
    rho = P + [z3.RealVal(0)] * (N - n)
    Y = []
    for k in range(N // 2):
        re = sum([rho[j] * tw(j * k)[0] for j in range(N)], z3.RealVal(0)); im = sum([rho[j] * tw(j * k)[1] for j in range(N)], z3.RealVal(0))
        Y.append((Z[k][0] * re - Z[k][1] * im, Z[k][0] * im + Z[k][1] * re))
    want = []
    for j in range(n):
        v = Y[0][0]
        for k in range(1, N // 2):
            c, s_ = tw(-j * k); v = v + 2 * (Y[k][0] * c - Y[k][1] * s_)
        want.append(sc * v)
    zs = [c for zz in Z for c in zz]
    paths = run_paths(ex, st, 'e_wake', [R['field']])
    for pi, s1 in enumerate(paths):
        s1.frames = []; account(res, ex, mod, [s1])
        got = get_reals(ex, s1, s1.retval, n); pc = list(s1.pc)
        def cex(m, got=got, pc=pc):
            s = z3.Solver(); s.add(*pc); s.add(*[z3.And(v >= 0, v <= 4) for v in P]); s.add(*[z3.And(v >= -4, v <= 4) for v in zs])
            s.add(z3.Or(*[z3.Or(a - b > sc / 100, b - a > sc / 100) for a, b in zip(got, want)]))      # a deviation single precision resolves: 1 % of the wake of a unit charge at unit impedance
            r, dt = solve(s, 30000); res.queries += 1; res.solver_s += dt
            if r == z3.sat: m = s.model()
            return {'replay': 'wake', 'exact': True, 'n': n, 'N': N, 'spacing': 0, 'buckets': [0], 'rho': [mval(m, v) for v in P], 'z': [mval(m, c) for c in zs], 'resolved': r == z3.sat}
        prove(res, 'n=%d N=%d, exact DFT, path %d of %d of wakePotential: wake[x] == scaling * c2r( Z_k * r2c(profile)_k for k < N/2, 0 above )[x] for every profile and complex impedance (all %d cells)' % (n, N, pi + 1, len(paths), n),
              pc, z3.Or(*[a != b for a, b in zip(got, want)]), key='wake-exact-dft', cex_fn=cex)
    witness(res, 'exact wake mentions Z_1 (N=%d)' % N, [], z3.BoolVal(occurs(want[0], Z[1][0])))

FFT_PREP = ['_ZN3fft10prepareFFTEmPfPA2_f', '_ZN3fft10prepareFFTEmPA2_fPf']
def job_scaling(res, n, N, spacing, buckets):
    """the constructor (run from IR, FFTW planning stubbed) computes wakescaling == Ib*dt*c/(scale_m*delta_p*sigma_delta*E0)/N for symbolic machine parameters"""
    bld = field_build(); mod = load_module(bld, FIELD_MODS)
    snap, R, pre, plans, calib = field_world(bld, n, N, spacing, buckets)
    newplans = []
    def prep(kind):
        def f(ex, st, fr, args, ins):
            h = ex.malloc(st, 16); newplans.append((h, args[0], kind, args[1], args[2])); return h
        return f
    def alloc(width):
        def f(ex, st, fr, args, ins):
            a = ex.malloc(st, args[0] * width); ex.write_bytes(st, a, b'\xa5' * (args[0] * width)); return a      # fftw's allocator does not zero
        return f
    ext = {FFT_PREP[0]: prep(0), FFT_PREP[1]: prep(1), 'fftwf_alloc_real': alloc(4), 'fftwf_alloc_complex': alloc(8)}
    ex = Exec(mod, snap, RealDom(), ext); st = State()
    Ib, dt, E0, sd, frev = [z3.Real(x) for x in ('Ib', 'dt', 'E0', 'sigma_delta', 'f_rev')]; st.pc += [Ib > 0, dt > 0, E0 > 1000, sd > 0, frev > 0]
    st = ex.run1(st, 'e_new_field', [R['ps'], R['z'], R['bk'], spacing, frev, Fraction(f32(1e-3)), Ib, E0, sd, dt]); f = st.retval; account(res, ex, mod, [st])
    sc = ex.dom.z(ex.run1(st, 'e_wakescaling', [f]).retval)
    scm = Fraction(f32(2e-3)); dp = Fraction(f32(f32(12.0) / f32(n - 1)))
    want = Ib * dt * C_LIGHT / scm / (dp * sd * E0) / N
    prove(res, 'n=%d N=%d: wake scaling == Ib*dt*c/(scale_m * delta_p * sigma_delta * E0) / N for all machine parameters' % (n, N), st.pc,
          z3.Or(sc - want > want * Fraction(1, 10**6), sc - want < -want * Fraction(1, 10**6)), key='wake-scaling',
          cex_fn=lambda m: {'replay': 'scaling', 'got': mval(m, sc), 'want': mval(m, want), 'Ib': mval(m, Ib), 'dt': mval(m, dt), 'E0': mval(m, E0), 'sigma_delta': mval(m, sd)})
    # work buffers are explicitly zeroed by the constructor (fftw's allocator returns unzeroed memory in this run)
    bad = []
    for h, nn, kind, pin, pout in newplans:
        nin = nn if kind == 0 else 2 * nn; nout = 2 * nn if kind == 0 else nn
        for base, cnt in ((pin, nin), (pout, nout)):
            raw = ex.read_bytes(st, base, 4 * cnt)
            if any(raw) or any(a in st.sym for a in range(base, base + 4 * cnt, 4)): bad.append((kind, hex(base)))
    res.obs.append(Ob('n=%d N=%d: all four FFT work buffers (full allocated length) are zero after construction although the allocator returned 0xA5-filled memory (%d plans)' % (n, N, len(newplans)),
                      'holds' if not bad and len(newplans) == 2 else 'violated', key='buffers-zeroed', cex=None if not bad else {'nonzero': bad}))

def replayer(bld):
    def rp(path, c):
        if c.get('replay') != 'wake': return (True, 'structural: %s' % str(c)[:200])
        n, N, sp, bk = c['n'], c['N'], c['spacing'], c['buckets']; nb = len(bk)
        import random as _r; rr = _r.Random(11)
        rho = [float(v) if v else rr.uniform(0.1, 1) for v in c['rho']]; z = [float(v) if v else rr.uniform(-1, 1) for v in c['z']]
        if c.get('exact'): rho = [float(v) for v in c['rho']]; z = [float(v) for v in c['z']]      # exact-DFT models: the zeros are part of the counterexample
        for k in range(N // 2 + 1, N): z[2 * k] = z[2 * k + 1] = 0.0
        o = native_run(bld, {'n': n, 'N': N, 'spacing': sp, 'buckets': bk, 'ops': ['w'], 'prof0': rho, 'z': z}, 'c06')
        train = np.zeros(N)
        for b in range(nb): train[bk[b] * sp: bk[b] * sp + n] = rho[b * n:(b + 1) * n]
        F = np.fft.rfft(train); Y = np.zeros(N // 2 + 1, dtype=complex)
        for k in range(N // 2): Y[k] = complex(f32(z[2 * k]), f32(z[2 * k + 1])) * F[k]
        Wp = np.fft.irfft(Y, N) * N * o['wakescaling'][0]
        want = [Wp[bk[b] * sp + x] for b in range(nb) for x in range(n)]
        dev = max(abs(a - b) for a, b in zip(o['wake'], want)); scale = max(abs(v) for v in want) + 1e-300
        return (dev > 1e-4 * scale, 'native wake vs reference convolution: max dev %.3g of %.3g' % (dev, scale))
    return rp
def get_replayer(): return replayer(field_build())

def main(tier):
    chk = Check('C06', tier, '4/C06')
    bld = field_build()
    if tier == 'quick':
        cfgs = [(4, 8, 0, (0,)), (4, 12, 5, (1, 0)), (3, 12, 4, (0, 2)), (4, 9, 5, (0, 1)), (3, 11, 3, (2, 0, 1)), (5, 16, 5, (1, 2)), (4, 11, 5, (1,)), (3, 12, 4, (2,))]      # incl. one bunch in a bucket other than 0
    else:
        cfgs = [(4, N, 5, b) for N in (8, 9, 10, 11, 12, 16) for b in ((0,), (1,), (0, 1), (1, 0)) if max(b) * 5 + 4 <= N]
        cfgs += [(3, 12, 4, (0, 2)), (3, 11, 3, (2, 0, 1)), (3, 12, 3, (0, 1, 3)), (5, 16, 5, (1, 2)), (5, 20, 6, (0, 2)), (5, 17, 6, (2, 0)), (6, 24, 6, (3, 1)), (6, 32, 7, (0, 2)), (8, 50, 9, (1, 0)), (4, 64, 5, (3, 1)), (6, 40, 7, (2, 0, 4))]
    import c18
    jobs = [(job_structure, c) for c in cfgs] + [(job_scaling, c) for c in cfgs[:3]]
    jobs += [(job_exact, c) for c in (((3, 4), (5, 8)) if tier == 'quick' else ((2, 4), (3, 4), (4, 4), (3, 8), (4, 8), (5, 8), (6, 8), (8, 8)))]
    # the structure above is that of a call on a fresh object; that a later call computes the same (also where FFTW's c2r plan uses its input as scratch space, N = 24, and for an impedance table ending below the top frequency) is the history obligation
    jobs += [(c18.job_history, (4, 24, 0, (0,), 2, 400)), (c18.job_history, (4, 24, 5, (1, 0), 1, 0))]
    import c17 as _c17
    jobs += [(_c17.job_padded_lengths, (4, 4, True)), (_c17.job_padded_lengths, (4, 3, False))]      # what main hands the field: bucket numbers from the filling pattern, spacing and padded length (set-up slice of main)
    chk.bounds = {'configurations (n, N, spacing, bucket numbers)': cfgs, 'symbolic': 'every profile value of every bunch, every complex impedance sample (all N), machine parameters in the scaling obligation'}
    chk.assumptions = ['fftwf_execute = FFTW\'s documented r2c/c2r transforms, represented as uninterpreted functions of the whole input buffer (the specification uses the same functions: the obligation is on which cells feed them, which samples multiply which bins, what is read back and the scale)',
                       'linearity in the profiles and the shift property are properties of the DFT itself and follow from this structure; FFTW\'s numerical accuracy is outside the claim',
                       'complex multiply is the textbook formula (the NaN fallback __mulsc3 is unreachable for finite reals)', 'padded length / spacing computed in main: C17', 'OpenCL/clFFT path outside the claim']
    chk.stubs = ['fftwf_execute: uninterpreted', 'fft::prepareFFT / fftwf_alloc_*: handle + 0xA5-filled memory (scaling obligation only)', 'KickMap::updateSM no-op in the WakePotentialMap::update obligation']
    _r6 = replayer(bld); _r18 = c18.replayer(bld)
    chk.replayer = lambda path, c: (_r18 if c.get('replay') == 'history' else _r6)(path, c)
    chk.add(run_jobs(jobs, budget=600))
    chk.finish()

if __name__ == '__main__':
    main(sys.argv[1] if len(sys.argv) > 1 else 'quick')
