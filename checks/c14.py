"""C14 - Ctrl+C at any moment leaves a complete, consistent results file."""
import sys, os
sys.path.insert(0, os.path.dirname(os.path.abspath(__file__)))
from maps_common import *
import mainloop

def job_handler(res):
    """H1: the SIGINT handler only sets the flag (one volatile byte store of 1), calls nothing, allocates nothing"""
    bld = mainloop.main_build(); mod = load_module(bld, ['main'])
    cand = [n for n in mod.funcs if 'SIGINT_handler' in n]
    if len(cand) != 1:
        res.obs.append(Ob('Display::SIGINT_handler is present in main\'s translation unit', 'inconclusive', detail=str(cand))); return
    f = mod.funcs[cand[0]]; res.funcs[cand[0]] = fn_lines(mod, cand[0])
    ops = [i for b in f.order for i in f.blocks[b]]
    stores = [i for i in ops if i['op'] == 'store']; other = [i['op'] for i in ops if i['op'] not in ('store', 'ret')]
    ok = (len(stores) == 1 and stores[0]['ptr'] == ('global', mainloop.ABORT) and stores[0]['val'] == ('int', 1) and not other)
    res.obs.append(Ob('SIGINT handler: its only effect is the store Display::abort := 1; no call, no allocation, no read (async-signal-safe, idempotent under repeated signals): ops %s' % [i['op'] for i in ops],
                      'holds' if ok else 'violated', key='handler-only-sets-flag')); res.paths += 1; res.instrs += len(ops)
    # installed before anything else that can take long: first call in main is the clock read, the second installs the handler
    m = mod.funcs['main']; calls = []
    for b in m.order:
        for i in m.blocks[b]:
            if i['op'] in ('call', 'invoke') and i['callee'][0] == 'global' and not i['callee'][1].startswith('llvm.'): calls.append(i['callee'][1])
        if len(calls) >= 3: break
    res.obs.append(Ob('the handler is installed (signal(SIGINT, ...)) right at the start of main, before option parsing (first calls: %s)' % calls[:3], 'holds' if 'signal' in calls[:2] else 'violated', key='handler-installed-first'))

ALL_TUS = ['src/main.cpp', 'src/FFTWWrapper.cpp', 'src/HelperFunctions.cpp', 'src/IO/Display.cpp', 'src/IO/FSPath.cpp', 'src/IO/HDF5File.cpp', 'src/IO/ProgramOptions.cpp', 'src/PS/ElectricField.cpp', 'src/PS/PhaseSpace.cpp',
           'src/PS/PhaseSpaceFactory.cpp', 'src/SM/DriftMap.cpp', 'src/SM/DynamicRFKickMap.cpp', 'src/SM/FokkerPlanckMap.cpp', 'src/SM/Identity.cpp', 'src/SM/KickMap.cpp', 'src/SM/RFKickMap.cpp', 'src/SM/RotationMap.cpp',
           'src/SM/SourceMap.cpp', 'src/SM/WakeKickMap.cpp', 'src/SM/WakePotentialMap.cpp', 'src/Z/CollimatorImpedance.cpp', 'src/Z/ConstImpedance.cpp', 'src/Z/FreeSpaceCSR.cpp', 'src/Z/Impedance.cpp', 'src/Z/ImpedanceFactory.cpp',
           'src/Z/ParallelPlatesCSR.cpp', 'src/Z/ResistiveWall.cpp']
def all_build():
    tus = [t for t in ALL_TUS if os.path.exists(os.path.join(B.REPO, t))]
    extra = sorted(os.path.relpath(os.path.join(d, f), B.REPO) for d, _, fs in os.walk(os.path.join(B.REPO, 'src')) for f in fs if f.endswith('.cpp') and '/CL' not in d and '/GUI' not in d)
    return B.build(None, sorted(set(tus) | set(extra)), hdf5=1, link=False)

def job_signal_disposition(res):
    """"an interrupt at any moment" presupposes that the handler stays installed and the signal is never ignored or blocked: in the IR of every translation unit of the program the only call that
    touches signal handling is the one installation in main (the handler itself is obligation H1)"""
    bld = all_build(); import re as _re
    fam = ('signal', 'sigaction', 'sigprocmask', 'pthread_sigmask', 'sigsuspend', 'sigwait', 'sigwaitinfo', 'sigtimedwait', 'siginterrupt', 'sigblock', 'sigsetmask', 'sighold', 'sigignore', 'sigset', 'bsd_signal', 'sysv_signal', '__sysv_signal', 'signalfd')
    sites = []
    for name, path in sorted(bld['ll'].items()):
        cur = None; n = 0
        for ln in open(path):
            n += 1
            if ln.startswith('define '):
                m = _re.search(r'@("[^"]*"|[-\w.$]+)\(', ln); cur = m.group(1) if m else '?'
            m = _re.search(r'\b(?:call|invoke)\b[^@]*@(%s)\(' % '|'.join(fam), ln)
            if m: sites.append((name, cur, m.group(1), ln.strip()[:160]))
        res.instrs += n
    res.paths += len(bld['ll'])
    ok = len(sites) == 1 and sites[0][0] == 'main' and sites[0][1] == 'main' and sites[0][2] == 'signal' and 'SIGINT_handler' in sites[0][3] and 'i32 noundef 2' in sites[0][3]
    res.obs.append(Ob('in all %d translation units the only call that touches signal handling is main\'s signal(SIGINT, Display::SIGINT_handler): the handler is never replaced, the signal never ignored or blocked (found: %s)' % (len(bld['ll']), [(a, b, c) for a, b, c, d in sites]),
                      'holds' if ok else 'violated', key='signal-disposition', detail='' if ok else str(sites[:4]), cex=None if ok else {'replay': 'structural', 'sites': [list(x) for x in sites[:4]]}))

def _static_depends_on_args(bld, modname, gname):
    """backward slice in the parsed IR: does any value stored into the global `gname` (or handed to a call together with its address) derive from a parameter of the enclosing function?"""
    mod = load_module(bld, [modname])
    for f in mod.funcs.values():
        defs = {}; uses = []
        for b in f.order:
            for ins in f.blocks[b]:
                if ins.get('dst'): defs[ins['dst']] = ins
                txt = str(ins)
                if ("'%s'" % gname in txt or "'%s@" % gname in txt) and '__cxa_guard' not in txt: uses.append(ins)
        if not uses: continue
        params = {nm for _, nm in f.params}
        def operands(ins):
            out = []
            for k, v in ins.items():
                if k in ('op', 'dst', 'ty', 'ty2', 'bty', 'line', 'callee'): continue
                def walk(x):
                    if isinstance(x, tuple) and len(x) >= 2 and x[0] == 'local': out.append(x[1])
                    elif isinstance(x, (list, tuple)):
                        for y in x: walk(y)
                walk(v)
            return out
        seen = set(); work = []
        for ins in uses:
            if ins['op'] == 'load': continue      # reading the static is not initialising it
            work += operands(ins)
        while work:
            v = work.pop()
            if v in seen: continue
            seen.add(v)
            if v in params: return True
            d = defs.get(v)
            if d is not None: work += operands(d)
    return False

def job_process_state(res):
    """what an object computes must not depend on which object of the process came first: no translation unit of the program keeps hidden process-wide state - neither a function-local static inside a
    vfps function whose initial value depends on the arguments of the call that happens to come first (`this` included) nor a mutable file-scope static.  Census over the IR of every translation unit (class statics such as PhaseSpace::nx or
    Display::abort are declared interface, not hidden state)."""
    bld = all_build(); import re as _re
    found = []
    for name, path in sorted(bld['ll'].items()):
        n = 0
        for ln in open(path):
            n += 1
            if not (ln.startswith('@') and ' = ' in ln): continue
            g, body = ln.split(' = ', 1)
            if 'declare' in body[:10] or body.lstrip().startswith('external'): continue
            const = _re.search(r'\bconstant\b', body.split('{')[0].split('[')[0][:120]) is not None
            if '_ZZN4vfps' in g or '_ZZN12_GLOBAL__N_1' in g:
                # initialised once, by whichever call gets there first: hidden state iff what is stored depends on that call's arguments (`this` included); a table computed from constants only is not
                if not const and _static_depends_on_args(bld, name, g.strip().lstrip('@').strip('"')): found.append((name, g.strip('@ ')[:120], 'function-local static initialised from the arguments of the first call'))
            elif '_ZGVZ' in g: pass
            elif _re.match(r'@(_ZL|_ZN4vfpsL|_ZN12_GLOBAL__N_1)', g) and not const and 'comdat' not in body[:40]:
                found.append((name, g.strip('@ ')[:120], 'file-scope static'))
        res.instrs += n
    # the floating-point environment is process-wide (thread-wide) state as well: rounding mode, flush-to-zero / denormals-are-zero, trap masks - every bit-exactness claim (C02, C12) assumes the default one
    fpenv = []
    for name, path in sorted(bld['ll'].items()):
        cur = None
        for ln in open(path):
            if ln.startswith('define '):
                m = _re.search(r'@("[^"]*"|[-\w.$]+)\(', ln); cur = m.group(1) if m else '?'
            m = _re.search(r'\b(?:call|invoke)\b[^@]*@(llvm\.x86\.sse\.ldmxcsr|llvm\.set\.rounding|fesetround|fesetenv|feupdateenv|feenableexcept|fedisableexcept|fesetexceptflag|__fesetround|_controlfp|_control87)\(', ln)
            if m: fpenv.append((name, cur, m.group(1)))
    res.obs.append(Ob('no translation unit of the program changes the floating-point environment (rounding mode, flush-to-zero, denormals-are-zero, traps): found %d call(s)' % len(fpenv), 'holds' if not fpenv else 'violated',
                      key='fp-environment', detail=str(fpenv[:3]), cex=None if not fpenv else {'replay': 'structural', 'calls': [list(x) for x in fpenv[:4]]}))
    res.paths += len(bld['ll'])
    res.obs.append(Ob('no translation unit of the program (%d) keeps hidden process-wide state: no mutable function-local static in a vfps function, no mutable file-scope static (found %d)' % (len(bld['ll']), len(found)),
                      'holds' if not found else 'violated', key='process-wide-state', detail=str(found[:3]), cex=None if not found else {'replay': 'structural', 'statics': [list(x) for x in found[:6]]}))

def main(tier):
    chk = Check('C14', tier, '4/C14')
    import c10
    jobs = [(job_handler, ()), (job_signal_disposition, ())] + mainloop.jobs_for('C14', tier)
    # what an append event does to the file (the summary the trace obligations rely on): every kind of append extends exactly its datasets by one record, whatever the time label
    jobs += [(c10.job_append, c) for c in ((4, 1, 8, 2), (4, 2, 12, 2))]
    K = 2 if tier == 'quick' else 3
    chk.bounds = {'loop iterations per path': K, 'interrupt points': 'every evaluation of the loop test (the flag is a fresh, monotone boolean at each volatile read), i.e. before the first step, between any two steps, and after the last step; plus every other place where main reads the flag (explored with the flag set)',
                  'symbolic': 'laststep, outstep, renormalize, SavePhaseSpace, steps, presence of results file / wake map / dynamic RF / tracking'}
    chk.assumptions = ['because the handler only sets the flag (obligation H1), an interrupt between any two statements is observationally the first later read returning true',
                       'system calls interrupted by the signal are restarted (signal() installs SA_RESTART on glibc); exceptions from HDF5 are outside', 'library code (libhdf5, FFTW, boost) does not change the disposition of SIGINT',
                       'that all time-indexed datasets get one record per append is C10-G1; that each record equals the uninterrupted run\'s follows from the loop being deterministic and the prefix property of the explored path tree (same decisions, same events)',
                       'calls are events (callee + arguments); their effects on the file come from the C10 summaries']
    chk.stubs = ['every call in main that is not arithmetic: event returning a fresh value (const std:: helpers memoised on their arguments)', 'volatile read of Display::abort: fresh monotone boolean']
    chk.replayer = c10.replayer(c10.h5_build())
    _rs = run_jobs(jobs, budget=1500 if tier == 'quick' else 6000); _rs.append(mainloop.loop_witness(_rs, 'C14')); chk.add(_rs)
    chk.finish()

if __name__ == '__main__':
    main(sys.argv[1] if len(sys.argv) > 1 else 'quick')
