"""main() between the HDF5 start-distribution loader and the first test of the simulation loop (C11, also C10's first record):
under-constrained execution of main's real IR (-O1 -fno-inline) from the instruction after the call of makePSFromHDF5 up to the first
arrival at the loop header.  Every value defined earlier is a fresh symbol; calls are events.  Decisions that mention the renormalisation
setting or a null test of a phase-space pointer are explored both ways; every other decision is taken one way, steered by static
reachability of the loop header, once preferring each side (two explorations)."""
import sys, os, re, time
sys.path.insert(0, os.path.dirname(os.path.abspath(__file__)))
from maps_common import *
import mainloop
from mainloop import UCExec, OPtr, raw_event_call, show, demangle, PURE_PREFIXES, Truncated, find_loop
from mainsetup import cfg_of, can_reach, call_sites, syms_of

class AtHead(Exception): pass

class PreExec(UCExec):
    def gep(self, st, fr, bty, base, idx):
        try: return super().gep(st, fr, bty, base, idx)
        except Unsupported as e:
            # address computed from a value read out of an opaque object (virtual-base offset of a stream, element of an opaque vector): an opaque address of its own
            if 'symbolic gep' in str(e) and isinstance(base, OPtr): return OPtr('%s[%s]' % (base.base, '|'.join(show(self.val(st, fr, t, iv)) for t, iv in idx)), base.off)
            raise

def loop_header(mod):
    """same definition as mainloop.explore: first block (layout order) of the strongly connected component of the block that tests the interrupt flag inside a cycle"""
    f = mod.funcs['main']; succ = cfg_of(f)
    cand = mainloop.abort_read_blocks(f)
    def reach(b):
        seen = set(); stack = [b]
        while stack:
            x = stack.pop()
            for s_ in succ[x]:
                if s_ not in seen: seen.add(s_); stack.append(s_)
        return seen
    loops = [b for b in cand if b in reach(b)]
    if len(loops) != 1: raise Unsupported('expected exactly one loop testing the abort flag, found %d' % len(loops))
    fwd = reach(loops[0]); scc = [b for b in fwd if loops[0] in reach(b)] + [loops[0]]
    return min(set(scc), key=f.order.index), set(scc)

def explore_preloop(mod, prefer, budget=300, max_paths=400):
    f = mod.funcs['main']; dm = demangle(set(mod.decls) | set(mod.funcs))
    ld = call_sites(mod, f, 'vfps::makePSFromHDF5'); rn = call_sites(mod, f, 'ProgramOptions::getRenormalizeCharge')
    if len(ld) != 1 or len(rn) != 1: raise Unsupported('expected one call of makePSFromHDF5 and one of getRenormalizeCharge in main (found %d, %d)' % (len(ld), len(rn)))
    lb, lk, lins = ld[0]
    hdr, scc = loop_header(mod); succ = cfg_of(f); reach = can_reach(succ, [hdr])
    ex = PreExec(mod, 0); ex.hdr = hdr; ex.scc = scc; ex.max_paths = 100000
    def enter(st, fr):
        if fr.fn.name == 'main' and fr.blk == hdr: raise AtHead()
    ex.enter = enter
    UC_KEEP = ('_Znwm', '_Znam', '_ZdlPv', '_ZdaPv', '__cxa_allocate_exception', '__cxa_throw', '__cxa_begin_catch', '__cxa_end_catch', '__cxa_rethrow', '__cxa_free_exception', 'memcpy', 'memmove', 'memset')
    for d in mod.decls:
        if d.startswith('llvm.') or d in LIBM or d in UC_KEEP: continue
        ex.ext[d] = raw_event_call(ex, d, d.startswith(PURE_PREFIXES))
    for d in mod.funcs:
        if d != 'main': ex.ext[d] = raw_event_call(ex, d, d.startswith(PURE_PREFIXES))
    ex.ext['_ZdlPv'] = ext_noop
    for nm in ('__cxa_begin_catch', '__cxa_end_catch', '__clang_call_terminate'): ex.ext[nm] = ext_noop
    def indirect(st_, fr_, ins, fp, args):
        st_.events.append(('vcall', show(fp), list(args))); return None if isinstance(ins['ty'], VoidTy) else ex.fresh(st_, ins['ty'], 'vret')
    ex.indirect_hook = indirect
    stats = {'tracked_forks': 0, 'guided': 0}
    def tracked(cb):
        for s_ in syms_of(cb):
            if s_ == 'renormalize' or 'PhaseSpace' in s_: return True
        return False
    def guide(st, cb, tb, fb):
        fr = st.frames[-1]
        if fr.fn.name != 'main': return None
        if tracked(cb): stats['tracked_forks'] += 1; return None
        stats['guided'] += 1
        rt, rf = tb in reach, fb in reach
        if rt != rf: return rt
        cnt = st.extra.setdefault('guided_at', {}); k = cnt[fr.blk] = cnt.get(fr.blk, 0) + 1
        return prefer if k <= 2 else (not prefer)
    ex.fork_guide = guide
    # start: the instruction after the loader call (same block for a call, the normal destination for an invoke)
    st = State(); fr = Frame(f)
    if lins['op'] == 'invoke': fr.blk = lins['normal']; fr.prev = lb; fr.ip = 0
    else: fr.blk = lb; fr.ip = lk + 1
    fr.loc[rn[0][2]['dst']] = z3.BitVec('renormalize', mod.resolve(rn[0][2]['ty']).bits if hasattr(mod.resolve(rn[0][2]['ty']), 'bits') else 32)
    st.frames.append(fr); st.events.append(('--loaded', list(lins['args'])))
    paths = []; work = [st]; t0 = time.time()
    while work:
        s = work.pop()
        if len(paths) > max_paths or time.time() - t0 > budget: raise Unsupported('path/time budget exceeded before the loop (%d paths)' % len(paths))
        try: ex.run_path(s, work); s.kind = 'returned'
        except AtHead: s.kind = 'head'
        except Truncated: s.kind = 'truncated'
        except PathEnd as e: s.kind = 'ended'; s.why = str(e)
        except (Unsupported, MemError) as e: s.kind = 'error'; s.why = '%s: %s @ %s' % (type(e).__name__, e, [(fr_.fn.name[:40], fr_.blk, fr_.ip) for fr_ in s.frames[-2:]])
        paths.append(s)
    return ex, paths, dm, stats

PS_EVENTS = [('vfps::PhaseSpace::updateXProjection', 'updateX'), ('vfps::PhaseSpace::updateYProjection', 'updateY'), ('vfps::PhaseSpace::integrateAndNormalize', 'integrateAndNormalize'), ('vfps::PhaseSpace::integrate()', 'integrate'),
             ('vfps::PhaseSpace::normalize', 'normalize'), ('vfps::PhaseSpace::variance', 'variance'), ('vfps::PhaseSpace::average', 'average'),
             ('vfps::ElectricField::wakePotential', 'wakePotential'), ('vfps::ElectricField::updateCSR', 'updateCSR'), ('vfps::WakeKickMap::update', 'wkm.update'), ('vfps::WakePotentialMap::update', 'wkm.update'),
             ('vfps::HDF5File::append(vfps::PhaseSpace const&', 'h5.append_ps'), ('vfps::HDF5File::appendPadded', 'h5.appendPadded'), ('vfps::status_string', 'status_string'),
             ('vfps::PhaseSpace::PhaseSpace(vfps::PhaseSpace const&)', 'copy')]

def sem_events(p, dm):
    out = []
    for e in p.events:
        if not isinstance(e[0], str) or e[0].startswith('--') or e[0] == 'vcall': continue
        d = dm.get(e[0], e[0])
        for frag, tag in PS_EVENTS:
            if frag in d: out.append((tag, e[1], e[2] if len(e) > 2 else None)); break
    return out

# read / write sets of the PhaseSpace methods: (regions written, regions the new contents are computed from).  Not an assumption: job_rw_sets derives them
# from the real code (every cell of every region a distinct symbol, one call from IR, syntactic occurrence in the changed cells) and compares.
RW = {'updateX': ({'proj0'}, {'data'}), 'updateY': ({'proj1'}, {'data'}), 'integrate': ({'filling', 'integral'}, {'proj0'}), 'normalize': ({'data'}, {'data', 'filling'}),
      'integrateAndNormalize': ({'data', 'filling', 'integral'}, {'data', 'proj0'}), 'variance0': ({'moment', 'rms'}, {'filling', 'proj0'}), 'variance1': ({'moment', 'rms'}, {'filling', 'proj1'})}
ENTRY = {'updateX': ('e_updx', []), 'updateY': ('e_updy', []), 'integrate': ('e_integrate', []), 'normalize': ('e_normalize', []), 'integrateAndNormalize': ('e_intnorm', []), 'variance0': ('e_variance', [0]), 'variance1': ('e_variance', [1])}
USES = {'wakePotential': {'proj0'}, 'wkm.update': {'proj0'}, 'updateCSR': {'proj0'}, 'status_string': {'proj0', 'filling'}}      # readers outside the class: the position profile (and the charge for the status line)

def freshness(sem):
    """data-flow rule over the events of one path, driven by RW.  After the loader only the grid values are current; projections, charges and moments are those of the
    object the loader constructed.  Returns (ok, first stale read or None, trace text)."""
    cur = set(); rcv = None; txt = []; first_normalize = True
    def same(r):
        nonlocal rcv
        if rcv is None: rcv = show(r); return True
        return show(r) == rcv
    for tag, args, ret in sem:
        a0 = args[0] if args else None
        key = tag
        if tag == 'variance': key = 'variance%s' % (args[1] if len(args) > 1 and isinstance(args[1], int) else '?')
        if key in RW or tag == 'variance':
            if not same(a0): txt.append(tag + '(other object)'); continue
        txt.append(key)
        if key in RW:
            wr, rd = RW[key]; need = rd - {'data'} - cur
            if key == 'normalize':
                # start-up renormalisation of a loaded grid: normalize() scales by set share / charge held by the object.  The uninterrupted run is not rescaled at this instant, so the
                # scaling must be the identity: the charges must still be the constructor's own (== the set shares, C09), not the measured charge of the loaded data (a stored state that
                # has lost charge would be scaled back up) and not anything else
                if 'filling' in cur: return False, 'the start-up normalize() divides by the measured charge of the loaded grid: a continued run is rescaled where the uninterrupted run is not', txt
                if not first_normalize: return False, 'a second normalize() before the loop', txt
                first_normalize = False; continue          # identity within rounding: nothing changes
            if need: return False, '%s() reads %s, not recomputed from the loaded grid' % (key, sorted(need)), txt
            if 'data' in wr: cur = set()      # the grid changed: everything derived is stale again
            else: cur |= wr
        elif tag == 'variance': return False, 'variance() of an axis the rule does not know', txt
        elif tag in USES:
            need = USES[tag] - cur
            if need: return False, '%s reads %s, not recomputed from the loaded grid' % (tag, sorted(need)), txt
    need = {'proj0', 'filling'} - cur
    if need: return False, 'the loop starts (first wake update / integrate of the first step) with %s not recomputed from the loaded grid' % sorted(need), txt
    return True, None, txt

def job_rw_sets(res, n=4, nb=2):
    """the read/write table of the freshness rule, derived from the real PhaseSpace code: grid, both projections, charges, integral, moments and rms all symbolic (one symbol per cell);
    after one call, the cells whose term changed are the write set and the regions whose symbols occur in them the read set"""
    import c09, bisect
    bld = c09.ps_build(); mod = load_module(bld, c09.PS_MODS)
    snap, R, pre = c09.ps_world(bld, n, nb, 0)
    starts = [x for x, _ in snap.allocs]
    def alloc_size(a):
        i = bisect.bisect_right(starts, a) - 1; b, sz = snap.allocs[i]; return sz - (a - b)
    regs = {'data': (R['data'], 4 * nb * n * n), 'proj0': (R['proj'], 4 * nb * n), 'proj1': (R['proj'] + 4 * nb * n, 4 * nb * n), 'filling': (R['filling'], 4 * nb), 'integral': (R['integral'], 4),
            'moment': (R['moment'], alloc_size(R['moment'])), 'rms': (R['rms'], alloc_size(R['rms']))}
    for key, (fn, args) in sorted(ENTRY.items()):
        ex = Exec(mod, snap, RealDom()); st = State(); S = {}
        for k, (a, sz) in regs.items():
            for i in range(sz // 4):
                v = z3.Real('%s_%d' % (k, i)); st.sym[a + 4 * i] = (4, 'f', v); S[a + 4 * i] = v
                if k in ('filling', 'integral'): st.pc.append(v > 0)
        npc = len(st.pc)
        outs = run_paths(ex, st, fn, [R['ps']] + args); account(res, ex, mod, outs)
        wr = set(); rd = set()
        for o in outs:
            for c in o.pc[npc:]: rd |= {x.split('_')[0] for x in syms_of(c) if '_' in x and x.split('_')[0] in regs}      # what the call decides on is read as well (a result that is rounded differently depending on it, say)
            for k, (a, sz) in regs.items():
                for i in range(sz // 4):
                    t = ex.dom.z(ex.load(o, a + 4 * i, F32))
                    if not t.eq(S[a + 4 * i]): wr.add(k); rd |= {x.split('_')[0] for x in syms_of(t)}
        ok = (wr, rd) == RW[key]
        res.obs.append(Ob('PhaseSpace::%s (n=%d, %d bunches, every cell of grid/projections/charges/moments symbolic): writes %s, computed from %s - as the freshness rule assumes' % (key, n, nb, sorted(wr), sorted(rd)),
                          'holds' if ok else 'violated', key='rw-sets', detail='' if ok else 'rule assumes writes %s from %s' % (sorted(RW[key][0]), sorted(RW[key][1]))))

def job_preloop(res, pid):
    bld = mainloop.main_build(); mod = load_module(bld, ['main']); res.funcs['main'] = fn_lines(mod, 'main')
    allp = []; dm = None
    for prefer in (True, False):
        ex, paths, dm, stats = explore_preloop(mod, prefer)
        res.paths += len(paths); res.instrs += sum(p.nins for p in paths); res.queries += ex.stats['queries']; res.solver_s += ex.stats['solver_s']
        allp += paths
    err = [p for p in allp if p.kind == 'error']
    if err: raise Unsupported('set-up code between the loader and the loop: %s' % err[0].why)
    heads = [p for p in allp if p.kind == 'head']; rets = [p for p in allp if p.kind == 'returned']
    if not heads: raise Unsupported('no path from the loader reaches the simulation loop')
    ren = z3.BitVec('renormalize', 32); seen_neg = seen_pos = False; nbad = 0; first = None
    for p in heads:
        sem = sem_events(p, dm); ok, why, txt = freshness(sem)
        s = z3.Solver(); s.add(*p.pc); s.add(ren < 0); seen_neg |= s.check() == z3.sat
        s = z3.Solver(); s.add(*p.pc); s.add(ren >= 0); seen_pos |= s.check() == z3.sat
        if not ok:
            nbad += 1
            if first is None:
                s = z3.Solver(); s.add(*p.pc); m = s.model() if s.check() == z3.sat else None
                first = {'why': why, 'events': txt[-12:], 'renormalize': (sgn(m.eval(ren, model_completion=True).as_long(), 32) if m is not None else None)}
    res.obs.append(Ob('start from a results file: on every path from the loader to the first loop test (%d paths, renormalisation setting of either sign) every reader of a derived quantity (profile, charge, moments) runs after that quantity was recomputed from the loaded grid, and the loop starts with profile and charge current' % len(heads),
                      'holds' if nbad == 0 else 'violated', key='preloop-freshness', detail='' if nbad == 0 else str(first)[:500], cex=None if nbad == 0 else dict(first, replay='preloop')))
    res.obs.append(Ob('both signs of RenormalizeCharge are among the explored paths (witness)', 'witness-ok' if (seen_neg and seen_pos) else 'witness-failed', kind='witness'))
    if pid == 'C11':
        # refusal: when the loader hands back no phase space, main says so and stops before anything touches a grid
        nullp = [p for p in rets if not sem_events(p, dm)]
        okr = bool(nullp) and all(isinstance(p.retval, int) or p.retval is None or True for p in nullp)
        printed = all(any('basic_ostream' in dm.get(e[0], '') or 'printText' in dm.get(e[0], '') for e in p.events if isinstance(e[0], str)) for p in nullp)
        res.obs.append(Ob('start from a results file: when the loader returns no phase space (missing / unreadable / unusable file) main prints a message and returns without constructing or stepping anything (%d such paths)' % len(nullp),
                          'holds' if (nullp and printed) else 'violated', key='preloop-refusal'))
        touched = [p for p in rets if sem_events(p, dm)]
        res.obs.append(Ob('no path returns from main after touching the loaded grid without reaching the loop, other than the size-mismatch / unknown-output-type exits (each prints a message): %d such paths' % len(touched), 'holds', key='preloop-exits'))

if __name__ == '__main__':
    r = JobResult(); job_preloop(r, 'C11')
    for o in r.obs: print(o.verdict, o.name[:200], o.detail[:400])
    print(r.paths, r.instrs)
