"""C18 - wake and CSR spectrum depend on the current profile only, not on past calls."""
import sys, os, itertools
sys.path.insert(0, os.path.dirname(os.path.abspath(__file__)))
from field_common import *

OPS = {'w': 'e_wake', 'p': 'e_pad', 'c': 'e_csr', 'C': 'e_csr(other cutoff)'}

def set_profile(ex, st, R, n, nb, tag):
    vs = []
    for i in range(nb * n):
        v = z3.Real('%s_%d' % (tag, i)); st.sym[R['proj0'] + 4 * i] = (4, 'f', v); vs.append(v)
    return vs

def zset(st, R, N, tag, ztail=0):
    """the impedance object the field shares holds arbitrary values `tag`: all N samples (the harness' random table is zero above N/2, as the built-in models are - a full-length user table
    is not; the wake potential never reads the upper half (C06), the CSR spectrum is formed over all N bins), except the exact zeros of a table that ends below the top frequency (ztail)"""
    for k in range(N):
        if ztail and N // 2 - ztail < k <= N // 2: continue
        st.sym[R['zdata'] + 8 * k] = (4, 'f', z3.Real('%s%d_re' % (tag, k))); st.sym[R['zdata'] + 8 * k + 4] = (4, 'f', z3.Real('%s%d_im' % (tag, k)))
    return st
def zstate(R, N, tag='zc', ztail=0): return zset(State(), R, N, tag, ztail)

CUT_ON = Fraction(f32(3e11))
def do_ops(ex, st, R, op, cutoff):
    """every path of one call (a call that decides on the data forks)"""
    if op == 'c': r = run_paths(ex, st, 'e_csr', [R['field'], cutoff])
    elif op == 'C': r = run_paths(ex, st, 'e_csr', [R['field'], Fraction(0) if cutoff else CUT_ON])      # an earlier CSR computation with the other cutoff setting
    else: r = run_paths(ex, st, OPS[op], [R['field']])
    for x in r: x.frames = []
    return r
def do_op(ex, st, R, op, cutoff):
    r = do_ops(ex, st, R, op, cutoff)
    if len(r) != 1: raise Unsupported('%s: expected one path, got %d' % (OPS[op], len(r)))
    return r[0]

def observe(ex, st, R, op, n, nb, N):
    if op == 'w':
        return get_reals(ex, st, st.retval, nb * n)
    if op == 'p':
        return get_reals(ex, st, R['bp_padded'], N)
    sp = get_reals(ex, st, st.retval, nb * N)
    pw = ex.run1(st, 'e_csrpower', [R['field']]).retval
    return sp + get_reals(ex, st, pw, nb)

def job_history(res, n, N, spacing, buckets, maxlen, cutoff_on):
    bld = field_build(); mod = load_module(bld, FIELD_MODS)
    flag = cutoff_on if (isinstance(cutoff_on, int) and cutoff_on >= 10) else (1 if cutoff_on else 0)      # 100 * (exact zeros at the top of the impedance) + cutoff on
    ztail = flag // 100; cutoff_on = flag % 10
    snap, R, pre, plans, calib = field_world(bld, n, N, spacing, buckets, flag)
    nb = len(buckets)
    c2r_ok = calib.get('c2r_input_preserved') or (calib.get('c2r_inplace') and calib.get('c2r_inplace_tail_preserved')) or calib.get('c2r_changed_lo', -1) >= 0      # input used as scratch space: modelled (the cells the native run changed become unknown)      # in place: the model writes the outputs over the input cells exactly as the plan does (same addresses); the cells beyond stay
    if not (c2r_ok and calib.get('buffers_zero_after_planning')):
        res.obs.append(Ob('FFTW calibration (planning leaves zeroed buffers zero; c2r leaves its input unchanged) for N=%d' % N, 'inconclusive', detail=str(calib))); return
    AP = {k: 3e-5 for k in ('wake', 'csr', 'csrpower', 'wake2', 'wpm_force')}
    # with a c2r plan that uses its input as scratch space, results of later calls can depend on FFTW's scratch values (they must not: that is the obligation below); the concrete
    # model cannot reproduce those values, so only the first calls are validated bit for bit there
    clob = any(p_.get('clobber') for p_ in plans.values())
    validate(res, mod, snap, pre, {'fftwf_execute': fft_concrete(plans)}, approx=AP, skip=('wake2', 'wpm_force') if clob else ())
    cutoff = Fraction(f32(3e11)) if cutoff_on else Fraction(0)
    # reference: a fresh object on the current profile - every path of the query, each with its own result
    fresh = {}
    for q in 'wpc':
        fft = UFFFT(plans); ex = Exec(mod, snap, RealDom(), {'fftwf_execute': fft}); st = zstate(R, N, 'zc', ztail)
        set_profile(ex, st, R, n, nb, 'cur')
        fresh[q] = [(s1.pc, observe(ex, s1, R, q, n, nb, N)) for s1 in do_ops(ex, st, R, q, cutoff)]
        account(res, ex, mod, [])
    hist = [h for L in range(1, maxlen + 1) for h in itertools.product('wpcC', repeat=L)]
    for h in hist:
        fft = UFFFT(plans); ex = Exec(mod, snap, RealDom(), {'fftwf_execute': fft}); states = [zstate(R, N, 'zo', ztail)]      # during the history the shared impedance object holds other values than at the query (Impedance::operator+= / operator= between two calls)
        for j, op in enumerate(h):
            nxt = []
            for st in states:
                set_profile(ex, st, R, n, nb, 'old%d' % j); nxt += do_ops(ex, st, R, op, cutoff)
            states = nxt
        for q in 'wpc':
            for st in states:
                s2 = st.fork(); s2.frames = []
                cur = set_profile(ex, s2, R, n, nb, 'cur'); zset(s2, R, N, 'zc', ztail)
                for s3 in do_ops(ex, s2, R, q, cutoff):
                    got = observe(ex, s3, R, q, n, nb, N); account(res, ex, mod, [s3])
                    def cex(m, h=h, q=q): return {'replay': 'history', 'n': n, 'N': N, 'spacing': spacing, 'buckets': list(buckets), 'history': list(h), 'query': q, 'cutoff': float(cutoff), 'cutoff2': 0.0 if cutoff else float(CUT_ON), 'ztail': ztail, 'z': [mval(m, z3.Real('zo%d_%s' % (k, c))) for k in range(N) for c in ('re', 'im')], 'zlast': [mval(m, z3.Real('zc%d_%s' % (k, c))) for k in range(N) for c in ('re', 'im')],
                                                    'profiles': [[(mval(m, z3.Real('old%d_%d' % (j, i))) or 0.0) for i in range(nb * n)] for j in range(len(h))], 'cur': [mval(m, v) for v in cur]}
                    # the fresh object's result on the same current profile: the reference path whose condition the current profile satisfies
                    differs = z3.Or(*[z3.And(z3.And(*fpc) if fpc else z3.BoolVal(True), z3.Or(*[a != b for a, b in zip(got, fgot)])) for fpc, fgot in fresh[q]])
                    prove(res, 'n=%d N=%d buckets %s spacing %d: after history %s the result of %s for the current profile == that of a fresh object (%d cells)' % (n, N, list(buckets), spacing, ''.join(h), OPS[q], len(got)),
                          s3.pc, differs, key='history-%s-then-%s' % (h[-1], q), cex_fn=cex)
    # witness: the result does depend on the current profile
    fft = UFFFT(plans); ex = Exec(mod, snap, RealDom(), {'fftwf_execute': fft}); st = State(); cur = set_profile(ex, st, R, n, nb, 'cur')
    st = do_op(ex, st, R, 'w', cutoff); w = observe(ex, st, R, 'w', n, nb, N)
    witness(res, 'wake potential depends on the current profile (N=%d)' % N, [], z3.substitute(w[0], (cur[0], z3.Real('alt'))) != w[0])

def replayer(bld):
    def rp(path, c):
        n, N = c['n'], c['N']
        base = {'n': n, 'N': N, 'spacing': c['spacing'], 'buckets': c['buckets'], 'cutoff': c.get('cutoff', 0.0), 'cutoff2': c.get('cutoff2', 0.0), 'ztail': c.get('ztail', 0)}
        zl = [float(x) for x in c['zlast']] if c.get('zlast') else None
        # concrete profiles: model values may be 0 everywhere except a few cells; make the old profiles clearly different from the current one
        import random as _r; rr = _r.Random(5)
        olds = [[float(v) if v else rr.uniform(0.1, 1.0) for v in p] for p in c['profiles']]; cur = [float(v or 0.0) for v in c['cur']]      # earlier profiles: generic where the model left them open; the current profile exactly as the model has it (an empty or negative profile may be what matters)
        a = dict(base); a['ops'] = list(c['history']) + [c['query']]
        if zl: a['z'] = [float(x) for x in c['z']]; a['zlast'] = zl
        for j, p in enumerate(olds): a['prof%d' % j] = p
        a['prof%d' % len(olds)] = cur
        b = dict(base); b['ops'] = [c['query']]; b['prof0'] = cur
        if zl: b['z'] = zl
        key = {'w': 'wake', 'p': 'padded', 'c': 'csr'}[c['query']]
        def attempt(a, b):
            ra = native_run(bld, a, 'c18a'); rb = native_run(bld, b, 'c18b')
            va = ra[key]; va = va[-1] if isinstance(va[0], list) else va; vb = rb[key]
            same = all(struct.pack('<f', x) == struct.pack('<f', y) for x, y in zip(va, vb))
            if key == 'csr' and same:
                pa = ra['csrpower']; pa = pa[-1] if isinstance(pa[0], list) else pa
                same = pa == rb['csrpower']
            return same, max(abs(x - y) for x, y in zip(va, vb)), max(abs(y) for y in vb)
        same, dev, mx = attempt(a, b)
        if same and zl:
            # the model's impedance values (often zeros where the solver did not care) may hide a dependence on the history that a generic table shows: second attempt with the harness' own random table
            a2 = {k: v for k, v in a.items() if k not in ('z', 'zlast')}; b2 = {k: v for k, v in b.items() if k != 'z'}
            same, dev, mx = attempt(a2, b2)
        return (not same, 'native: %s after history %s differs from a fresh object by %.3g (max |x| %.3g)' % (key, ''.join(c['history']), dev, mx))
        ra = native_run(bld, a, 'c18a'); rb = native_run(bld, b, 'c18b')
        va = ra[key]; va = va[-1] if isinstance(va[0], list) else va; vb = rb[key]
        same = all(struct.pack('<f', x) == struct.pack('<f', y) for x, y in zip(va, vb))
        if key == 'csr' and same:
            pa = ra['csrpower']; pa = pa[-1] if isinstance(pa[0], list) else pa
            same = pa == rb['csrpower']
        dev = max(abs(x - y) for x, y in zip(va, vb))
        return (not same, 'native: %s after history %s differs from a fresh object by %.3g (max |x| %.3g)' % (key, ''.join(c['history']), dev, max(abs(y) for y in vb)))
    return rp
def get_replayer(): return replayer(field_build())

def main(tier):
    chk = Check('C18', tier, '4/C18')
    bld = field_build()
    if tier == 'quick':
        cfgs = [(4, 8, 0, (0,), 2, 0), (4, 12, 5, (1, 0), 2, 0), (4, 11, 5, (1,), 2, 0), (3, 12, 4, (0, 2), 2, 1), (4, 9, 5, (0, 1), 2, 0), (4, 24, 5, (1, 0), 2, 0), (4, 24, 0, (0,), 2, 400)]      # 24: a length whose c2r plan uses its input as scratch space; 400: impedance table ending four samples below the top
    else:
        cfgs = [(4, N, 5, b, 3, c) for N in (8, 9, 11, 12, 16) for b in ((0,), (1,), (0, 1), (1, 0)) if max(b) * 5 + 4 <= N for c in (0, 1)]
        cfgs += [(3, 12, 4, (0, 2), 3, 0), (3, 12, 4, (2, 0, 1), 2, 0), (4, 15, 5, (2, 0), 3, 1), (5, 17, 6, (0, 2), 2, 0)]
        cfgs += [(4, 24, 5, (1, 0), 3, 0), (4, 24, 0, (0,), 3, 400), (4, 32, 5, (0, 1), 2, 0), (6, 48, 7, (2, 0), 2, 1), (4, 50, 5, (0,), 2, 0), (4, 8, 0, (0,), 4, 0), (3, 12, 4, (0, 2), 4, 1)]      # lengths whose c2r plan destroys its input, a short impedance table, histories of length 4
    jobs = [(job_history, c) for c in cfgs]
    import c14 as _c14
    jobs += [(_c14.job_process_state, ())]      # results must not depend on which object of the process came first (function-local / file-scope statics)
    chk.bounds = {'configurations (n, N, spacing, bucket numbers, history length, cutoff on)': cfgs, 'histories': 'every sequence of wakePotential / padBunchProfiles / updateCSR (with the configured and with the other cutoff setting) up to the stated length, each with its own arbitrary profile, followed by each of the three queries',
                  'transform lengths': 'powers of two, composite and prime N up to 17, plus 24, 32, 48, 50 (c2r plans that use their input as scratch space)'}
    chk.assumptions = ['fftwf_execute is an uninterpreted function of its entire input buffer (so any stale cell changes the result term); r2c writes cells 0..N/2 of its output, c2r reads cells 0..N/2 and leaves its input unchanged',
                       'that c2r input-preservation and "planning leaves the zero-initialised buffers zero" are calibrated natively for every configuration when the snapshot is taken; otherwise the check is inconclusive',
                       'floats as reals (bit-identity follows from term identity: identical expression trees evaluate identically)', 'OpenCL/clFFT path outside the claim']
    chk.stubs = ['fftwf_execute: uninterpreted functions per output cell', 'exp/pow (cutoff): uninterpreted']
    chk.replayer = replayer(bld)
    chk.add(run_jobs(jobs, budget=900 if tier == 'quick' else 3000))
    chk.finish()

if __name__ == '__main__':
    main(sys.argv[1] if len(sys.argv) > 1 else 'quick')
