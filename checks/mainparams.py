"""Parameters main() hands to the transport maps (C03: rotation angle and slip factors, C04: damping decrement): the set-up slice of main (mainsetup.explore_setup) extended to the
construction of the Fokker-Planck map.  The step count is whatever integer main converts to floating point and divides 2*pi by (found in the IR by its definition, evaluated on the path)."""
import sys, os
sys.path.insert(0, os.path.dirname(os.path.abspath(__file__)))
from maps_common import *
import mainsetup as ms
from mainloop import demangle, show

TWO_PI = Fraction(884279719003555, 140737488355328)       # the double nearest to 2*pi

def steps_register(mod):
    """%S such that main computes angle = fptrunc(fdiv(two_pi(), %S)) and hands that angle to a linear RF map: the number of steps per synchrotron period (as a floating point value)"""
    f = mod.funcs['main']; defs = {}; users = {}
    for b in f.order:
        for ins in f.blocks[b]:
            if ins.get('dst'): defs[ins['dst']] = ins
    dm = demangle(set(mod.decls) | set(mod.funcs)); cand = []
    rf_ops = set()
    for b in f.order:
        for ins in f.blocks[b]:
            if ins['op'] in ('call', 'invoke') and ins['callee'][0] == 'global' and 'RFKickMap::' in dm.get(ins['callee'][1], '') and 'RFKickMap(' in dm.get(ins['callee'][1], ''):
                rf_ops |= {a[1] for t, a in ins['args'] if isinstance(a, tuple) and a[0] == 'local'}
    for b in f.order:
        for ins in f.blocks[b]:
            if ins['op'] == 'fdiv' and ins['a'][0] == 'local' and ins['b'][0] == 'local':
                da = defs.get(ins['a'][1])
                if da and da['op'] in ('call', 'invoke') and da['callee'][0] == 'global' and 'two_pi' in dm.get(da['callee'][1], ''):
                    tr = [i2['dst'] for b2 in f.order for i2 in f.blocks[b2] if i2['op'] == 'fptrunc' and i2['a'] == ('local', ins['dst'])]
                    if any(t in rf_ops for t in tr): cand.append(ins['b'][1])
    regs = sorted(set(cand))
    if len(regs) != 1: raise Unsupported('expected one value that main divides 2*pi by to obtain the RF angle, found %s' % regs)
    return regs[0]

def job_map_parameters(res, pid):
    bld = ms.setup_build(); mod = load_module(bld, ms.SETUP_MODS); res.funcs['main'] = fn_lines(mod, 'main')
    S = steps_register(mod); reached = 0; seen_lin = seen_fp = 0
    for prefer in (True, False):
        try:
            paths, ended, info = ms.explore_setup(mod, 4, 1, {'current0'}, prefer, stop_frag='vfps::FokkerPlanckMap::FokkerPlanckMap(',
                                                  capture=('vfps::RFKickMap::RFKickMap(', 'vfps::DynamicRFKickMap::DynamicRFKickMap(', 'std::make_unique<vfps::DriftMap'), budget=120, max_paths=400)
        except Unsupported as e:
            res.obs.append(Ob('set-up slice to the map constructions (preference %s) is executable by the engine' % prefer, 'inconclusive', detail=str(e), key='setup-engine')); continue
        res.paths += len(paths) + len(ended); res.instrs += sum(s.nins for s in paths + ended); dm = info['dm']
        errs = [s.why for s in ended if s.kind == 'error']
        if errs: res.obs.append(Ob('set-up slice to the map constructions: every path is executable by the engine', 'inconclusive', detail=str(errs[:2]), key='setup-engine'))
        for s in paths:
            reached += 1
            sv = s.frames[0].loc.get(S)
            if sv is None: res.obs.append(Ob('the step count is defined on the path to the map constructions', 'inconclusive', key='setup-engine')); continue
            T = z3.ToReal(z3.BV2Int(sv, False)) if z3.is_expr(sv) and z3.is_bv(sv) else ex_z(sv)
            late = list(s.extra.get('late', []))
            def dec(assume, neg):      # same preprocessing as the set-up obligations: integer lifting, products of opaque reals as free reals where they only occur as a whole
                return assume, neg
            for e in s.events:
                if not (len(e) > 3 and isinstance(e[3], dict) and 'deref' in e[3]): continue
                nm = dm.get(e[0], e[0]); a = e[1]
                if pid == 'C03' and 'RFKickMap::' in nm:
                    lin = ('ffNS_9SourceMap' in e[0] and 'ffff' not in e[0]) or 'jjfdd' in e[0]        # linear model: (angle, f_RF) resp. (xsize, ysize, angle, revolutionpart, f_RF, ...)
                    if not lin: continue
                    ang = a[3] if 'DynamicRFKickMap' not in nm else a[5]
                    ang = ex_z(ang); seen_lin += 1
                    prove(res, 'main: the %s linear RF map is built with angle * steps == 2*pi (steps: the integer main divides 2*pi by, %s), on every explored set-up path' % ('dynamic' if 'Dynamic' in nm else 'static', S), list(s.pc) + late + [T > 0],
                          ang * T != z3.RealVal(str(TWO_PI)), key='main-angle')
                if pid == 'C03' and 'DriftMap' in nm:
                    vec = (e[3]['deref'][3] or {}).get('vec_f32')
                    if not vec or len(vec) != 3: res.obs.append(Ob('main: the drift map receives three slip factors', 'violated', key='main-slip', detail=str(vec))); continue
                    v = [ex_z(x) for x in vec]
                    prove(res, 'main: slip[0] * steps == 2*pi (the drift advances the phase by the same angle as the RF kick)', list(s.pc) + late + [T > 0], v[0] * T != z3.RealVal(str(TWO_PI)), key='main-slip')
                    for i in (1, 2):
                        al = sorted(x for x in ms.syms_of(v[i]) if x.startswith('M[ret__ZNSt6vector') or x.startswith('M[ret__ZNKSt6vector'))
                        ok = len(al) == 2
                        if ok:
                            p_, q_ = z3.Real(al[0]), z3.Real(al[1])
                            sol = z3.Solver(); sol.add(*s.pc); sol.add(T > 0, p_ != 0, q_ != 0); sol.add(z3.And(v[i] * q_ != p_ * v[0], v[i] * p_ != q_ * v[0])); ok = sol.check() == z3.unsat
                        res.obs.append(Ob('main: slip[%d] == alpha%d/alpha0 * angle (a ratio of two entries of the momentum-compaction vector times slip[0])' % (i, i), 'holds' if ok else 'violated', key='main-slip', detail='' if ok else str(z3.simplify(v[i]))[:300]))
                if pid == 'C04' and 'FokkerPlanckMap' in nm:
                    e1 = ex_z(a[7]); seen_fp += 1
                    prove(res, 'main: the Fokker-Planck map is built with a damping decrement e1 > 0 (it is only built then)', list(s.pc) + late + [T > 0], e1 <= 0, key='main-e1')
                    # e1 is inversely proportional to the number of steps per synchrotron period: scaling every option value the step count is computed from by k scales e1 by 1/k
                    gs = sorted(x for x in ms.syms_of(T) if 'ProgramOptions' in x)
                    if gs:
                        k = z3.Real('k_scale'); sub = [(z3.Real(g), k * z3.Real(g)) for g in gs if not g.startswith('int(')]
                        T2 = z3.substitute(T, *sub); e2 = z3.substitute(e1, *sub)
                        prove(res, 'main: e1 * steps does not depend on the configured number of steps (e1 = const / steps: per step the same fraction of a damping time)', list(s.pc) + late + [T > 0, k > 0, T2 > 0, z3.substitute(z3.And(*s.pc) if s.pc else z3.BoolVal(True), *sub)] + dens_nonzero(e1, e2, T, T2),
                              e2 * T2 != e1 * T, key='main-e1')
    if pid == 'C03':
        # the explored paths go through one of the RF constructions; the others (static / dynamic, chosen by options) receive the same value: operands of the real call instructions
        f = mod.funcs['main']; dmn = demangle(set(mod.decls) | set(mod.funcs)); angs = {}
        for b in f.order:
            for ins in f.blocks[b]:
                if ins['op'] in ('call', 'invoke') and ins['callee'][0] == 'global':
                    c_ = ins['callee'][1]; n_ = dmn.get(c_, '')
                    if 'RFKickMap::RFKickMap(' in n_ or 'DynamicRFKickMap::DynamicRFKickMap(' in n_:
                        if 'jjfdd' in c_: angs['dynamic linear'] = ins['args'][5][1]
                        elif 'ES3_ffNS_9SourceMap' in c_: angs['static linear'] = ins['args'][3][1]
        same = len(set(angs.values())) == 1 and len(angs) == 2
        res.obs.append(Ob('main: the static and the dynamic linear RF map are constructed with one and the same angle value (%s)' % sorted(set(map(str, angs.values()))), 'holds' if same else 'violated', key='main-angle', detail=str(angs)))
        # the sinusoidal model: static and dynamic map get the same revolution part, voltage amplitude, RF frequency and loss voltage (the static map takes floats: conversions are looked through)
        defs_ = {}
        for b in f.order:
            for ins in f.blocks[b]:
                if ins.get('dst'): defs_[ins['dst']] = ins
        def canon(v, depth=0):
            if depth < 6 and isinstance(v, tuple) and v[0] == 'local' and v[1] in defs_:
                d = defs_[v[1]]
                if d['op'] in ('fptrunc', 'fpext'): return canon(d['a'], depth + 1)
                if d['op'] == 'load': return ('load', canon(d['ptr'], depth + 1))
            return v
        sin = {}
        for b in f.order:
            for ins in f.blocks[b]:
                if ins['op'] in ('call', 'invoke') and ins['callee'][0] == 'global':
                    c_ = ins['callee'][1]
                    if c_.startswith('_ZN4vfps9RFKickMapC1') and 'ES3_ffffNS_9SourceMap' in c_: sin['static'] = [canon(a[1]) for a in ins['args'][3:7]]
                    elif c_.startswith('_ZN4vfps16DynamicRFKickMapC1') and 'jjddddfff' in c_: sin['dynamic'] = [canon(a[1]) for a in ins['args'][5:9]]
        if len(sin) == 2:
            names = ('revolution part', 'voltage amplitude', 'RF frequency', 'loss voltage'); bad_ = [nm for nm, x, y in zip(names, sin['static'], sin['dynamic']) if x != y]
            res.obs.append(Ob('main: the static and the dynamic sinusoidal RF map are constructed with the same revolution part, voltage amplitude, RF frequency and loss voltage', 'holds' if not bad_ else 'violated', key='main-sin-parameters',
                              detail='' if not bad_ else 'differ in: %s (static %s, dynamic %s)' % (bad_, sin['static'], sin['dynamic']), cex=None if not bad_ else {'replay': 'structural', 'differ': bad_}))
        else: raise Unsupported('main: expected one static and one dynamic sinusoidal RF construction, found %s' % sorted(sin))
    if pid == 'C04':
        # the constant: the decrement handed to the map is fptrunc(2.0 / (steps * (x * y))) (x, y: synchrotron frequency and damping time as main holds them) - read off the defining instructions
        f = mod.funcs['main']; defs = {}
        for b in f.order:
            for ins in f.blocks[b]:
                if ins.get('dst'): defs[ins['dst']] = ins
        fp = ms.call_sites(mod, f, 'vfps::FokkerPlanckMap::FokkerPlanckMap(')
        ok = False; why = 'no construction found'
        if fp:
            v = fp[-1][2]['args'][7][1]; chain = []
            def back(v, depth=0):
                if depth > 6 or not (isinstance(v, tuple) and v[0] == 'local') or v[1] not in defs: return []
                d = defs[v[1]]
                if d['op'] == 'fdiv': return [d]
                if d['op'] in ('fptrunc', 'fpext'): return back(d['a'], depth + 1)
                if d['op'] == 'phi': return sum((back(x, depth + 1) for x, _ in d['inc']), [])
                if d['op'] == 'select': return back(d['a'], depth + 1) + back(d['b'], depth + 1)
                return []
            divs = back(v)
            def factors(v):
                if isinstance(v, tuple) and v[0] == 'local' and v[1] in defs and defs[v[1]]['op'] == 'fmul': return factors(defs[v[1]]['a']) + factors(defs[v[1]]['b'])
                return [v]
            for d in divs:
                fs_ = factors(d['b'])
                if d['a'] == ('fp', 2.0, 64) and ('local', S) in fs_ and len(fs_) == 3: ok = True
                why = 'numerator %s, factors of the divisor %s' % (d['a'], fs_)
        # which option selects what: the map's type operand comes from getFPType(), its tracking-model operand from getFPTrack() (operands of the real call, followed back through casts)
        if fp:
            def origin(v, depth=0):
                if depth > 8 or not (isinstance(v, tuple) and v[0] == 'local') or v[1] not in defs: return str(v)
                d = defs[v[1]]
                if d['op'] in ('call', 'invoke') and d['callee'][0] == 'global': return demangle({d['callee'][1]}).get(d['callee'][1], d['callee'][1]).split('(')[0]
                if d['op'] in ('trunc', 'zext', 'sext', 'bitcast', 'freeze'): return origin(d['a'], depth + 1)
                return d['op']
            o_t = origin(fp[-1][2]['args'][5][1]); o_k = origin(fp[-1][2]['args'][6][1])
            ok_t = o_t.endswith('ProgramOptions::getFPType') and o_k.endswith('ProgramOptions::getFPTrack')
            res.obs.append(Ob('main: the Fokker-Planck map is built with the FPType option as its type and the FPTrack option as its tracking model (type from %s, tracking model from %s)' % (o_t, o_k), 'holds' if ok_t else 'violated', key='main-fp-options',
                              cex=None if ok_t else {'replay': 'structural', 'type_from': o_t, 'track_from': o_k}))
        res.obs.append(Ob('main: e1 is computed as 2.0 / (steps * x * y) - numerator 2, three factors, one of them the step count %s (%s)' % (S, why), 'holds' if ok else 'violated', key='main-e1-constant'))
    if not reached: res.obs.append(Ob('the set-up slice reaches the map constructions', 'inconclusive', key='setup-engine'))
    witness(res, 'map constructions reached on %d path(s); %d linear RF constructions, %d Fokker-Planck constructions examined' % (reached, seen_lin, seen_fp), [], z3.BoolVal(reached > 0 and (seen_lin > 0 if pid == 'C03' else seen_fp > 0)))

def dens_nonzero(*terms):
    """every divisor occurring in the terms is non-zero (the program would hold inf/NaN otherwise: outside the claim)"""
    out = []; seen = set(); stack = list(terms)
    while stack:
        t = stack.pop()
        if not z3.is_expr(t) or t.get_id() in seen: continue
        seen.add(t.get_id())
        if t.decl().kind() == z3.Z3_OP_DIV: out.append(t.arg(1) != 0)
        stack.extend(t.children())
    return out

def ex_z(v):
    if isinstance(v, Fraction): return z3.RealVal(str(v))
    if isinstance(v, (int, float)): return z3.RealVal(str(Fraction(v)))
    return v

if __name__ == '__main__':
    for pid in ('C03', 'C04'):
        r = JobResult(); job_map_parameters(r, pid)
        for o in r.obs: print(pid, o.verdict, o.name[:220], o.detail[:200])
