"""C13 - the configuration file saved next to the results reproduces the run (writer half: ProgramOptions::save(std::string))."""
import sys, os, re
sys.path.insert(0, os.path.dirname(os.path.abspath(__file__)))
from maps_common import *

OPTS_TUS = ['src/IO/ProgramOptions.cpp', 'src/IO/Display.cpp', 'src/HelperFunctions.cpp', 'src/IO/FSPath.cpp']
def opts_build(): return B.build('h_opts.cpp', OPTS_TUS, hdf5=0, noinline_tus=['src/IO/ProgramOptions.cpp'], libs=('-lboost_program_options', '-lboost_filesystem', '-lboost_system'))
I64 = IntTy(64); F64 = FloatTy(64)

SCEN = {0: 'defaults only', 1: 'every option on the command line, three bunch currents, -f', 2: 'canonical names in a parent config file, alpha0 and no synchrotron frequency, two bunch currents',
        3: 'legacy aliases (steps, RFVoltage, SyncFreq) in a parent config file', 4: 'alpha0 and one bunch current on the command line',
        5: 'parent config file giving both the legacy and the current name of steps / RF voltage / synchrotron frequency with different values', 6: 'legacy names in the parent config file, current names on the command line',
        7: 'explicit /dev/null for the config file and the start distribution, empty tracking file, non-default derivation'}

class StreamRec:
    """recorder of output streams: tokens ('s', text) ('f32'|'f64', term, precision in force in the stream that formatted it) ('i', term) ('nl',).
    Every stream object has its own token list and precision; a std::ostringstream handed on with str() is spliced into the stream it is written to."""
    MARK = b'\x01stream@%x\x01'
    def __init__(self): self.streams = {}; self.main = None; self.setprec = {}
    @property
    def tok(self): return self.streams.setdefault(self.main, []) if self.main is not None else self.streams.setdefault(None, [])
    @tok.setter
    def tok(self, v): self.streams = {self.main: v} if self.main is not None else {None: v}; self.setprec = {}
    @property
    def prec(self): return None
    @prec.setter
    def prec(self, v):
        if v is None: self.setprec = {}
    def install(self, ex):
        R = self
        def toks(strm): return R.streams.setdefault(strm, [])
        def prec_of(ex, st, strm):
            if strm in R.setprec and R.setprec[strm] is not None: return R.setprec[strm]
            try:
                vp = ex.load(st, strm, I64); off = sgn(ex.load(st, vp - 24, I64), 64); p = ex.load(st, strm + off + 8, I64)
                return p if isinstance(p, int) and p > 0 else 6
            except Exception: return 6
        def ctor(ex, st, fr, a, ins):
            vt = ex.malloc(st, 64); ex.store(st, vt + 8, I64, 248); ex.store(st, a[0], I64, vt + 32)      # libstdc++: basic_ios subobject of basic_ofstream at +248
            if R.main is None: R.main = a[0]
            toks(a[0]); return None
        def ctor_oss(ex, st, fr, a, ins):
            vt = ex.malloc(st, 64); ex.store(st, vt + 8, I64, 112); ex.store(st, a[0], I64, vt + 32)      # basic_ios subobject of basic_ostringstream at +112; precision field starts as 0 = default 6
            ex.write_bytes(st, a[0] + 112, bytes(32)); R.streams[a[0]] = []; R.setprec.pop(a[0], None); return None
        def oss_str(ex, st, fr, a, ins):
            from symex import _str_init
            _str_init(ex, st, a[0], R.MARK % a[1]); return None
        def put_text(ex, st, strm, data):
            # text that is the str() of another recorded stream: splice that stream's tokens (formatted with *its* precision)
            m = re.fullmatch(rb'\x01stream@([0-9a-f]+)\x01', data)
            if m: toks(strm).extend(R.streams.get(int(m.group(1), 16), [])); return
            toks(strm).append(('s', data.decode(errors='replace')))
        def s_str(ex, st, fr, a, ins):
            p = ex.load(st, a[1], I64); n = ex.load(st, a[1] + 8, I64); put_text(ex, st, a[0], ex.read_bytes(st, p, n)); return a[0]
        def s_cstr(ex, st, fr, a, ins):
            n = 0
            while ex.read_bytes(st, a[1] + n, 1) != b'\0': n += 1
            put_text(ex, st, a[0], ex.read_bytes(st, a[1], n)); return a[0]
        def s_char(ex, st, fr, a, ins): toks(a[0]).append(('s', chr(a[1] & 255) if isinstance(a[1], int) else '?')); return a[0]
        def s_f(bits):
            def f(ex, st, fr, a, ins): toks(a[0]).append(('f%d' % bits, a[1], prec_of(ex, st, a[0]))); return a[0]
            return f
        def s_i(ex, st, fr, a, ins): toks(a[0]).append(('i', a[1])); return a[0]
        def s_manip(ex, st, fr, a, ins):
            nm = ex.addr2f.get(a[1]) or (ex.snap.addr2syms.get(a[1], ['?'])[0] if isinstance(a[1], int) else '?')
            if 'endl' in nm: toks(a[0]).append(('nl',))
            return a[0]
        def s_setprec(ex, st, fr, a, ins): R.setprec[a[0]] = a[1] if isinstance(a[1], int) else None; return a[0]
        T = {'_ZNSt14basic_ofstreamIcSt11char_traitsIcEEC1EPKcSt13_Ios_Openmode': ctor, '_ZNSt14basic_ofstreamIcSt11char_traitsIcEED1Ev': ext_noop,
             '_ZNSt7__cxx1119basic_ostringstreamIcSt11char_traitsIcESaIcEEC1Ev': ctor_oss, '_ZNSt7__cxx1119basic_ostringstreamIcSt11char_traitsIcESaIcEED1Ev': ext_noop,
             '_ZNKSt7__cxx1119basic_ostringstreamIcSt11char_traitsIcESaIcEE3strEv': oss_str,
             '_ZStlsIcSt11char_traitsIcESaIcEERSt13basic_ostreamIT_T0_ES7_RKNSt7__cxx1112basic_stringIS4_S5_T1_EE': s_str, '_ZStlsISt11char_traitsIcEERSt13basic_ostreamIcT_ES5_PKc': s_cstr,
             '_ZStlsISt11char_traitsIcEERSt13basic_ostreamIcT_ES5_c': s_char, '_ZNSolsEf': s_f(32), '_ZNSolsEd': s_f(64), '_ZNSolsEi': s_i, '_ZNSolsEj': s_i, '_ZNSolsEl': s_i, '_ZNSolsEm': s_i, '_ZNSolsEb': s_i,
             '_ZNSolsEPFRSoS_E': s_manip, '_ZStlsIcSt11char_traitsIcEERSt13basic_ostreamIT_T0_ES6_St13_Setprecision': s_setprec, '_ZNSo9_M_insertIdEERSoT_': s_f(64), '_ZNSo9_M_insertImEERSoT_': s_i, '_ZNSo9_M_insertIlEERSoT_': s_i,
             '_ZNSo9_M_insertIbEERSoT_': s_i, '_ZSt16__ostream_insertIcSt11char_traitsIcEERSt13basic_ostreamIT_T0_ES6_PKS3_l': lambda ex, st, fr, a, ins: (put_text(ex, st, a[0], ex.read_bytes(st, a[1], a[2])), a[0])[1],
             '_ZNSo3putEc': s_char, '_ZNSo5flushEv': lambda ex, st, fr, a, ins: a[0], '_ZSt4endlIcSt11char_traitsIcEERSt13basic_ostreamIT_T0_ES6_': lambda ex, st, fr, a, ins: (toks(a[0]).append(('nl',)), a[0])[1]}
        ex.ext.update(T)
        def version_string(ex, st, fr, a, ins):
            sret = a[0]; data = b'verif'; ex.store(st, sret, I64, sret + 16); ex.store(st, sret + 8, I64, len(data)); ex.write_bytes(st, sret + 16, data + b'\0'); return None
        ex.ext_prefix.append(('_ZN4vfps15inovesa_version', version_string))
    def lines(self):
        out = []; cur = []
        for t in self.tok:
            if t[0] == 'nl': out.append(cur); cur = []
            elif t[0] == 's' and '\n' in t[1]:
                parts = t[1].split('\n')
                for k, part in enumerate(parts):
                    if part: cur.append(('s', part))
                    if k < len(parts) - 1: out.append(cur); cur = []
            else: cur.append(t)
        if cur: out.append(cur)
        return out

def vm_lookup(R):
    """boost::program_options::abstract_variables_map::operator[](const std::string&) const, implemented over the snapshot's std::map nodes (libstdc++ layout)"""
    def f(ex, st, fr, a, ins):
        this, keyp = a; kp = ex.load(st, keyp, I64); kn = ex.load(st, keyp + 8, I64); key = ex.read_bytes(st, kp, kn)
        hdr = R['vm_map'] + 8; node = ex.load(st, hdr + 8, I64)
        while node:
            sp = ex.load(st, node + 32, I64); sn = ex.load(st, node + 40, I64); k = ex.read_bytes(st, sp, sn)
            if key == k: return node + 64
            node = ex.load(st, node + (16 if key < k else 24), I64)
        raise Unsupported('variables_map lookup of an absent key %r' % key)
    return f

def job_save(res, sc):
    bld = opts_build(); mod = load_module(bld, ['harness', 'ProgramOptions'])
    wd = os.path.join(bld['dir'], 'wd'); os.makedirs(wd, exist_ok=True)
    snap, R, pre = take_snapshot(bld, 's%d' % sc, [sc, wd])
    vm = {}; var = {}
    for k, v in R.items():
        if k.startswith('vm:'): _, key, ty = k.split(':'); vm[key] = (v, ty)
        if k.startswith('var:'): _, key, ty = k.split(':'); var[key] = (v, ty)
    vmdata = {k.split(':')[1]: (v, int(k.split(':')[2])) for k, v in R.items() if k.startswith('vmdata:')}
    rec = StreamRec(); ex = Exec(mod, snap, RealDom()); rec.install(ex)
    ex.ext['_ZNK5boost15program_options22abstract_variables_mapixERKNSt7__cxx1112basic_stringIcSt11char_traitsIcESaIcEEE'] = vm_lookup(R)
    TI = {'f32': '_ZTIf', 'f64': '_ZTId', 'i32': '_ZTIi', 'u32': '_ZTIj', 'i64': '_ZTIl', 'b': '_ZTIb', 'str': '_ZTINSt7__cxx1112basic_stringIcSt11char_traitsIcESaIcEEE', 'vf32': '_ZTISt6vectorIfSaIfEE', 'other': '_ZTIh'}
    held2ty = {v: ty for key, (v, ty) in vm.items() if v}
    def any_type(ex, st, fr, a, ins):
        # boost::any::type(): the holder's vtable may live in libboost_program_options.so (not part of the snapshot): answer from the type the harness recorded for this entry
        content = ex.load(st, a[0], I64)
        if content == 0: return ex.gaddr_of(st, '_ZTIv')
        ty = held2ty.get(content + 8)
        if ty is None: raise Unsupported('boost::any with an unrecorded holder')
        return ex.gaddr_of(st, TI[ty])
    ex.ext['_ZNK5boost3any4typeEv'] = any_type
    st = State()
    SZ = {'f32': 4, 'f64': 8, 'i32': 4, 'u32': 4, 'i64': 8, 'b': 1}
    def conc(addr, ty):
        b = ex.read_bytes(st, addr, SZ[ty])
        return struct.unpack({'f32': '<f', 'f64': '<d', 'i32': '<i', 'u32': '<I', 'i64': '<q', 'b': '<B'}[ty], b)[0]
    # effective value of every option = its bound member variable.  One symbol per bound variable; the _vm entry that currently holds the same
    # value as the variable (the one notify() took it from) gets the same symbol, every other entry its own.
    SYM = {}; EFF = {}
    def mksym(name, ty): return z3.Real(name) if ty in ('f32', 'f64') else z3.BitVec(name, 8 * SZ[ty])
    def put(addr, ty, v):
        if ty in ('f32', 'f64'): st.sym[addr] = (SZ[ty], 'f', v)
        else: st.sym[addr] = (SZ[ty], 'i', v)
    alias = {'SyncFreq': 'SynchrotronFrequency', 'RFVoltage': 'AcceleratingVoltage', 'steps': 'StepsPerTs'}
    for key, (addr, ty) in var.items():
        EFF[key] = mksym('eff_' + key, ty); put(addr, ty, EFF[key])
    for key, (addr, ty) in vm.items():
        if ty not in SZ or not addr: continue
        canon = alias.get(key, key)
        if canon in var and var[canon][1] == ty and conc(addr, ty) == conc(var[canon][0], ty):
            SYM[key] = EFF[canon]          # this entry is where the effective value came from
        else: SYM[key] = mksym('vm_' + key, ty)
        put(addr, ty, SYM[key])
    IB = []
    if 'BunchCurrent' in vmdata:
        a, cnt = vmdata['BunchCurrent']
        for i in range(cnt):
            v = z3.Real('Ib_%d' % i); st.sym[a + 4 * i] = (4, 'f', v); IB.append(v)
    fs = EFF['SynchrotronFrequency']
    account(res, ex, mod, [])
    for case, cons in (('f_s == 0 (alpha0 in use)', [fs == 0]), ('f_s != 0 (synchrotron frequency overrides alpha0)', [fs > 1])):
        rec.tok = []; rec.prec = None
        s0 = State(); s0.sym = dict(st.sym); s0.pc = list(cons)
        out = run_paths(ex, s0, 'e_save', [R['opts'], R['fname']]); account(res, ex, mod, out)
        if len(out) != 1: raise Unsupported('save(): expected one path per f_s case, got %d' % len(out))
        s1 = out[0]
        L = {}
        for ln in rec.lines():
            if ln and ln[0][0] == 's' and len(ln) >= 2:
                text = ''.join(t[1] for t in ln if t[0] == 's')
                if text.lstrip().startswith('#'): continue          # a comment line: the reader ignores it, whatever key it mentions
                key = text.split('=')[0].strip()
                L.setdefault(key, []).append(ln)
        zero_case = case.startswith('f_s == 0')
        for key, (addr, ty) in sorted(var.items()):
            want = EFF[key]
            lines = L.get(key, [])
            vals = [t for ln in lines for t in ln if t[0] in ('f32', 'f64', 'i')]
            ok_n = len(lines) == 1 and len(vals) == 1
            bad = z3.BoolVal(not ok_n)
            digits_ok = True
            if ok_n:
                t = vals[0]
                g = t[1]
                if ty in ('f32', 'f64'):
                    need = 9 if ty == 'f32' else 17
                    digits_ok = t[0].startswith('f') and t[2] >= need
                    gz = g if not isinstance(g, Fraction) else z3.RealVal(str(g))
                    bad = gz != want if not isinstance(g, int) else z3.BoolVal(True)
                else:
                    if isinstance(g, int): bad = z3.BitVecVal(g, want.size()) != want
                    elif z3.is_bv(g):
                        w = want
                        if g.size() > w.size(): w = z3.ZeroExt(g.size() - w.size(), w) if ty != 'i32' and ty != 'i64' else z3.SignExt(g.size() - w.size(), w)
                        elif g.size() < w.size(): g = z3.ZeroExt(w.size() - g.size(), g)
                        bad = g != w
                    elif z3.is_bool(g): bad = z3.Xor(g, want != 0)
                    elif False: bad = z3.If(g, z3.BitVecVal(1, want.size()), z3.BitVecVal(0, want.size())) != want
                    else: bad = z3.BoolVal(True)
            def cex(m, key=key): return {'replay': 'save', 'scenario': sc, 'key': key, 'case': case, 'lines_for_key': len(lines)}
            prove(res, 'scenario %d (%s), %s: the saved file has exactly one line "%s=<effective value>" (the bound variable the getter returns)' % (sc, SCEN[sc], case, key),
                  s1.pc, bad, key='save-' + ('alias' if any(alias[a] == key and a in vm for a in alias) else 'value') + ('-alpha0' if key == 'alpha0' else ''), cex_fn=cex)
            if ty in ('f32', 'f64') and ok_n:
                res.obs.append(Ob('scenario %d: "%s" is written with enough digits to survive the decimal round trip (%s needs %d, stream precision %s)' % (sc, key, ty, 9 if ty == 'f32' else 17, vals[0][2] if vals[0][0].startswith('f') else '-'),
                                  'holds' if digits_ok else 'violated', key='save-precision', cex=None if digits_ok else {'replay': 'save', 'scenario': sc, 'key': key}))
        # bunch currents: one line per element, in order
        if IB:
            lines = L.get('BunchCurrent', []); vals = [t for ln in lines for t in ln if t[0] in ('f32', 'f64')]
            okc = len(vals) == len(IB)
            dig = all(v[0].startswith('f') and v[2] >= 9 for v in vals)
            res.obs.append(Ob('scenario %d: every bunch current is written with enough digits to survive the decimal round trip (float needs 9, stream precisions %s)' % (sc, [v[2] for v in vals]), 'holds' if dig else 'violated', key='save-precision',
                              cex=None if dig else {'replay': 'save', 'scenario': sc, 'key': 'BunchCurrent'}))
            prove(res, 'scenario %d, %s: the %d bunch currents are saved, one "BunchCurrent=" line each, in order' % (sc, case, len(IB)), s1.pc,
                  z3.Or(z3.BoolVal(not okc), *[(v[1] if not isinstance(v[1], Fraction) else z3.RealVal(str(v[1]))) != w for v, w in zip(vals, IB)]), key='save-bunchcurrents', cex_fn=lambda m: {'replay': 'save', 'scenario': sc, 'key': 'BunchCurrent', 'lines': len(lines)})
        for a in alias:
            res.obs.append(Ob('scenario %d: legacy key "%s" is not written (its value goes to "%s")' % (sc, a, alias[a]), 'holds' if a not in L else 'violated', key='save-alias'))
    witness(res, 'save() wrote lines (%d tokens in the last case)' % len(rec.tok), [], z3.BoolVal(len(rec.tok) > 20))

def replayer(bld):
    def rp(path, c):
        if c.get('replay') in ('parse', 'parse-error'):
            import c20; return c20.replayer(None)(path, c)
        wd = os.path.join(bld['dir'], 'wd'); os.makedirs(wd, exist_ok=True)
        o = native_run(bld, {'scenario': c['scenario'], 'workdir': wd}, 'c13')
        same = bool(o['same'][0])
        return (not same, 'native oracle (parse, save, re-parse with --config, compare every getter): %s' % ('all getters equal' if same else 'getters differ after the round trip'))
    return rp
def get_replayer(): return replayer(opts_build())

def main(tier):
    chk = Check('C13', tier, '4/C13')
    bld = opts_build()
    jobs = [(job_save, (sc,)) for sc in (0, 1, 2, 3, 4, 5, 6, 7)]
    # the way back: what a config file says is what parse() makes effective when nothing on the command line overrides it - every scalar option symbolic, string options as ordinary names and as "/dev/null" (C20's parse model)
    import c20
    jobs += [(c20.job_parse, ('cfg', sm)) for sm in ('cfg', 'cfg-null')]
    chk.bounds = {'scenarios': SCEN, 'symbolic': 'the value held by every entry of the variables map and every bound member variable (one symbol per effective value), every bunch current; f_s zero / non-zero explored separately'}
    chk.assumptions = ['reader contract trusted (boost::program_options config parser: key=value, repeated keys of a vector option accumulate, a float survives the decimal round trip iff >= 9 digits, a double iff >= 17)',
                       'std::ostream inserters are a recorder (kind, value term, precision in force); boost::program_options::variables_map::operator[] is a lookup in the snapshot\'s std::map',
                       'options without a getter in this build (OpenGL version, OpenCL device, compatibility options) and --config chains deeper than one are outside', 'the reader half is C20\'s parse() obligations for values given in a config file (run here as well); the text format itself is trusted to boost']
    chk.stubs = ['std::ofstream / operator<<: recorder', 'abstract_variables_map::operator[]: red-black tree lookup', 'inovesa_version(): fixed string', 'C++ exceptions: unwinding to the enclosing invoke with type matching over the IR\'s type_info objects']
    chk.replayer = replayer(bld)
    chk.add(run_jobs(jobs, budget=600))
    chk.finish()

if __name__ == '__main__':
    main(sys.argv[1] if len(sys.argv) > 1 else 'quick')
