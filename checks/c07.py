"""C07 - CSR power equals the energy the wake takes from the beam (Parseval) and is never negative."""
import sys, os
sys.path.insert(0, os.path.dirname(os.path.abspath(__file__)))
from field_common import *
from c06 import sym_impedance, sym_profiles

def exp_model(recs):
    def f(ex, st, fr, args, ins):
        x = args[0]
        if isinstance(x, Fraction):
            return Fraction(math.exp(float(x)))
        e = z3.Real('exp%d' % len(recs)); recs.append((ex.dom.z(x), e)); return e
    return f

def job_spectrum(res, n, N, spacing, buckets, cutoff_on, wake_first=False):
    """(i) spectrum[b][k] == renorm * Re Z_k * |F_k|^2 with F = r2c of bunch b's profile alone in cells [0,n); intensity == df * sum_k spectrum; (iii),(iv) signs"""
    bld = field_build(); mod = load_module(bld, FIELD_MODS)
    snap, R, pre, plans, calib = field_world(bld, n, N, spacing, buckets, 1 if cutoff_on else 0)
    nb = len(buckets)
    AP = {k: 3e-5 for k in ('wake', 'csr', 'csrpower', 'wake2', 'wpm_force')}
    validate(res, mod, snap, pre, {'fftwf_execute': fft_concrete(plans)}, approx=AP)
    recs = []
    fft = UFFFT(plans); ex = Exec(mod, snap, RealDom(), {'fftwf_execute': fft, 'expf': exp_model(recs), 'exp': exp_model(recs)}); st = State()
    P = sym_profiles(ex, st, R, n, nb); Z = sym_impedance(ex, st, R, N)
    fc = z3.Real('fcut');
    if cutoff_on: st.pc += [fc > 0]
    if wake_first:
        # the statement is about one and the same field object: the spectrum must be the same whether or not the wake was requested before
        Pold = sym_profiles(ex, st, R, n, nb, tag='old'); st = ex.run1(st, 'e_wake', [R['field']]); P = sym_profiles(ex, st, R, n, nb)
    csr_paths = run_paths(ex, st, 'e_csr', [R['field'], fc if cutoff_on else Fraction(0)]); account(res, ex, mod, csr_paths)      # every path of the call (code that decides on the data forks): each one must meet the obligations
    for st in csr_paths:
        spec = get_reals(ex, st, st.retval, nb * N)
        pw = get_reals(ex, st, ex.run1(st, 'e_csrpower', [R['field']]).retval, nb)
        dq = Fraction(f32(f32(12.0) / f32(n - 1))); renorm0 = Fraction(f32(float(dq) * float(dq)))      # _formfactorrenorm = delta^2 in float
        fmax = Fraction(f32(1.0 / float(dq))); df = Fraction(f32(float(fmax) / f32(N - 1)))
        axf = [Fraction(f32(float(df) * i)) for i in range(N)]
        sch = Fraction(f32(2.99792458e8 / f32(2e-3)))
        expax = [e > 0 for a, e in recs] + [z3.Implies(a <= 0, e <= 1) for a, e in recs]
        bad = []; badp = []; want_all = []
        for b in range(nb):
            buf = [P[b * n + x] if x < n else z3.RealVal(0) for x in range(N)]
            F = fft.apply(0, N, buf)
            tot = z3.RealVal(0)
            for k in range(N):
                if k <= N // 2: nrm = F[2 * k] * F[2 * k] + F[2 * k + 1] * F[2 * k + 1]
                else: nrm = z3.RealVal(0)                   # cells above N/2 of the r2c output are never written: initial zeros
                w = renorm0 * Z[k][0] * nrm
                want_all.append((b, k, w, nrm))
                if not cutoff_on: bad.append(spec[b * N + k] != w)
                tot = tot + df * spec[b * N + k]
            badp.append(pw[b] != tot)
        def cex(m): return {'replay': 'csr', 'n': n, 'N': N, 'spacing': spacing, 'buckets': list(buckets), 'rho': [mval(m, v) for v in P], 'z': [mval(m, c) for zz in Z for c in zz], 'wake_first': wake_first}
        if not cutoff_on:
            prove(res, 'n=%d N=%d buckets %s: CSR spectrum[b][k] == delta_q^2 * Re Z_k * |r2c(profile of bunch b alone)_k|^2 for k <= N/2 and 0 above (all %d cells)' % (n, N, list(buckets), nb * N),
                  st.pc, z3.Or(*bad), key='csr-spectrum-structure', cex_fn=cex)
        def cexp(m): return dict(cex(m), what='intensity', cutoff=3e11 if cutoff_on else 0.0, freq_delta=float(R['freq_delta']))
        prove(res, 'n=%d N=%d buckets %s cutoff=%s: CSR intensity[b] == delta_f * sum_k spectrum[b][k]' % (n, N, list(buckets), cutoff_on), st.pc, z3.Or(*badp), key='csr-intensity-sum', cex_fn=cexp)
        # signs, decided per frequency bin (the transform values enter only through re^2 + im^2)
        for b in range(nb):
            for k in range(N):
                (bb, kk, w, nrm) = want_all[b * N + k]; sp = spec[b * N + k]
                ctx = list(st.pc) + [Z[k][0] >= 0] + expax
                goal = z3.Or(sp < 0, sp > w) if cutoff_on else (sp < 0)
                prove(res, 'n=%d N=%d cutoff=%s bunch %d bin %d: Re Z_k >= 0 => %s for every profile' % (n, N, cutoff_on, b, k, '0 <= spectrum_cut <= spectrum' if cutoff_on else 'spectrum >= 0'),
                      ctx, goal, key='csr-nonnegative', cex_fn=cex, timeout_ms=30000)
        # intensity is a non-negative combination of the spectrum: abstract each spectral value by a non-negative variable
        sv = [z3.Real('s%d' % i) for i in range(nb * N)]
        prove(res, 'n=%d N=%d: intensity (delta_f * sum_k spectrum, obligation above) is >= 0 when every spectral value is' % (n, N), [v >= 0 for v in sv],
              z3.Or(*[sum([df * sv[b * N + k] for k in range(N)], z3.RealVal(0)) < 0 for b in range(nb)]), key='csr-nonnegative')
        if cutoff_on:
            witness(res, 'cutoff branch evaluated exp() (%d symbolic calls)' % len(recs), [], z3.BoolVal(len(recs) >= 1))
        witness(res, 'spectrum depends on Re Z_1 (N=%d)' % N, [], z3.BoolVal(occurs(spec[1], Z[1][0]) and not occurs(spec[1], Z[1][1])))

def job_parseval(res, n, N=4):
    """(ii) N = 4, exact DFT semantics, single bunch in bucket 0 (as main builds the radiation field): sum_{0<k<N/2} spectrum_k/dq^2 == 1/2 sum_x rho_x Wt_x - 1/2 Re Z_0 |F_0|^2, Wt = unscaled c2r output"""
    bld = field_build(); mod = load_module(bld, FIELD_MODS)
    snap, R, pre, plans, calib = field_world(bld, n, N, 0, (0,))
    ex = Exec(mod, snap, RealDom(), {'fftwf_execute': dft_exact(plans, (4, 8))}); st = State()
    ex.unknown_is_feasible = True; ex.branch_timeout = 4000      # a branch on the transform's values whose feasibility is not decided in 4 s is followed (over-approximation, see Exec.feasible)
    if N == 8: rt = z3.Real('sqrt_half'); st.pc += [rt * rt == Fraction(1, 2), rt > 0]
    P = sym_profiles(ex, st, R, n, 1); Z = sym_impedance(ex, st, R, N)
    paths = run_paths(ex, st.fork(), 'e_csr', [R['field'], Fraction(0)])      # every path of updateCSR: code that decides on the transform's values (drops bins, stops early) forks, and each path must meet Parseval
    wpaths = run_paths(ex, st.fork(), 'e_wake', [R['field']]); account(res, ex, mod, paths + wpaths)      # likewise every path of wakePotential; the identity is decided for every pair of paths
    dq = Fraction(f32(f32(12.0) / f32(n - 1))); renorm0 = Fraction(f32(float(dq) * float(dq)))
    rho = P + [z3.RealVal(0)] * (N - n)
    F0 = sum(rho[1:], rho[0])
    zs = [c for zz in Z for c in zz]
    pairs = [(a, b) for a in paths for b in wpaths]
    for pi, (s1, s2) in enumerate(pairs):
        wt = get_reals(ex, s2, R['wp_padded'], N)
        rhs = sum([rho[x] * wt[x] for x in range(N)], z3.RealVal(0)) / 2 - Z[0][0] * F0 * F0 / 2
        spec = get_reals(ex, s1, s1.retval, N)
        lhs = sum([spec[k] for k in range(1, N // 2)], z3.RealVal(0)) / renorm0
        pc = list(st.pc)
        for c in list(s1.pc) + list(s2.pc):
            if not any(c.eq(d) for d in pc): pc.append(c)
        def cex(m, lhs=lhs, rhs=rhs, pc=pc):
            # exact DFT semantics: the model's profile is a real profile.  A second query asks for a counterexample that single precision resolves (bounded inputs, deviation of at least
            # 1 % of the larger side); the first model is kept when that query does not finish.  Either model goes through the native replay.
            s = z3.Solver(); s.add(*pc); s.add(*[z3.And(v >= 0, v <= 4) for v in P]); s.add(*[z3.And(v >= -4, v <= 4) for v in zs])
            d = lhs - rhs; s.add(z3.Or(d > Fraction(1, 100) * (1 + rhs), -d > Fraction(1, 100) * (1 + rhs)), rhs >= 0)
            r, dt = solve(s, 30000); res.queries += 1; res.solver_s += dt
            if r == z3.sat: m = s.model()
            return {'replay': 'parseval', 'n': n, 'N': N, 'rho': [mval(m, v) for v in P], 'z': [mval(m, c) for c in zs], 'lhs': mval(m, lhs), 'rhs': mval(m, rhs), 'resolved': r == z3.sat}
        prove(res, 'Parseval, n=%d N=%d, exact DFT, path pair %d of %d of updateCSR x wakePotential: sum over interior frequencies of spectrum/delta_q^2 == 1/2 * sum_x rho_x * (unscaled wake)_x - DC term, for every profile and complex impedance' % (n, N, pi + 1, len(pairs)),
              pc, lhs != rhs, key='parseval', cex_fn=cex)
    wt = get_reals(ex, wpaths[0], R['wp_padded'], N)
    witness(res, 'Parseval sides depend on Re Z_1', [], z3.BoolVal(occurs(lhs, Z[1][0])))
    # the Nyquist and upper bins: spectrum above N/2 is zero, the Nyquist bin carries Re Z_{N/2} |F_{N/2}|^2 but does not enter the wake
    for s2 in wpaths:
        wt = get_reals(ex, s2, R['wp_padded'], N)
        prove(res, 'n=%d N=%d: unscaled wake does not depend on the Nyquist/upper impedance samples' % (n, N), list(s2.pc), z3.Or(*[z3.substitute(w, *[(c, z3.Real(str(c) + 'a')) for k in range(N // 2, N) for c in Z[k]]) != w for w in wt]), key='wake-upper-half-unused')

def job_stored_intensity(res, n, N, spacing, buckets):
    """C10's clause "the stored CSR intensity is the sum of the stored spectrum": HDF5File stores bins 0 .. N/2-1 of every bunch's spectrum row (C10 append summaries) and the intensity updateCSR
    computed; so intensity[b] must equal delta_f * sum_{k < N/2} spectrum[b][k] for every profile and every impedance"""
    bld = field_build(); mod = load_module(bld, FIELD_MODS)
    snap, R, pre, plans, calib = field_world(bld, n, N, spacing, buckets, 0)
    nb = len(buckets)
    fft = UFFFT(plans); ex = Exec(mod, snap, RealDom(), {'fftwf_execute': fft}); st = State()
    P = sym_profiles(ex, st, R, n, nb); Z = sym_impedance(ex, st, R, N)
    dq = Fraction(f32(f32(12.0) / f32(n - 1))); fmax = Fraction(f32(1.0 / float(dq))); df = Fraction(f32(float(fmax) / f32(N - 1)))
    for s1 in run_paths(ex, st, 'e_csr', [R['field'], Fraction(0)]):
        account(res, ex, mod, [s1])
        spec = get_reals(ex, s1, s1.retval, nb * N); pw = get_reals(ex, s1, ex.run1(s1, 'e_csrpower', [R['field']]).retval, nb)
        bad = [pw[b] != sum([df * spec[b * N + k] for k in range(N // 2)], z3.RealVal(0)) for b in range(nb)]
        def cex(m): return {'replay': 'csr', 'what': 'stored-intensity', 'n': n, 'N': N, 'spacing': spacing, 'buckets': list(buckets), 'rho': [mval(m, v) for v in P], 'z': [mval(m, c) for zz in Z for c in zz], 'freq_delta': float(R['freq_delta'])}
        prove(res, 'n=%d N=%d buckets %s: CSR intensity[b] == delta_f * sum of the %d spectrum bins of bunch b that the results file stores (k < N/2)' % (n, N, list(buckets), N // 2), list(s1.pc) + [Z[k][0] >= 0 for k in range(N)], z3.Or(*bad),
              key='stored-intensity-sum', cex_fn=cex)

def replayer(bld):
    def rp(path, c):
        if c.get('replay') == 'parseval' and 'N' in c:
            # both sides from the real kernels in single precision: spectrum of the interior bins against the energy the (unscaled) wake takes from the same profile
            n, N = c['n'], c['N']; rho = [float(v) for v in c['rho']]; z = [float(v) for v in c['z']]
            o = native_run(bld, {'n': n, 'N': N, 'spacing': 0, 'buckets': [0], 'ops': ['c', 'w'], 'prof0': rho, 'z': z, 'cutoff': 0.0}, 'c07p')
            sc = o['wakescaling'][0] if isinstance(o['wakescaling'], list) else o['wakescaling']
            dq = f32(f32(12.0) / f32(n - 1)); rn = f32(dq * dq)
            lhs = sum(o['csr'][k] for k in range(1, N // 2)) / rn
            rhs = sum(rho[x] * o['wake'][x] / sc for x in range(n)) / 2 - f32(z[0]) * sum(rho) ** 2 / 2
            scale = max(abs(lhs), abs(rhs), sum(abs(rho[x] * o['wake'][x] / sc) for x in range(n)) / 2, 1e-300)
            return (abs(lhs - rhs) > 1e-3 * scale, 'native (n=%d N=%d, profile %s): sum of the interior spectrum bins / delta_q^2 = %.6g, energy taken by the wake minus DC term = %.6g' % (n, N, rho, lhs, rhs))
        if c.get('replay') != 'csr': return (True, 'algebraic identity over the real kernels: %s' % str(c)[:200])
        n, N, sp, bk = c['n'], c['N'], c['spacing'], c['buckets']; nb = len(bk)
        import random as _r; rr = _r.Random(13)
        rho = [float(v) if v else rr.uniform(0.1, 1) for v in c['rho']]; z = [float(v) if v else rr.uniform(0, 1) for v in c['z']]
        if c.get('wake_first'):
            o = native_run(bld, {'n': n, 'N': N, 'spacing': sp, 'buckets': bk, 'ops': ['w', 'c'], 'prof0': [rr.uniform(0.1, 1) for _ in rho], 'prof1': rho, 'z': z, 'cutoff': 0.0}, 'c07')
        else: o = native_run(bld, {'n': n, 'N': N, 'spacing': sp, 'buckets': bk, 'ops': ['c'], 'prof0': rho, 'z': z, 'cutoff': 0.0}, 'c07')
        if c.get('what') == 'stored-intensity':
            o = native_run(bld, {'n': n, 'N': N, 'spacing': sp, 'buckets': bk, 'ops': ['c'], 'prof0': rho, 'z': z, 'cutoff': 0.0}, 'c07')
            df = float(c['freq_delta']); worst = 0.0; sc = 1e-300
            for b in range(nb):
                tot = df * sum(o['csr'][b * N + k] for k in range(N // 2)); worst = max(worst, abs(o['csrpower'][b] - tot)); sc = max(sc, abs(o['csrpower'][b]))
            return (worst > 1e-5 * sc, 'native: the CSR intensity of a bunch exceeds delta_f * (sum of the N/2 spectrum bins the file stores) by %.3g (intensity %.3g): the bin at N/2 is summed but not stored' % (worst, sc))
        if c.get('what') == 'intensity':
            # native: stored intensity of every bunch against the sum of that bunch's own stored spectrum
            if c.get('cutoff'): o = native_run(bld, {'n': n, 'N': N, 'spacing': sp, 'buckets': bk, 'ops': ['c'], 'prof0': rho, 'z': z, 'cutoff': float(c['cutoff'])}, 'c07')
            df = float(c['freq_delta']); worst = 0.0; sc = 1e-300
            for b in range(nb):
                tot = df * sum(o['csr'][b * N + k] for k in range(N)); worst = max(worst, abs(o['csrpower'][b] - tot)); sc = max(sc, abs(tot))
            return (worst > 1e-4 * sc, 'native: CSR intensity of a bunch differs from delta_f * sum of its own spectrum by %.3g (scale %.3g)' % (worst, sc))
        dq = f32(f32(12.0) / f32(n - 1)); dev = 0.0; scale = 1e-300
        for b in range(nb):
            F = np.fft.rfft(np.array(rho[b * n:(b + 1) * n] + [0.0] * (N - n)))
            for k in range(N):
                want = (dq * dq * f32(z[2 * k]) * abs(F[k]) ** 2) if k <= N // 2 else 0.0
                dev = max(dev, abs(o['csr'][b * N + k] - want)); scale = max(scale, abs(want))
        return (dev > 1e-4 * scale, 'native CSR spectrum vs reference: max dev %.3g of %.3g' % (dev, scale))
    return rp
def get_replayer(): return replayer(field_build())

def main(tier):
    chk = Check('C07', tier, '4/C07')
    bld = field_build()
    if tier == 'quick':
        cfgs = [(4, 8, 0, (0,), 0), (4, 8, 0, (0,), 1), (4, 12, 5, (1, 0), 0), (3, 9, 4, (0, 1), 1), (5, 11, 0, (0,), 0), (4, 15, 5, (2, 0), 0), (4, 11, 5, (1,), 0), (3, 13, 4, (0, 2), 1)]      # incl. empty buckets below the last bunch
    else:
        cfgs = [(4, N, 5, b, c) for N in (8, 9, 10, 11, 12, 16) for b in ((0,), (0, 1), (1, 0)) if max(b) * 5 + 4 <= N for c in (0, 1)] + [(5, 20, 6, (0, 2), 0), (6, 13, 0, (0,), 1), (4, 24, 5, (1, 0), 1), (6, 32, 7, (0, 2), 0), (8, 50, 9, (1, 0), 1), (4, 64, 5, (3, 1), 0)]
    import c18
    jobs = [(c18.job_history, (4, 8, 0, (0,), 2, 0)), (c18.job_history, (3, 12, 4, (0, 2), 1, 1))]      # the spectrum is that of the current profile and the current cutoff, whatever was computed before (other profiles, the other cutoff setting)
    jobs += [(job_spectrum, c) for c in cfgs] + [(job_spectrum, tuple(c) + (True,)) for c in cfgs if not c[4]] + [(job_parseval, (n,)) for n in ((3, 4) if tier == 'quick' else (2, 3, 4))] + [(job_parseval, (n, 8)) for n in ((4, 5) if tier == 'quick' else (2, 3, 4, 5, 6, 7, 8))]
    chk.bounds = {'configurations (n, N, spacing, buckets, cutoff)': cfgs, 'Parseval': 'N = 4 and N = 8 with FFTW\'s documented r2c/c2r written out exactly (N = 8: twiddles in Q(sqrt 1/2), the root pinned by its defining equation), n = 2..8, single bunch in bucket 0, all profiles and complex impedances'}
    chk.assumptions = ['structure obligations: fftwf_execute uninterpreted (whole input buffer)', 'Parseval for N other than 4 and 8 is not decided (twiddles outside Q(sqrt 1/2)); it is a property of the DFT pair, the code-level content (which bins, which factor, which cells) is decided for all listed N',
                       'exp(): 0 < exp(t), and exp(t) <= 1 for t <= 0 (one fresh variable per call)', 'floats as reals; NaN/inf outside the claim']
    chk.stubs = ['fftwf_execute: uninterpreted / exact DFT at N=4', 'expf: fresh variable with monotonicity axioms', 'pow(x,2) = x*x']
    _r7 = replayer(bld); _r18 = c18.replayer(bld)
    chk.replayer = lambda path, c: (_r18 if c.get('replay') == 'history' else _r7)(path, c)
    chk.add(run_jobs(jobs, budget=600))
    chk.finish()

if __name__ == '__main__':
    main(sys.argv[1] if len(sys.argv) > 1 else 'quick')
