"""C12 - observing the simulation does not change it.  F1: frame conditions of every observer call (write sets from symbolic runs of the real code);
F2: schedule independence of the state-changing events over all paths of main's loop (mainloop.py)."""
import sys, os
sys.path.insert(0, os.path.dirname(os.path.abspath(__file__)))
from maps_common import *
import mainloop, c09, c10, field_common
from mainsetup import syms_of
from h5rec import H5Recorder

def alloc_of(snap, addr):
    import bisect
    starts = [a for a, n in snap.allocs]; i = bisect.bisect_right(starts, addr) - 1
    if i >= 0 and snap.allocs[i][0] <= addr < snap.allocs[i][0] + snap.allocs[i][1]: return snap.allocs[i]
    return None

def written(st, lo=None, hi=None):
    """byte ranges written during the logged run, restricted to the snapshot arena [lo, hi)"""
    out = []
    for a, n in st.wlog:
        if lo is not None and (a + n <= lo or a >= hi): continue
        out.append((a, n))
    return out

def net_changed(ex, st, snap, w):
    """a logged write counts only if it leaves the bytes different from the pre-state (a reference count that goes up and down again is no change)"""
    a, n = w
    try:
        if any(True for _ in ex._overlap(st, a, n)): return True
        return bytes(ex.read_bytes(st, a, n)) != bytes(snap.read(a, n))
    except Exception: return True

def inside(w, regions):
    a, n = w
    return any(r0 <= a and a + n <= r1 for r0, r1 in regions)

def frame(res, name, st, snap, allowed, key, ex=None):
    a0, an = snap.arena
    bad = [w for w in written(st, a0, a0 + an) if not inside(w, allowed) and (ex is None or net_changed(ex, st, snap, w))]
    res.obs.append(Ob('%s writes nothing outside %d allowed region(s) of the pre-existing objects (%d writes logged)' % (name, len(allowed), len(st.wlog)), 'holds' if not bad else 'violated', key=key,
                      detail='' if not bad else 'writes at %s' % [(hex(a), n) for a, n in bad[:4]], cex=None if not bad else {'replay': 'frame', 'call': name, 'writes': [(hex(a), n) for a, n in bad[:8]]}))
    res.paths += 1; res.instrs += st.nins

def job_ps_observers(res, n, nb, pat):
    bld = c09.ps_build(); mod = load_module(bld, c09.PS_MODS)
    snap, R, pre = c09.ps_world(bld, n, nb, pat)
    ex = Exec(mod, snap, RealDom()); ps = R['ps']
    def sym_state():
        st = State(); sym_reals(ex, st, R['data'], ['d%d' % i for i in range(nb * n * n)], 0, None); sym_reals(ex, st, R['proj'], ['p%d' % i for i in range(2 * nb * n)], 0, None)
        fl = sym_reals(ex, st, R['filling'], ['f%d' % i for i in range(nb)]); [st.pc.append(v > 0) for v in fl]
        return st
    reg = {'data': (R['data'], R['data'] + 4 * nb * n * n), 'projx': (R['proj'], R['proj'] + 4 * nb * n), 'projy': (R['proj'] + 4 * nb * n, R['proj'] + 8 * nb * n), 'filling': (R['filling'], R['filling'] + 4 * nb),
           'integral': (R['integral'], R['integral'] + 4), 'moment': (R['moment'], R['moment'] + 32 * nb), 'rms': (R['rms'], R['rms'] + 8 * nb)}
    for fn, args, allowed in (('e_integrate', [ps], ['filling', 'integral']), ('e_variance', [ps, 0], ['moment', 'rms']), ('e_updy', [ps], ['projy']), ('e_variance', [ps, 1], ['moment', 'rms'])):
        st = sym_state(); st.wlog = []; st = ex.run1(st, fn, args)
        frame(res, 'PhaseSpace::%s%s n=%d nb=%d' % (fn[2:], tuple(args[1:]), n, nb), st, snap, [reg[k] for k in allowed], 'frame-phasespace', ex)
    # integrate is idempotent: the extra call in the output block restores exactly what the loop head left
    st = sym_state(); s1 = ex.run1(st, 'e_integrate', [ps]); f1 = get_reals(ex, s1, R['filling'], nb) + get_reals(ex, s1, R['integral'], 1)
    s2 = ex.run1(s1, 'e_integrate', [ps]); f2 = get_reals(ex, s2, R['filling'], nb) + get_reals(ex, s2, R['integral'], 1)
    prove(res, 'PhaseSpace::integrate is idempotent (n=%d nb=%d): a second call leaves filling and integral unchanged' % (n, nb), s2.pc, z3.Or(*[a != b for a, b in zip(f1, f2)]), key='integrate-idempotent')
    # the observers do not change what the step reads: data and the position projection are term-identical afterwards
    st = sym_state(); d0 = get_reals(ex, st, R['data'], nb * n * n) + get_reals(ex, st, R['proj'], nb * n)
    for fn, args in (('e_integrate', [ps]), ('e_variance', [ps, 0]), ('e_updy', [ps]), ('e_variance', [ps, 1])): st = ex.run1(st, fn, args)
    d1 = get_reals(ex, st, R['data'], nb * n * n) + get_reals(ex, st, R['proj'], nb * n)
    prove(res, 'output-block observers (integrate, variance(0), updateYProjection, variance(1)) leave grid data and position projection unchanged (n=%d nb=%d)' % (n, nb), st.pc, z3.Or(*[a != b for a, b in zip(d0, d1)]), key='frame-phasespace')

def job_heap_independent(res, what, n, nb, it, dt=3, fptype=3):
    """equal inputs give equal outputs: a map built by its real constructor in storage of arbitrary content (operator new returns unwritten bytes), then one step on symbolic data -
    no cell of the result may depend on what the storage held, and no decision of constructor or step may (garbage symbols of the executor, see DESIGN 9.14)"""
    import c08
    from maps_common import maps_build, maps_world, MAPS_MODS
    bld = maps_build(); mod = load_module(bld, MAPS_MODS)
    snap, R, pre = maps_world(bld, n, nb, it, dt=dt, fptype=fptype)
    ex = Exec(mod, snap, RealDom()); st = State(); assert ex.garbage_heap
    D = c08.sym_data(ex, st, R, nb, n)
    F = Fraction
    ctor = {'rflin': ('e_new_rf_lin', [R['in'], R['out'], F(f32(0.07)), F(f32(5e8)), it]), 'rfsin': ('e_new_rf_sin', [R['in'], R['out'], F(f32(2e-3)), F(f32(1.2e6)), F(f32(5e8)), F(f32(3e4)), it]),
            'drift': ('e_new_drift', [R['in'], R['out'], R['slip'], F(f32(2.5e9)), it]), 'fp': ('e_new_fp', [R['in'], R['out'], fptype, 1, F(f32(0.02)), dt]), 'identity': ('e_new_identity', [R['in'], R['out']])}[what]
    outs = []
    for s0 in run_paths(ex, st, ctor[0], ctor[1]):
        outs += run_paths(ex, s0, 'e_apply', [s0.retval])
    account(res, ex, mod, outs)
    bad = []; dec = []
    for s in outs:
        cells = get_reals(ex, s, R['data_out'], nb * n * n)
        bad += [i for i, c in enumerate(cells) if any(x.startswith('garb') for x in syms_of(c))]
        dec += [str(c)[:80] for c in s.pc[len(st.pc):] if any(x.startswith('garb') for x in syms_of(c))]
    res.obs.append(Ob('%s n=%d nb=%d it=%d: built in storage of arbitrary content and applied once - no cell of the target grid depends on what the storage held before (%d paths)' % (what, n, nb, it, len(outs)),
                      'holds' if not bad else 'violated', key='heap-independent', detail='' if not bad else 'cells %s mention never-written heap bytes' % bad[:6], cex=None if not bad else {'replay': 'structural', 'cells': bad[:6]}))
    res.obs.append(Ob('%s n=%d nb=%d it=%d: no decision of constructor or step depends on never-written storage' % (what, n, nb, it), 'holds' if not dec else 'violated', key='heap-independent', detail=str(dec[:2])))
    witness(res, '%s: the target grid depends on the data (n=%d)' % (what, n), [], z3.BoolVal(any(occurs(c, D[0][(n // 2) * n + n // 2]) for c in get_reals(ex, outs[0], R['data_out'], n * n))))

def job_field_observers(res, n, N, spacing, buckets):
    bld = field_common.field_build(); mod = load_module(bld, field_common.FIELD_MODS)
    snap, R, pre, plans, calib = field_common.field_world(bld, n, N, spacing, buckets)
    fft = field_common.UFFFT(plans); ex = Exec(mod, snap, RealDom(), {'fftwf_execute': fft}); st = State(); nb = len(buckets)
    for i in range(nb * n): st.sym[R['proj0'] + 4 * i] = (4, 'f', z3.Real('rho%d' % i))
    st.wlog = []; st = ex.run1(st, 'e_csr', [R['field'], Fraction(0)])
    # allowed: everything that is not the phase space, the impedance or the wake map, i.e. the field's own buffers: express as "not in these allocations"
    forbidden = [alloc_of(snap, R[k]) for k in ('proj0', 'zdata', 'wpm_force', 'wp_padded')]
    a0, an = snap.arena
    bad = [w for w in written(st, a0, a0 + an) if any(f and f[0] <= w[0] < f[0] + f[1] for f in forbidden) and net_changed(ex, st, snap, w)]
    res.obs.append(Ob('ElectricField::updateCSR n=%d N=%d buckets %s writes nothing into the phase space projections, the impedance, the wake buffers or the wake map (%d writes logged)' % (n, N, list(buckets), len(st.wlog)),
                      'holds' if not bad else 'violated', key='frame-updateCSR', cex=None if not bad else {'replay': 'frame', 'writes': [(hex(a), k) for a, k in bad[:8]]}))
    res.paths += 1; res.instrs += st.nins

def job_h5_observers(res, n, nb, N, npart):
    bld = c10.h5_build(); mod = load_module(bld, c10.H5_MODS)
    snap, R, pre = c10.h5_world(bld, n, nb, N, npart)
    rec, ex, st, S, h5 = c10.construct(res, mod, snap, R, n, nb, N, npart)
    a0, an = snap.arena
    for fn, args in (('e_append_ps', [h5, R['psobj'], Fraction(1, 4), 0]), ('e_append_ps', [h5, R['psobj'], Fraction(1, 2), 1]), ('e_append_ef', [h5, R['rdtn']]), ('e_append_wkm', [h5, R['wkm']]), ('e_append_tracks', [h5, R['tracks']]),
                     ('e_append_rf', [h5, R['kicks']]), ('e_append_padded', [h5, R['wake']])):
        st.wlog = []; st = ex.run1(st, fn, args)
        bad = [w for w in written(st, a0, a0 + an) if net_changed(ex, st, snap, w)]
        res.obs.append(Ob('HDF5File::%s n=%d nb=%d: writes nothing into any pre-existing object (phase space, fields, maps, particles): only the file object and temporaries (%d writes logged)' % (fn[2:], n, nb, len(st.wlog)),
                          'holds' if not bad else 'violated', key='frame-hdf5', cex=None if not bad else {'replay': 'frame', 'call': fn, 'writes': [(hex(a), k) for a, k in bad[:8]]}))
        res.paths += 1
    res.instrs += st.nins

def job_map_observers(res, n, it, fptrack):
    bld = maps_build(); mod = load_module(bld, MAPS_MODS)
    snap, R, pre = maps_world(bld, n, 1, it, fptrack=fptrack)
    ex = Exec(mod, snap, RealDom()); ex.int_range = (-2, n + 2)
    import c15
    ex.ext_prefix.append((c15.NORMAL_PFX, c15.make_normal_model([])))
    a0, an = snap.arena
    for what in ('kmx', 'kmy', 'fpm', 'idm'):
        st = State(); px = z3.Real('px'); py = z3.Real('py'); st.pc += [px >= 1, px <= n - 2, py >= 1, py <= n - 2]; st.ranges.update({'px': (Fraction(1), Fraction(n - 2)), 'py': (Fraction(1), Fraction(n - 2))})
        st.sym[R['pos']] = (4, 'f', px); st.sym[R['pos'] + 4] = (4, 'f', py); st.wlog = []
        sts = run_paths(ex, st, 'e_applyTo', [R[what], R['pos']])
        bad = []
        for s in sts: bad += [w for w in written(s, a0, a0 + an) if not inside(w, [(R['pos'], R['pos'] + 8)]) and net_changed(ex, s, snap, w)]
        res.obs.append(Ob('%s::applyTo (n=%d, tracking model %d): writes only the particle position (%d paths)' % (what, n, fptrack, len(sts)), 'holds' if not bad else 'violated', key='frame-applyTo',
                          cex=None if not bad else {'replay': 'frame', 'call': what, 'writes': [(hex(a), k) for a, k in bad[:8]]}))
        res.paths += len(sts); res.instrs += sum(s.nins for s in sts)
    # getPastModulation leaves the pending queue, the displacement field and the table untouched
    st = State(); drf = R['drfsin']; st = ex.run1(st, 'e_apply', [drf]); st.wlog = []
    st = ex.run1(st, 'e_drf_past', [drf])
    obj = alloc_of(snap, drf); bad = [w for w in written(st, a0, a0 + an) if not (obj[0] <= w[0] and w[0] + w[1] <= obj[0] + obj[1])]
    res.obs.append(Ob('DynamicRFKickMap::getPastModulation writes only inside the map object itself (record vector header): queue storage, displacement field and source-map table untouched', 'holds' if not bad else 'violated', key='frame-getPast'))
    nn = ex.run1(st, 'e_drf_nnext', [drf]).retval
    res.obs.append(Ob('getPastModulation leaves the pending modulation queue length unchanged (%s)' % nn, 'holds' if nn == 2 else 'violated', key='frame-getPast'))


def job_steps_read_only_the_grid(res, n, nb, it):
    """a transport step computes its result from the source grid (and the map's own table) only: what observers maintain on the source phase space - both projections, the bunch charges,
    the integral, the moments and rms values - is overlaid with symbols; no target cell and no decision of the step may mention them (so it cannot matter when an observer last refreshed them)"""
    bld = maps_build(); mod = load_module(bld, MAPS_MODS)
    snap, R, pre = maps_world(bld, n, nb, it)
    regs = {'proj': (R['proj_in'], 2 * nb * n), 'filling': (R['filling_in'], nb), 'integral': (R['integral_in'], 1), 'moment': (R['moment_in'], int(R['sz_moment_in'])), 'rms': (R['rms_in'], int(R['sz_rms_in']))}
    for what in ('kmx', 'kmy', 'rflin', 'rfsin', 'drift', 'fpm', 'idm', 'drfsin'):
        ex = Exec(mod, snap, RealDom()); st = State(); obs = []
        for k, (a, cnt) in regs.items():
            for i in range(cnt):
                v = z3.Real('obs_%s_%d' % (k, i)); st.sym[a + 4 * i] = (4, 'f', v); obs.append(v); st.pc.append(v >= 0)
        npc = len(st.pc)
        if what in ('kmx', 'kmy'): outs_ = run_paths(ex, st, 'e_km_swap_apply', [R[what], R['offy' if what == 'kmy' else 'offx']])
        else: outs_ = run_paths(ex, st, 'e_apply', [R[what]])
        account(res, ex, mod, outs_)
        names = {str(v) for v in obs}; bad = []
        from mainsetup import syms_of
        for s1 in outs_:
            for c in s1.pc[npc:]:
                if syms_of(c) & names: bad.append('a decision of the step depends on %s' % sorted(syms_of(c) & names)[:3])
            for i, t in enumerate(get_reals(ex, s1, R['data_out'], nb * n * n)):
                if syms_of(t) & names: bad.append('target cell %d depends on %s' % (i, sorted(syms_of(t) & names)[:3])); break
        res.obs.append(Ob('%s n=%d nb=%d it=%d: the step reads the source grid only - no target cell and no decision depends on projections, charges, integral or moments of the source (%d path(s))' % (what, n, nb, it, len(outs_)),
                          'holds' if not bad else 'violated', key='step-reads-grid-only', detail='; '.join(bad[:2]), cex=None if not bad else {'replay': 'structural', 'what': what, 'why': bad[:2]}))
    res.obs.append(Ob('observer-state overlay in place (%d cells)' % sum(c for _, c in regs.values()), 'witness-ok', kind='witness'))

def job_drf_noninterference(res, n, it, which):
    """Fetching the applied-modulation record (done only when a record is written) must not influence later steps: the same steps with and without
    interleaved getPastModulation() calls leave the same grid, displacement field and pending modulation (noise draws: shared symbols, one per draw)."""
    import c19
    bld = maps_build(); mod = load_module(bld, MAPS_MODS)
    snap, R, pre = maps_world(bld, n, 1, it); drf = R[which]
    def run(schedule):
        draws = []
        ex = Exec(mod, snap, RealDom()); ex.ext_prefix.append((c19.NORMAL_PFX, c19.normal_real(draws))); st = State()
        for op in schedule: st = ex.run1(st, 'e_apply' if op == 'a' else 'e_drf_past', [drf])
        nn = ex.run1(st, 'e_drf_nnext', [drf]).retval; npast = ex.run1(st, 'e_drf_npast', [drf]).retval
        obs = {'grid': get_reals(ex, st, R['data_out'], n * n), 'field': get_reals(ex, st, ex.run1(st, 'e_force', [drf]).retval, n), 'pending': nn}
        if nn: fp = ex.run1(st, 'e_drf_front', [drf]).retval; obs['queue'] = get_reals(ex, st, fp, 2 * min(nn, 32))
        else: obs['queue'] = []
        res.paths += 1; res.instrs += st.nins
        return obs, st, npast, ex
    ref, s0, np0, ex0 = run('aaa'); account(res, ex0, mod, [s0])
    for sched in ('apapa', 'paapa', 'apaap', 'appaa'):
        o, s1, np1, _ = run(sched)
        same_len = o['pending'] == ref['pending'] and len(o['queue']) == len(ref['queue'])
        diffs = [a != b for k in ('grid', 'field', 'queue') for a, b in zip(o[k], ref[k])] if same_len else [z3.BoolVal(True)]
        prove(res, '%s n=%d it=%d: three steps with the record fetched in between (schedule %s) leave grid, displacement field and pending modulation (%d entries) identical to three steps without fetching' % (which, n, it, sched, ref['pending']),
              list(s0.pc) + list(s1.pc), z3.Or(*diffs) if diffs else z3.BoolVal(False), key='record-fetch-noninterference', cex_fn=lambda m, sched=sched: {'replay': 'frame', 'call': 'getPastModulation', 'schedule': sched, 'pending': [ref['pending'], o['pending']]})
        res.obs.append(Ob('fetching really empties the record in schedule %s (%d entries left vs %d without fetching): the comparison is not vacuous' % (sched, np1, np0), 'witness-ok' if np1 < np0 else 'witness-failed', kind='witness'))

def main(tier):
    chk = Check('C12', tier, '4/C12')
    jobs = [(job_ps_observers, (5, 2, 1)), (job_ps_observers, (4, 3, 2)), (job_field_observers, (4, 12, 5, (1, 0))), (job_field_observers, (4, 8, 0, (0,))), (job_h5_observers, (4, 2, 12, 2)),
            (job_map_observers, (8, 4, 1)), (job_map_observers, (8, 2, 2)), (job_map_observers, (8, 4, 3)), (job_drf_noninterference, (8, 4, 'drfsin')), (job_drf_noninterference, (8, 3, 'drflin'))]
    import preloop
    jobs += [(job_steps_read_only_the_grid, (8, 2, 4)), (job_steps_read_only_the_grid, (9, 1, 2))]
    jobs += [(preloop.job_rw_sets, ()), (preloop.job_rw_sets, (5, 1))]      # what an observer computes is a function of what it observes: moments from projection and charges only - not from what an earlier observation left behind
    jobs += [(job_heap_independent, (w, 6, 2, 3)) for w in ('rflin', 'rfsin', 'drift', 'fp', 'identity')] + [(job_heap_independent, ('fp', 6, 1, 4, 4, 1))]
    import c14 as _c14
    jobs += [(_c14.job_process_state, ())]      # results must not depend on which object of the process came first (function-local / file-scope statics)
    jobs += mainloop.jobs_for('C12', tier)
    K = 2 if tier == 'quick' else 3
    chk.bounds = {'frame conditions': 'write sets of symbolic runs of every observer call on small grids (4-8), all data symbolic', 'schedule independence': 'all paths of main\'s loop with <= %d iterations; symbolic cadences and presence flags' % K}
    chk.assumptions = ['bit-identity of two separate processes (FFTW wisdom/planner determinism, random_device) and the effect of log verbosity inside Display::printText are outside: the second sentence of the statement is not claimed',
                       'OpenGL display path not compiled', 'a call is an event; its effect on the simulation state is given by the frame conditions above or (for the transport steps) is the step itself']
    chk.stubs = ['HDF5 C++ API recorder', 'FFT uninterpreted', 'normal_distribution draw: fresh real', 'main: calls as events']
    _rs = run_jobs(jobs, budget=1500 if tier == 'quick' else 6000); _rs.append(mainloop.loop_witness(_rs, 'C12')); chk.add(_rs)
    chk.finish()

if __name__ == '__main__':
    main(sys.argv[1] if len(sys.argv) > 1 else 'quick')
