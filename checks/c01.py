"""C01 - every transport step conserves the charge of a distribution inside the grid."""
import sys, os
sys.path.insert(0, os.path.dirname(os.path.abspath(__file__)))
from maps_common import *

TAU = Fraction(2, 10**6)

def absz(v): return z3.If(v >= 0, v, -v)

def conservation_goal(outs, ins, extra=None):
    """negation of |sum out - sum in| <= TAU * sum|in| (+ extra)"""
    tot = sum(outs[1:], outs[0]); tin = sum(ins[1:], ins[0]); bound = z3.RealVal(str(TAU)) * sum([absz(v) for v in ins[1:]], absz(ins[0]))
    if extra is not None: bound = bound + extra
    d = tot - tin
    return z3.Or(d > bound, d < -bound), d

def job_kick_row(res, n, nb, it, axis, b, r, margin, kmax, sparse=False):
    """generic kick: row r of bunch b gets a symbolic displacement off in [-kmax, kmax] (integer part case-split, fraction real) and symbolic
    data supported >= margin cells from both borders; all other rows keep the concrete random values of the snapshot."""
    bld = maps_build(); mod = load_module(bld, MAPS_MODS)
    snap, R, pre = maps_world(bld, n, nb, it)
    if (b, r) == (0, 0) and not sparse: validate(res, mod, snap, pre)
    km = 'kmy' if axis else 'kmx'; off = 'offy' if axis else 'offx'
    ex = Exec(mod, snap, RealDom()); st = State()
    if sparse: ex.time_budget = 2400
    o = z3.Real('off'); st.pc += [o >= -kmax, o <= kmax]; st.ranges['off'] = (Fraction(-kmax), Fraction(kmax))
    ob = b if axis else 0
    offvals = [float(v) for v in [ex.load(st, R[off + '_data'] + 4 * i, F32) for i in range(nb * n)]]
    st.sym[R[off + '_data'] + 4 * (ob * n + r)] = (4, 'f', o)
    # cells of the "row" along the kick direction: y-kick: data[b][r][y] ; x-kick: data[b][x][r]
    def cell(i): return R['data_in'] + 4 * (b * n * n + (r * n + i if axis else i * n + r))
    def ocell(i): return R['data_out'] + 4 * (b * n * n + (r * n + i if axis else i * n + r))
    ins = []
    if sparse:      # a grid beyond the default size (blocked loops, tails): the whole grid zero, the row symbolic on cells around the block boundaries only
        ex.max_ins = 600_000_000; ex.int_range = (-64, n + 64); ex.write_bytes(st, R['data_in'], bytes(4 * nb * n * n))
        lines = {v for v in (margin, margin + 1, n // 2, 126, 127, 128, 129, 254, 255, 256, 257, 258, n - margin - 2, n - margin - 1) if margin <= v < n - margin}
    for i in range(n):
        if margin <= i < n - margin and (not sparse or i in lines):
            v = z3.Real('d%d' % i); st.pc += [v >= -1, v <= 1]; st.sym[cell(i)] = (4, 'f', v); ins.append(v)
        else:
            ex.write_bytes(st, cell(i), bytes(4))
    sts = run_paths(ex, st, 'e_km_swap_apply', [R[km], R[off]]); account(res, ex, mod, sts)
    for s in sts:
        outs = [ex.dom.z(ex.load(s, ocell(i), F32)) for i in range(n)]
        goal, d = conservation_goal(outs, ins)
        def cex(m, s=s):
            rd = [0.0] * n; k = 0
            for i in range(n):
                if margin <= i < n - margin and (not sparse or i in lines): rd[i] = mval(m, ins[k]); k += 1
            return {'replay': 'kick', 'n': n, 'nb': nb, 'it': it, 'axis': axis, 'bunch': b, 'row': r, 'off': mval(m, o), 'offall': offvals, 'row_data': rd, 'defect': mval(m, d), 'sparse': sparse}
        kcase = [str(c) for c in s.pc if 'off' in str(c)][-1:]
        prove(res, 'generic %s-kick n=%d nb=%d it=%d bunch %d row %d case %s: |sum out - sum in| <= 2e-6*sum|in|' % ('y' if axis else 'x', n, nb, it, b, r, kcase),
              s.pc, goal, key='kick-conservation', cex_fn=cex, timeout_ms=(900000 if sparse else 120000))
    # witnesses: the row's output depends on off; and the obligation machinery can fail (wrong claim sum out = 2 sum in is refuted)
    s = sts[0]; outs = [ex.dom.z(ex.load(s, ocell(i), F32)) for i in range(n)]
    if it >= 2:
        o2 = z3.Real('off_alt'); alt = [z3.substitute(c, (o, o2)) for c in outs]
        witness(res, 'row output depends on its displacement (n=%d it=%d axis=%d b=%d r=%d)' % (n, it, axis, b, r), list(s.pc) + [z3.substitute(c, (o, o2)) for c in s.pc if 'off' in str(c)], z3.Or(*[a != c for a, c in zip(alt, outs)]))
    witness(res, 'twin with a false claim (sum out == 2*sum in) is refuted (n=%d it=%d axis=%d b=%d r=%d)' % (n, it, axis, b, r), s.pc, sum(outs[1:], outs[0]) != 2 * sum(ins[1:], ins[0]))

def job_fixed_kick(res, what, n, nb, it, margin):
    """RF kick (both models) and drift with the displacement field the real constructor computes (concrete machine parameters); all interior data symbolic"""
    bld = maps_build(); mod = load_module(bld, MAPS_MODS)
    snap, R, pre = maps_world(bld, n, nb, it)
    ex = Exec(mod, snap, RealDom()); st = State()
    force = get_reals(ex, st, R[what + '_force'], n)
    ins = []
    for b in range(nb):
        for x in range(n):
            for y in range(n):
                a = R['data_in'] + 4 * (b * n * n + x * n + y)
                if margin <= x < n - margin and margin <= y < n - margin:
                    v = z3.Real('d_%d_%d_%d' % (b, x, y)); st.pc += [v >= -1, v <= 1]; st.sym[a] = (4, 'f', v); ins.append(v)
                else: ex.write_bytes(st, a, bytes(4))
    sts = run_paths(ex, st, 'e_apply', [R[what]]); account(res, ex, mod, sts)
    outs = get_reals(ex, sts[0], R['data_out'], nb * n * n)
    goal, d = conservation_goal(outs, ins)
    def cex(m): return {'replay': what, 'n': n, 'nb': nb, 'it': it, 'defect': mval(m, d), 'data': [mval(m, v) for v in ins], 'margin': margin}
    prove(res, '%s n=%d nb=%d it=%d: charge of interior-supported data (margin %d) conserved; displacement field max %.3f cells' % (what, n, nb, it, margin, max(abs(float(z3.simplify(f).as_fraction())) for f in force)),
          sts[0].pc, goal, key='%s-conservation' % what, cex_fn=cex)
    witness(res, '%s: twin with a false claim is refuted' % what, sts[0].pc, sum(outs[1:], outs[0]) != 2 * sum(ins[1:], ins[0]))

def job_fp(res, n, nb, fptype, dt, margin):
    """Fokker-Planck step built by the real constructor *run from IR with a symbolic damping decrement e1 in (0, 1/4]*; one column of data symbolic.
    Per unit source cell (the operator is linear - also an obligation): the column sum is 1 (to TAU) away from the rows where the 4-point stencil
    switches sides; next to the switch the defect is <= 4*e1."""
    bld = maps_build(); mod = load_module(bld, MAPS_MODS)
    pmin, pmax = -6.0, (6.5 if n % 2 == 0 else 6.0)
    snap, R, pre = maps_world(bld, n, nb, 4, pmin=pmin, pmax=pmax, qmin=-4.0, qmax=8.0)   # shifted energy axis: zero bin off-centre; position axis shifted differently (its zero bin is rows away)
    ex = Exec(mod, snap, RealDom()); st = State()
    e1 = z3.Real('e1'); st.pc += [e1 > 0, e1 <= Fraction(1, 4)]; st.ranges['e1'] = (Fraction(0), Fraction(1, 4))
    st = ex.run1(st, 'e_new_fp', [R['in'], R['out'], fptype, 1, e1, dt]); fpm = st.retval
    zb = ((pmin + pmax) / (pmin - pmax) + 1) * (n - 1) / 2
    switch = set()
    if dt == 4:
        zc = int(math.floor(zb))     # first row using the upper stencil: the second loop starts at meshindex_t(ycenter), i.e. the truncated zero bin
        switch = {zc - 2, zc - 1, zc, zc + 1}
    rows = list(range(margin, n - margin)); D = {}
    for b in range(nb):
        x = n // 2 + (b % 2)
        for y in range(n):
            a = R['data_in'] + 4 * (b * n * n + x * n + y)
            if y in rows:
                v = z3.Real('d_%d_%d' % (b, y)); st.sym[a] = (4, 'f', v); D[(b, y)] = v
            else: ex.write_bytes(st, a, bytes(4))
    sts = run_paths(ex, st, 'e_apply', [fpm]); account(res, ex, mod, sts)
    s = sts[0]; tau = z3.RealVal(str(TAU))
    for b in range(nb):
        x = n // 2 + (b % 2)
        outs = [ex.dom.z(ex.load(s, R['data_out'] + 4 * (b * n * n + x * n + y), F32)) for y in range(n)]
        units = {}
        for srow in rows:
            sub = [(D[(b, y)], z3.RealVal(1 if y == srow else 0)) for y in rows]
            o = [z3.simplify(z3.substitute(c, *sub)) for c in outs]; units[srow] = o
            tot = sum(o[1:], o[0]); allow = tau + (4 * e1 if srow in switch else 0)
            def cex(m, b=b, srow=srow, tot=tot): return {'replay': 'fp', 'n': n, 'nb': nb, 'fptype': fptype, 'dt': dt, 'e1': mval(m, e1), 'bunch': b, 'col': n // 2 + (b % 2), 'col_data': [1.0 if y == srow else 0.0 for y in range(n)], 'defect': mval(m, tot - 1), 'pmax': pmax, 'switch': srow in switch}
            prove(res, 'Fokker-Planck fptype=%d dt=%d n=%d bunch %d, unit charge in row %d, every e1 in (0,1/4]: total charge after the step is 1 within %s' % (fptype, dt, n, b, srow, '2e-6 + 4*e1 (row next to the stencil switch)' if srow in switch else '2e-6'),
                  s.pc, z3.Or(tot - 1 > allow, tot - 1 < -allow), key='fp-conservation', cex_fn=cex)
        prove(res, 'Fokker-Planck fptype=%d dt=%d n=%d bunch %d: output column is the superposition of the unit-cell responses (linear in the data)' % (fptype, dt, n, b), s.pc,
              z3.Or(*[outs[y] != sum([D[(b, r)] * units[r][y] for r in rows], z3.RealVal(0)) for y in range(n)]), key='fp-linearity')
        if fptype != 0:
            witness(res, 'FP fptype=%d dt=%d: output depends on e1' % (fptype, dt), list(s.pc) + [z3.Real('e1b') > 0, z3.Real('e1b') <= Fraction(1, 4)], z3.Or(*[z3.substitute(c, (e1, z3.Real('e1b'))) != c for c in outs]))
        witness(res, 'FP fptype=%d dt=%d: twin with a false claim is refuted' % (fptype, dt), s.pc, sum(units[rows[0]][1:], units[rows[0]][0]) != 2)

def job_target_overwritten(res, what, n, nb, it):
    """a transport step is a function of its source grid: whatever the target grid held before (an earlier step's result) is overwritten, no old charge survives.  Every cell of the
    target is symbolic before the call; for the generic kicks one row of every bunch is displaced off the grid and another by half the grid (the rows such steps zero)."""
    bld = maps_build(); mod = load_module(bld, MAPS_MODS)
    snap, R, pre = maps_world(bld, n, nb, it)
    ex = Exec(mod, snap, RealDom()); st = State()
    OLD = sym_reals(ex, st, R['data_out'], ['old%d' % i for i in range(nb * n * n)], -1, 1)
    if what in ('kmx', 'kmy'):
        off = 'offy' if what == 'kmy' else 'offx'
        for b in range(nb):
            for r, v in ((1, float(n)), (n - 2, -float(n) - 0.5), (n // 2, float(n // 2)), (2, -float(n // 2) - 0.25)):
                ex.write_bytes(st, R[off + '_data'] + 4 * (b * n + r), struct.pack('<f', v))
        sts = run_paths(ex, st, 'e_km_swap_apply', [R[what], R[off]])
    else: sts = run_paths(ex, st, 'e_apply', [R[what]])
    account(res, ex, mod, sts)
    for s1 in sts:
        outs = get_reals(ex, s1, R['data_out'], nb * n * n)
        alt = [z3.Real('alt%d' % i) for i in range(nb * n * n)]
        sub = list(zip(OLD, alt))
        def cex(m): return {'replay': 'target', 'what': what, 'n': n, 'nb': nb, 'it': it}
        prove(res, '%s n=%d nb=%d it=%d: no cell of the target grid depends on what the target held before the step (all %d cells; rows displaced off the grid included)' % (what, n, nb, it, nb * n * n), s1.pc,
              z3.Or(*[z3.substitute(o, *sub) != o for o in outs if not z3.is_rational_value(o)] + [z3.BoolVal(False)]), key='target-overwritten', cex_fn=cex)
    witness(res, '%s: target cells are computed (n=%d)' % (what, n), sts[0].pc, z3.BoolVal(True))

def job_identity(res, n, nb):
    bld = maps_build(); mod = load_module(bld, MAPS_MODS)
    snap, R, pre = maps_world(bld, n, nb, 4)
    ex = Exec(mod, snap, RealDom()); st = State()
    ins = sym_reals(ex, st, R['data_in'], ['d%d' % i for i in range(nb * n * n)], -1, 1)
    sts = run_paths(ex, st, 'e_apply', [R['idm']]); account(res, ex, mod, sts)
    outs = get_reals(ex, sts[0], R['data_out'], nb * n * n)
    prove(res, 'identity n=%d nb=%d: every cell of every bunch copied unchanged' % (n, nb), sts[0].pc, z3.Or(*[a != b for a, b in zip(outs, ins)]), key='identity-copy',
          cex_fn=lambda m: {'replay': 'idm', 'n': n, 'nb': nb, 'data': [mval(m, v) for v in ins]})

def replayer(bld):
    def rp(path, c):
        what = c['replay']; n = c['n']; nb = c['nb']
        if what == 'target':
            w = c['what']; spec = {'n': n, 'nb': nb, 'it': c['it'], 'seed': 7}
            if w in ('kmx', 'kmy'):
                off = [0.3] * (nb * n)
                for b in range(nb):
                    for r, v in ((1, float(n)), (n - 2, -float(n) - 0.5), (n // 2, float(n // 2)), (2, -float(n // 2) - 0.25)): off[b * n + r] = v
                spec.update({'what': 'kick', 'axis': 1 if w == 'kmy' else 0, 'off': off})
            else:
                spec.update({'what': {'fpm': 'fp', 'idm': 'identity'}.get(w, w)})
                if w == 'drift': spec.update({'slip': [0.11, 0.013, 0.0017], 'E0': 1.3e9})
            oa = native_run(bld, dict(spec, out_fill=0.0), 'c01a')['out']; ob = native_run(bld, dict(spec, out_fill=0.77), 'c01b')['out']
            nd = sum(1 for x, y in zip(oa, ob) if x != y)
            return (nd > 0, 'native: %d target cells differ between a run into an empty target grid and a run into a target grid filled with 0.77' % nd)
        if what == 'kick':
            b, r, axis = c['bunch'], c['row'], c['axis']
            data = [0.0] * (nb * n * n)
            for i, v in enumerate(c['row_data']): data[b * n * n + (r * n + i if axis else i * n + r)] = float(v)
            off = list(c['offall']); off[(b if axis else 0) * n + r] = float(c['off'])
            o = native_run(bld, {'what': 'kick', 'n': n, 'nb': nb, 'it': c['it'], 'seed': 7, 'axis': axis, 'data': data, 'off': off}, 'c01')
        elif what in ('rflin', 'rfsin', 'drift', 'idm'):
            m = c.get('margin', 0); data = []; it_ = iter(c['data'])
            for b in range(nb):
                for x in range(n):
                    for y in range(n): data.append(float(next(it_)) if (m <= x < n - m and m <= y < n - m) else 0.0)
            o = native_run(bld, {'what': {'idm': 'identity'}.get(what, what), 'n': n, 'nb': nb, 'it': c.get('it', 4), 'seed': 7, 'data': data}, 'c01')
        elif what == 'fp':
            b = c['bunch']; data = [0.0] * (nb * n * n)
            for y, v in enumerate(c['col_data']): data[b * n * n + c['col'] * n + y] = float(v)
            o = native_run(bld, {'what': 'fp', 'n': n, 'nb': nb, 'it': 4, 'seed': 7, 'fptype': c['fptype'], 'dt': c['dt'], 'e1': float(c['e1']), 'pmax': c['pmax'], 'pmin': -6.0, 'qmin': -4.0, 'qmax': 8.0, 'data': data}, 'c01')
        sin = sum(o['in']); sout = sum(o['out']); sabs = sum(abs(v) for v in o['in'])
        if what == 'idm': return (o['in'] != o['out'], 'native identity copy differs' if o['in'] != o['out'] else 'identical natively')
        allow = 4e-6 * sabs + 1e-6
        if what == 'fp' and c.get('switch'): allow += 4 * float(c['e1']) * sabs
        return (abs(sout - sin) > allow, 'native: sum in %.7g, sum out %.7g, defect %.3g (allowed %.3g)' % (sin, sout, sout - sin, allow))
    return rp

def get_replayer(): return replayer(maps_build())

def main(tier):
    chk = Check('C01', tier, '4/C01')
    bld = maps_build()
    jobs = []
    if tier == 'quick':
        kcfg = [(10, 2, 4, 3, 1), (10, 1, 3, 3, 1), (9, 2, 2, 3, 2), (8, 1, 1, 2, 1), (11, 2, 3, 4, 1), (9, 1, 4, 3, 1)]
        rows = lambda n, nb: [(0, 0), (nb - 1, n // 2), (nb - 1, n - 1)]
        fixed = [(w, 10, 2, it, 3) for w in ('rflin', 'rfsin', 'drift') for it in (4, 2)]
        fps = [(16, 2, ft, dt, 2 if dt == 3 else 4) for ft in (3, 1, 2, 0) for dt in (3, 4)]
        ids = [(6, 2), (5, 3)]
    else:
        kcfg = [(n, nb, it, 4 if n >= 10 else 3, 2 if n >= 10 else 1) for n in (9, 10, 12) for nb in (1, 2) for it in (1, 2, 3, 4)]
        rows = lambda n, nb: [(b, r) for b in range(nb) for r in range(n)]
        fixed = [(w, n, nb, it, 3) for w in ('rflin', 'rfsin', 'drift') for n in (9, 10, 12) for nb in (1, 2) for it in (1, 2, 3, 4)]
        fps = [(n, nb, ft, dt, 2 if dt == 3 else 4) for n in (15, 16, 20) for nb in (1, 2) for ft in (0, 1, 2, 3) for dt in (3, 4)]
        ids = [(6, 2), (5, 3), (9, 1)]
    for (n, nb, it, margin, kmax) in kcfg:
        for axis in (0, 1):
            seen = set()
            for (b, r) in rows(n, nb):
                if (b, r) in seen: continue
                seen.add((b, r)); jobs.append((job_kick_row, (n, nb, it, axis, b, r, margin, kmax)))
    if tier != 'quick': jobs += [(job_kick_row, (260, 1, it, axis, 0, r, 4, 2, True)) for it in (2, 4) for axis in (0, 1) for r in (0, 128, 256, 259)]
    jobs += [(job_fixed_kick, a) for a in fixed] + [(job_fp, a) for a in fps] + [(job_identity, a) for a in ids]
    jobs += [(job_target_overwritten, (w, n_, nb_, it_)) for w in ('kmx', 'kmy', 'rflin', 'drift', 'fpm', 'idm') for (n_, nb_, it_) in (((8, 2, 4), (9, 1, 2)) if tier == 'quick' else ((8, 2, 4), (9, 1, 2), (10, 2, 3), (7, 3, 1)))]
    chk.bounds = {'generic kick': 'grids %s, bunches 1-2, 1-4 interpolation points, both axes; one row at a time with symbolic displacement |off| <= kmax (integer part case-split by the solver, fraction real) and symbolic data >= 3 cells from the border; other rows concrete' % sorted({c[0] for c in kcfg}),
                  'rf/drift': 'displacement field from the real constructor at the harness parameters; all interior data symbolic',
                  'fokker-planck': 'constructor run from IR with symbolic e1 in (0,1/4], all 4 FP types x 3/4-point stencil, shifted energy axis, grid 16 (15,16,20), one symbolic column per bunch supported >= 2 (3-point) / 4 (4-point) rows from the border, decided per unit source cell + linearity obligation',
                  'tolerance': '2e-6 * sum|in| (covers the inexact float constant 1/6 of the cubic weights)'}
    chk.assumptions = ['floats as exact reals with exact binary constants; accumulation rounding of a whole grid is outside the claim',
                       'row independence of the kick kernels is obligation C08/C02 (other rows concrete here)', 'OpenCL kernels are not compiled in this build and are outside the claim']
    chk.stubs = ['operator new/delete', 'modff exact with solver case split', 'std::random_device -> fixed seed', 'libm via process libm on concrete values, sqrt(2*e1) uninterpreted']
    chk.replayer = replayer(bld)
    chk.add(run_jobs(jobs, budget=900 if tier == 'quick' else 3000))
    chk.finish()

if __name__ == '__main__':
    main(sys.argv[1] if len(sys.argv) > 1 else 'quick')
