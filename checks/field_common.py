"""Shared helpers of the ElectricField checks (C06, C07, C18, part of C08/C17)."""
import os, sys, re
sys.path.insert(0, os.path.dirname(os.path.abspath(__file__)))
from maps_common import *

FIELD_TUS = ['src/PS/ElectricField.cpp', 'src/PS/PhaseSpace.cpp', 'src/Z/Impedance.cpp', 'src/FFTWWrapper.cpp', 'src/IO/Display.cpp', 'src/IO/FSPath.cpp', 'src/HelperFunctions.cpp',
             'src/SM/KickMap.cpp', 'src/SM/SourceMap.cpp', 'src/SM/WakeKickMap.cpp', 'src/SM/WakePotentialMap.cpp']
FIELD_MODS = ['harness', 'ElectricField', 'PhaseSpace', 'Impedance', 'FFTWWrapper', 'KickMap', 'SourceMap', 'WakeKickMap', 'WakePotentialMap']

def field_build():
    return B.build('h_field.cpp', FIELD_TUS, libs=('-lfftw3f', '-lfftw3', '-lboost_filesystem', '-lboost_system'))

def field_world(bld, n, N, spacing, buckets, cutoff=0):
    a = [n, N, spacing, cutoff] + list(buckets)
    os.environ['XDG_DATA_HOME'] = os.path.join(bld['dir'], 'xdg')       # FFTW wisdom files of prepareFFT stay inside the build directory
    os.makedirs(os.environ['XDG_DATA_HOME'], exist_ok=True)
    snap, roots, prefix = take_snapshot(bld, 'f' + '_'.join(str(x) for x in a), a)
    plans = {}
    for k, v in roots.items():
        m = re.fullmatch(r'plan(\d+)_n(\d+)_k(\d+)', k)
        if m: plans[v] = {'idx': int(m.group(1)), 'n': int(m.group(2)), 'kind': int(m.group(3)), 'in': roots['plan%s_in' % m.group(1)], 'out': roots['plan%s_out' % m.group(1)]}
    calib = {}
    for ln in open(prefix + '.calib'):
        w = ln.split(); calib[w[0]] = int(w[1])
    # c2r plans that use their input as scratch space (FFTW does for most even lengths >= 18): the complex cells the native execution changed - the model clobbers exactly those
    if not calib.get('c2r_input_preserved', 1) and not calib.get('c2r_inplace') and calib.get('c2r_changed_lo', -1) >= 0:
        for p_ in plans.values():
            if p_['kind'] == 1: p_['clobber'] = (calib['c2r_changed_lo'], calib['c2r_changed_hi'])
    return snap, roots, prefix, plans, calib

# ------------------------------------------------------------------ FFT models
def fft_concrete(plans):
    """IEEE validation runs: call the real FFTW through numpy? -> not bit-identical.  Instead the validation script compares against the
    native result, so the concrete model must be FFTW itself: we execute the documented DFT in double and round - used only with a tolerance."""
    def model(ex, st, fr, args, ins):
        p = plans[args[0]]; N = p['n']
        if p['kind'] == 0:
            x = [float(ex.load(st, p['in'] + 4 * i, F32)) for i in range(N)]
            Y = np.fft.rfft(np.array(x, dtype=np.float64))
            for k in range(N // 2 + 1):
                ex.store(st, p['out'] + 8 * k, F32, np.float32(Y[k].real)); ex.store(st, p['out'] + 8 * k + 4, F32, np.float32(Y[k].imag))
        else:
            Y = [complex(float(ex.load(st, p['in'] + 8 * k, F32)), float(ex.load(st, p['in'] + 8 * k + 4, F32))) for k in range(N // 2 + 1)]
            x = np.fft.irfft(np.array(Y), N) * N
            for i in range(N): ex.store(st, p['out'] + 4 * i, F32, np.float32(x[i]))
        return None
    return model

class UFFFT:
    """the transform as uninterpreted functions of the WHOLE input buffer (any stale cell changes the result term)"""
    def __init__(self, plans): self.plans = plans; self.uf = {}; self.calls = []
    def F(self, kind, N, k, nin):
        key = (kind, N, k)
        if key not in self.uf: self.uf[key] = z3.Function('fft%d_%d_%d' % key, *([z3.RealSort()] * (nin + 1)))
        return self.uf[key]
    def apply(self, kind, N, ins):
        nout = 2 * (N // 2 + 1) if kind == 0 else N
        outs = [self.F(kind, N, k, len(ins))(*ins) for k in range(nout)]
        if kind == 0:
            # the one bin of the forward transform whose value code branches on: Y_0 = sum of the inputs (real), exactly - a fact of the DFT, kept so that a decision on the
            # "DC component" is a decision on the data and not on an arbitrary function value
            outs[0] = z3.Sum([z3.RealVal(0)] + list(ins)) if len(ins) > 1 else ins[0]; outs[1] = z3.RealVal(0)
        return outs
    def __call__(self, ex, st, fr, args, ins):
        p = self.plans[args[0]]; N = p['n']; kind = p['kind']
        nin = N if kind == 0 else 2 * (N // 2 + 1)
        iv = [ex.dom.z(ex.load(st, p['in'] + 4 * i, F32)) for i in range(nin)]
        for k, t in enumerate(self.apply(kind, N, iv)): ex.store(st, p['out'] + 4 * k, F32, t)
        if kind == 1 and p.get('clobber'):
            lo, hi = p['clobber']
            for c in range(2 * lo, 2 * hi + 2):          # scratch: an unknown function of the whole input, one per cell
                ex.store(st, p['in'] + 4 * c, F32, self.F(2, N, c, len(iv))(*iv))
        self.calls.append(kind)
        return None

def dft_exact(plans, N_allowed=(4,)):
    """documented FFTW semantics with exact rational twiddles (N = 4): r2c Y_k = sum_j x_j e^{-2 pi i jk/N}, k <= N/2; c2r x_j = Y_0 + 2 Re sum_{0<k<N/2} Y_k e^{+2 pi i jk/N} + Re Y_{N/2} (-1)^j"""
    RT = z3.Real('sqrt_half')      # N = 8: the one irrational twiddle component, an algebraic number pinned by sqrt_half^2 == 1/2, sqrt_half > 0 (assumptions of the obligation)
    def tw(N, m):     # e^{-2 pi i m/N} for N = 4 (rational) and N = 8 (in Q(sqrt 1/2))
        m %= N
        if N in (1, 2, 4): return {0: (1, 0), 1: (0, -1), 2: (-1, 0), 3: (0, 1)}[m * 4 // N]
        if N == 8: return {0: (1, 0), 1: (RT, -RT), 2: (0, -1), 3: (-RT, -RT), 4: (-1, 0), 5: (-RT, RT), 6: (0, 1), 7: (RT, RT)}[m]
        return None
    def model(ex, st, fr, args, ins):
        p = plans[args[0]]; N = p['n']
        if N not in N_allowed: raise Unsupported('exact DFT model only for N in %s' % (N_allowed,))
        if p['kind'] == 0:
            x = [ex.dom.z(ex.load(st, p['in'] + 4 * j, F32)) for j in range(N)]
            for k in range(N // 2 + 1):
                re = z3.RealVal(0); im = z3.RealVal(0)
                for j in range(N):
                    c, s = tw(N, j * k); re = re + x[j] * c; im = im + x[j] * s
                ex.store(st, p['out'] + 8 * k, F32, z3.simplify(re)); ex.store(st, p['out'] + 8 * k + 4, F32, z3.simplify(im))
        else:
            Y = [(ex.dom.z(ex.load(st, p['in'] + 8 * k, F32)), ex.dom.z(ex.load(st, p['in'] + 8 * k + 4, F32))) for k in range(N // 2 + 1)]
            for j in range(N):
                v = Y[0][0]
                for k in range(1, (N + 1) // 2):
                    c, s = tw(N, -j * k)     # e^{+2 pi i jk/N}
                    v = v + 2 * (Y[k][0] * c - Y[k][1] * s)
                if N % 2 == 0: v = v + Y[N // 2][0] * (1 if j % 2 == 0 else -1)
                ex.store(st, p['out'] + 4 * j, F32, z3.simplify(v))
        return None
    return model
