"""replay a stored counterexample natively: ./check <ID> --replay <cex.json>"""
import sys, os, json, importlib
sys.path.insert(0, os.path.dirname(os.path.abspath(__file__)))
pid, path = sys.argv[1], sys.argv[2]
mod = importlib.import_module(pid.lower())
cex = json.load(open(path))
rp = mod.get_replayer() if hasattr(mod, 'get_replayer') else None
if rp is None: print('no native replayer for', pid); sys.exit(2)
ok, txt = rp(path, cex['cex'])
print(('REPRODUCED ' if ok else 'NOT-REPRODUCED ') + txt)
sys.exit(1 if ok else 0)
