"""C11 - continuing from a results file (partial): the chosen record is loaded value for value into the grid, unusable files are refused with a
message, and everything derived from the grid is recomputed before the first step (so the continued run starts from exactly the stored state)."""
import sys, os
sys.path.insert(0, os.path.dirname(os.path.abspath(__file__)))
from maps_common import *
import mainloop, preloop
from mainloop import uc_run, OPtr, show
import c17

I64 = IntTy(64)

def real_std_overrides(mod, ex_holder):
    """std:: helpers on local containers (vectors of extents) run from their own IR; calls that involve an opaque object stay events"""
    over = {}
    for d in mod.funcs:
        if not d.startswith(('_ZNSt', '_ZNKSt', '_ZSt', '_ZN9__gnu_cxx', '_ZNK9__gnu_cxx')): continue
        if 'PhaseSpace' in d or 'basic_string' in d or 'unique_ptr' in d: continue
        def h(ex, st, fr, args, ins, d=d):
            if any(isinstance(a, OPtr) for a in args): return mainloop.raw_event_call(ex, d, False)(ex, st, fr, args, ins)
            return CALL_REAL
        over[d] = h
    return over

def job_reader(res, rank, fb=None):
    """HDF5File::readPhaseSpace from IR with the HDF5 C++ API as a recorder: dataset extents and the requested record are symbolic"""
    bld = c17.loaders_build(); mod = load_module(bld, ['HDF5File'])
    fn = find_fn(mod, 'HDF5File', 'readPhaseSpace'); res.funcs[fn] = fn_lines(mod, fn)
    dims = [z3.BitVec('dim%d' % i, 64) for i in range(4)]; use_step = z3.BitVec('use_step', 64); npts = z3.BitVec('npoints', 64)
    if fb is not None and rank == 4: dims[1] = z3.BitVecVal(fb, 64)      # a file written by a run with exactly fb bunches (concrete, so that containers sized by it can be built)
    log = {}
    def rd_vec(ex, st, p, n): return [ex.load(st, p + 8 * i, I64) for i in range(n)] if isinstance(p, int) and p else None
    def ndims(ex, st, fr, a, ins): return rank
    def getdims(ex, st, fr, a, ins):
        if not isinstance(a[1], int): raise Unsupported('extent buffer is not a local object')
        for i in range(rank): ex.store(st, a[1] + 8 * i, I64, dims[i].as_long() if z3.is_bv_value(dims[i]) else dims[i])
        st.events.append(('getdims', [a[0]], None)); return rank
    def selnp(ex, st, fr, a, ins): st.events.append(('npoints', [a[0]], None)); return npts
    def opends(ex, st, fr, a, ins):
        nm = a[2]
        if isinstance(nm, int):
            if ex.ginit: ex.flush_ginit(st)
            nm = ex.read_bytes(st, nm, 64).split(b'\0')[0].decode(errors='replace')
        st.events.append(('open', [nm], a[0])); return None
    def getspace(ex, st, fr, a, ins): st.events.append(('getSpace', [a[0], a[1]], None)); return None
    def hyperslab(ex, st, fr, a, ins):
        st.events.append(('hyperslab', [a[0], a[1], rd_vec(ex, st, a[2], rank), rd_vec(ex, st, a[3], rank), a[4], a[5]], None)); return None
    def dspace_ctor(ex, st, fr, a, ins):
        st.events.append(('memspace', [a[0], a[1], rd_vec(ex, st, a[2], a[1]) if isinstance(a[1], int) else None, a[3]], None)); return None
    def dsread(ex, st, fr, a, ins): st.events.append(('read', list(a[:5]), None)); return None
    def setsize(ex, st, fr, a, ins): st.events.append(('setSize', list(a), None)); return None
    def mkuniq(ex, st, fr, a, ins): st.events.append(('make_unique', [a[0]], None)); return None
    def getdata(ex, st, fr, a, ins): st.events.append(('getData', [a[0]], None)); return OPtr('grid-data-of(%s)' % show(a[0]))
    over = real_std_overrides(mod, None)
    over.update({'H5::DataSpace::getSimpleExtentNdims() const': ndims, 'H5::DataSpace::getSimpleExtentDims(': getdims, 'H5::DataSpace::getSelectNpoints() const': selnp, 'H5::DataSet::read(void*': dsread,
                 'H5::DataSpace::selectHyperslab(': hyperslab, 'H5::DataSpace::DataSpace(int, unsigned long long const*': dspace_ctor, 'vfps::PhaseSpace::setSize(': setsize, 'vfps::PhaseSpace::getData()': getdata,
                 'std::make_unique<vfps::PhaseSpace': mkuniq, 'H5::H5Location::openDataSet(char const*': opends})
    args = [OPtr('sret'), OPtr('fname')] + [z3.Real(x) for x in ('qmin', 'qmax', 'pmin', 'pmax')] + [0] + [z3.Real(x) for x in ('Qb', 'Ib', 'bl', 'dE')] + [use_step]
    ex, paths, dm = uc_run(mod, fn, args, over, track_uninit=True, max_paths=3000)
    res.paths += len(paths); res.instrs += sum(p.nins for p in paths); res.queries += ex.stats['queries']; res.solver_s += ex.stats['solver_s']
    bad = [p for p in paths if p.kind == 'error']
    if bad: raise Unsupported('readPhaseSpace rank %d: %s' % (rank, bad[0].why))
    reads = [p for p in paths if any(e[0] == 'read' for e in p.events)]
    throws = [p for p in paths if p.kind == 'ended']
    if not reads: raise Unsupported('readPhaseSpace rank %d: no path reaches DataSet::read' % rank)
    tag = 'readPhaseSpace, /PhaseSpace/data of rank %d (%s)%s, every %sextent and every requested record' % (rank, '[record][x][y]' if rank == 3 else '[record][bunch][x][y]', '' if fb is None else ' holding %d bunches' % fb, '' if fb is None else 'other ')
    for p in reads:
        ev = {e[0]: e for e in p.events if isinstance(e[0], str) and e[0] in ('hyperslab', 'memspace', 'read', 'setSize', 'getData', 'open', 'npoints')}
        hs = ev.get('hyperslab'); ms = ev.get('memspace'); rd = ev.get('read'); ss = ev.get('setSize'); gd = ev.get('getData')
        if not (hs and ms and rd and ss and gd): raise Unsupported('readPhaseSpace: a recorder event is missing on a reading path (%s)' % sorted(ev))
        count, start = hs[1][2], hs[1][3]
        n_ = dims[1] if rank == 3 else dims[2]
        want_count = [1, n_, n_] if rank == 3 else [1, dims[1], n_, n_]
        pre = list(p.pc) + [z3.ULT(dims[0], 1 << 62), z3.UGT(dims[0], 0), z3.ULT(dims[1], 1 << 31), z3.ULT(dims[2], 1 << 31)]      # grid width and bunch count are 32-bit quantities in the program
        def bvz(v): return z3.BitVecVal(v, 64) if isinstance(v, int) else v
        if os.environ.get('C11_DEBUG'): print('count', [show(c) for c in count], 'start', [show(c) for c in start], 'mem', [show(c) for c in (ms[1][2] or [])], ms[1][1])
        # record selection
        sel = bvz(start[0]); d0 = dims[0]
        prove(res, '%s: a record number 0 <= k < records selects record k' % tag, pre + [use_step >= 0, use_step < d0], sel != use_step, key='reader-record')
        prove(res, '%s: a negative record number -records <= k < 0 counts from the end (-1 = last record, the default)' % tag, pre + [use_step < 0, use_step >= -d0], sel != d0 + use_step, key='reader-record')
        prove(res, '%s: the hyperslab starts at the first bunch / first cell of that record' % tag, pre, z3.Or(*[bvz(s_) != 0 for s_ in start[1:]]), key='reader-layout')
        prove(res, '%s: the hyperslab is one whole record (extents %s), no stride or block' % (tag, '1 x n x n' if rank == 3 else '1 x bunches x n x n'), pre,
              z3.Or(*([bvz(c) != bvz(w) for c, w in zip(count, want_count)] + [z3.BoolVal(hs[1][4] != 0 or hs[1][5] != 0)])), key='reader-layout')
        okm = isinstance(ms[1][1], int) and ms[1][1] == rank and ms[1][2] is not None
        prove(res, '%s: the memory space has the same rank and extents as the selection (row-major grid [x][y], no transposition)' % tag, pre,
              z3.Or(z3.BoolVal(not okm), *[bvz(c) != bvz(w) for c, w in zip(ms[1][2] or [], want_count)]), key='reader-layout')
        # the read goes into the grid of the phase space that is returned, with that memory space and the selected file space
        tgt_ok = isinstance(rd[1][1], OPtr) and rd[1][1].base.startswith('grid-data-of(') and rd[1][3] == ms[1][0] and rd[1][4] == hs[1][0]
        res.obs.append(Ob('%s: DataSet::read writes into getData() of the phase space that is returned, using the memory space and the file selection built above' % tag, 'holds' if tgt_ok else 'violated', key='reader-target',
                          detail='' if tgt_ok else str([show(x) for x in rd[1]])))
        prove(res, '%s: the grid is sized from the file (setSize(n, 1)) before the phase space is constructed' % tag, pre, z3.Or(bvz(ss[1][0]) != z3.Extract(31, 0, n_), bvz(ss[1][1]) != 1), key='reader-size')
        nxyb = [c for c in p.pc if 'nxyb' in str(c)]
        prove(res, '%s: data are read only when the selection has exactly as many values as the grid holds (otherwise the file is refused)' % tag, p.pc, z3.BoolVal(not nxyb), key='reader-guard')
        # after the read nothing recomputes charges / projections inside the loader: main's start-up renormalisation (RenormalizeCharge >= 0) divides by the charges the object holds, and only the
        # constructor's own (== the set shares, C09) make that rescaling the identity - a stored state that has lost charge must not be scaled back up on continuation
        ridx = max(i for i, e in enumerate(p.events) if e[0] == 'read')
        later = [dm.get(e[0], str(e[0])) for e in p.events[ridx + 1:] if isinstance(e[0], str) and 'vfps::PhaseSpace::' in dm.get(e[0], '') and '~' not in dm.get(e[0], '')]
        res.obs.append(Ob('%s: after the read the loader calls nothing on the phase space (its charges stay the constructor\'s, so main\'s start-up renormalisation leaves the loaded values as they are)' % tag, 'holds' if not later else 'violated',
                          key='reader-no-recompute', detail=str(later[:3]), cex=None if not later else {'replay': 'structural', 'calls': later[:3]}))
        order = [e[0] for e in p.events if isinstance(e[0], str) and e[0] in ('setSize', 'make_unique', 'read')]
        res.obs.append(Ob('%s: order setSize -> construct -> read' % tag, 'holds' if order == ['setSize', 'make_unique', 'read'] else 'violated', key='reader-order', detail=str(order)))
    # refusals end in a throw (turned into a message by makePSFromHDF5): empty dataset, size mismatch
    why = sorted({p.why[:80] for p in throws})
    res.obs.append(Ob('%s: the paths that do not read end in an exception (empty dataset, selection size != grid size): %d paths' % (tag, len(throws)), 'holds' if len(throws) >= 2 and all('exception' in w or 'throw' in w.lower() for w in why) else 'violated', key='reader-refuse', detail=str(why)))
    opened = [e[1][0] for p in reads for e in p.events if e[0] == 'open']
    res.obs.append(Ob('%s: the dataset read is "/PhaseSpace/data" (the one HDF5File::append(PhaseSpace) writes, C10)' % tag, 'holds' if opened and all(o == '/PhaseSpace/data' for o in opened) else 'violated', key='reader-dataset', detail=str(opened[:2])))
    witness(res, 'rank %d: a reading path exists whose record index depends on the request' % rank, reads[0].pc + [use_step == 2, dims[0] == 5], z3.BoolVal(True))

def job_factory(res):
    """makePSFromHDF5: whatever readPhaseSpace throws (std::exception, H5::Exception, anything else) becomes a message and a null result; a good read is handed on unchanged"""
    bld = c17.loaders_build(); mod = load_module(bld, ['PhaseSpaceFactory'])
    fn = find_fn(mod, 'makePSFromHDF5'); res.funcs[fn] = fn_lines(mod, fn)
    def run(kind):
        def reader(ex, st, fr, a, ins):
            st.events.append(('readPhaseSpace', kind)); st.extra['reader_args'] = list(a)
            if kind == 'ok': ex.store(st, a[0], I64, 0x1234560) if isinstance(a[0], int) else None; return None
            obj = ex.malloc(st, 64); vt = ex.malloc(st, 64); ex.store(st, obj, I64, vt)
            raise CxxThrow(obj, {'std': '_ZTISt13runtime_error', 'h5': '_ZTIN2H59ExceptionE', 'other': '_ZTIi'}[kind])
        def typeid_(ex, st, fr, a, ins):
            n = ex.tinfo_name(a[0]); return ex.typeid_for(n) if n else 0
        sw = getattr(mod.resolve(mod.funcs[fn].params[2][0]), 'bits', 64)      # width of the record-number parameter as declared
        args = [OPtr('sret'), OPtr('fname'), z3.BitVec('step', sw)] + [z3.Real(x) for x in ('qmin', 'qmax', 'pmin', 'pmax')] + [0] + [z3.Real(x) for x in ('Qb', 'Ib', 'bl', 'dE')]
        ex, paths, dm = uc_run(mod, fn, args, {'vfps::HDF5File::readPhaseSpace': reader, '__cxa_begin_catch': ext_cxa_begin_catch, 'llvm.eh.typeid.for': typeid_})
        res.paths += len(paths); res.instrs += sum(p.nins for p in paths)
        return ex, paths, dm
    for kind, what in (('std', 'a std::exception (HDF5FileException: empty dataset, unexpected size)'), ('h5', 'an H5::Exception (missing or unreadable file, no /PhaseSpace/data)'), ('other', 'anything else')):
        ex, paths, dm = run(kind)
        err = [p for p in paths if p.kind == 'error']
        if err: raise Unsupported('makePSFromHDF5 (%s): %s' % (kind, err[0].why))
        ok = bool(paths)
        for p in paths:
            after = [dm.get(e[0], str(e[0])) for e in p.events if isinstance(e[0], str)]
            said = any('basic_ostream' in n or 'printError' in n for n in after)
            null = any('unique_ptr' in n and ('nullptr' in n or 'decltype(nullptr)' in n) for n in after)
            if not (p.kind == 'done' and said and null): ok = False
        res.obs.append(Ob('makePSFromHDF5: when the reader throws %s, a message is printed and a null pointer is returned (main then stops: preloop obligation)' % what, 'holds' if ok else 'violated', key='factory-refusal',
                          detail='' if ok else str([(p.kind, getattr(p, 'why', '')) for p in paths][:2])))
    ex, paths, dm = run('ok')
    okp = [p for p in paths if p.kind == 'done']
    # the reader is called with the factory's own arguments, each in its place: axis limits (position, then energy), charge, current, the two axis scales, the requested record
    for p_ in okp:
        ra = p_.extra.get('reader_args') or []
        names = ['qmin', 'qmax', 'pmin', 'pmax', None, 'Qb', 'Ib', 'bl', 'dE']
        if len(ra) < 12: raise Unsupported('readPhaseSpace call with %d operands' % len(ra))
        bad = [z3.BoolVal(False)]
        for i, nm in enumerate(names):
            if nm is None: continue
            v = ra[2 + i]; bad.append((v if z3.is_expr(v) else z3.RealVal(str(v))) != z3.Real(nm))
        sw = getattr(mod.resolve(mod.funcs[fn].params[2][0]), 'bits', 64); own = z3.BitVec('step', sw)
        stp = ra[11]; bad.append((stp if z3.is_expr(stp) else z3.BitVecVal(stp, 64)) != (own if sw == 64 else z3.SignExt(64 - sw, own)))      # the record number is a signed quantity (negative: counted from the end)
        prove(res, 'makePSFromHDF5 hands the reader its own arguments in their places: qmin, qmax, pmin, pmax, charge, current, position scale, energy scale, record number', p_.pc, z3.Or(*bad), key='factory-arguments',
              cex_fn=lambda m: {'replay': 'structural', 'operands': [str(x)[:30] for x in ra[2:12]]})
    res.obs.append(Ob('makePSFromHDF5: a phase space delivered by the reader is returned as it is (no message, not replaced)', 'holds' if okp and all(not any('basic_ostream' in dm.get(e[0], '') for e in p.events if isinstance(e[0], str)) for p in okp) else 'violated', key='factory-pass'))

def job_loader_args(res):
    """main gives a start-file loader the same axis limits, axis scales and beam parameters it gives the constructor of a generated start distribution: the loaded grid lives on the same
    coordinates as the one the rest of main (maps, fields, output units) is set up for.  Operands of the real call instructions in main's IR, compared as values (same SSA value, or loads of the same slot)."""
    from mainsetup import call_sites
    bld = mainloop.main_build(); mod = load_module(bld, ['main']); f = mod.funcs['main']; res.funcs['main'] = fn_lines(mod, 'main'); res.paths += 1
    defs = {}
    for b in f.order:
        for ins in f.blocks[b]:
            if ins.get('dst'): defs[ins['dst']] = ins
    def canon(v):
        if isinstance(v, tuple) and v[0] == 'local' and v[1] in defs:
            d = defs[v[1]]
            if d['op'] == 'load': return ('load', canon(d['ptr']))
            if d['op'] in ('fpext', 'fptrunc', 'bitcast'): return (d['op'], canon(d['a']))
        return v
    ctor = [c for c in call_sites(mod, f, 'vfps::PhaseSpace::PhaseSpace(float, float, double, float, float, double')]
    if len(ctor) != 1: raise Unsupported('expected one construction of a generated start distribution in main, found %d' % len(ctor))
    ca = [canon(a) for t, a in ctor[0][2]['args']]      # this, qmin, qmax, qscale, pmin, pmax, pscale, oclh, Qb, Ib, filling, zoom, data
    want = {'qmin': ca[1], 'qmax': ca[2], 'pmin': ca[4], 'pmax': ca[5], 'beam charge': ca[8], 'beam current': ca[9], 'position scale (bunch length)': ca[3], 'energy scale (energy spread in eV)': ca[6]}
    for nm in ('makePSFromHDF5', 'makePSFromTXT'):
        ls = call_sites(mod, f, 'vfps::' + nm)
        if not ls: continue
        for b, k, ins in ls:
            a = [canon(x) for t, x in ins['args']]      # sret, fname, step/size, qmin, qmax, pmin, pmax, oclh, Qb, Ib, xscale, yscale
            got = {'qmin': a[3], 'qmax': a[4], 'pmin': a[5], 'pmax': a[6], 'beam charge': a[8], 'beam current': a[9], 'position scale (bunch length)': a[10], 'energy scale (energy spread in eV)': a[11]}
            bad = [k_ for k_ in want if want[k_] != got[k_]]
            res.obs.append(Ob('main calls %s with the axis limits, axis scales, charge and current of the generated start distribution (same values as the PhaseSpace construction)' % nm, 'holds' if not bad else 'violated', key='loader-args',
                              detail='' if not bad else 'differs in: %s' % ', '.join('%s (%s vs %s)' % (k_, got[k_], want[k_]) for k_ in bad), cex=None if not bad else {'replay': 'structural', 'differs': bad}))

def main(tier):
    chk = Check('C11', tier, '4/C11 (9.9)')
    jobs = [(job_reader, (3,)), (job_reader, (4,)), (job_reader, (4, 2)), (job_reader, (4, 3)), (job_factory, ()), (preloop.job_preloop, ('C11',)), (preloop.job_rw_sets, ()), (job_loader_args, ())]
    chk.bounds = {'reader': 'dataset rank 3 and 4, every record count < 2^62, grid width and bunch count < 2^31, every requested record number in [-records, records)', 'set-up': 'all paths (w.r.t. the renormalisation setting and null tests of phase-space pointers) from the loader call to the first loop test; other decisions one way, both preferences',
                  'claimed part of the statement': 'first sentence first half (loads exactly the stored values) and the refusal sentence; that T2 further periods agree within rounding is NOT decided (needs two program runs): it is argued from this start-state obligation plus the step being a function of the grid (C12), see DESIGN 9.9'}
    chk.assumptions = ['libhdf5 is a correct store: a hyperslab of extents (1,[b,]n,n) read into a memory space of the same extents fills the row-major grid [x][y] in order - the same layout HDF5File::append(PhaseSpace) writes (C10 recorder obligations)',
                       'the read/write sets the freshness rule uses are derived from the real PhaseSpace code in this check (rw-sets obligation); the first normalize() after loading rescales by set share / charge of the constructor\'s own Gaussian, which is 1 within rounding (C09)',
                       'dynamic RF modulation, tracking particles and the step counter (renormalisation / output cadence phase) are not part of a stored record: runs using them are outside', 'HDF5 exceptions while the file is open are H5::Exception objects']
    chk.stubs = ['H5:: API: recorder', 'every call of main / the factory other than std:: helpers on local containers: event', 'C++ exceptions: unwinding with type matching (H5::Exception is matched by name)']
    chk.add(run_jobs(jobs, budget=900))
    chk.finish()

if __name__ == '__main__':
    main(sys.argv[1] if len(sys.argv) > 1 else 'quick')
