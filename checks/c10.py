"""C10 - each record of the results file describes one instant, consistently.  G1: file layout / data flow of HDF5File (recorder model of libhdf5_cpp).
G2 (record bookkeeping of main's loop) lives in mainloop.py and is merged into this check's evidence."""
import sys, os
sys.path.insert(0, os.path.dirname(os.path.abspath(__file__)))
from maps_common import *
from h5rec import H5Recorder, cstr

H5_TUS = ['src/IO/HDF5File.cpp', 'src/PS/ElectricField.cpp', 'src/PS/PhaseSpace.cpp', 'src/Z/Impedance.cpp', 'src/FFTWWrapper.cpp', 'src/IO/Display.cpp', 'src/IO/FSPath.cpp', 'src/HelperFunctions.cpp',
          'src/SM/KickMap.cpp', 'src/SM/SourceMap.cpp', 'src/SM/WakeKickMap.cpp', 'src/SM/WakePotentialMap.cpp']
H5_MODS = ['harness', 'HDF5File', 'ElectricField', 'PhaseSpace', 'Impedance', 'KickMap', 'SourceMap', 'WakeKickMap', 'WakePotentialMap']
H5_LIBS = ('-lfftw3f', '-lfftw3', '-lboost_filesystem', '-lboost_system', '-L/usr/lib/x86_64-linux-gnu/hdf5/serial', '-lhdf5_cpp', '-lhdf5')
C_LIGHT = Fraction(2.99792458e8)
def h5_build(): return B.build('h_hdf5.cpp', H5_TUS, hdf5=1, libs=H5_LIBS)
def h5_world(bld, n, nb, N, npart, Nr=0):
    os.environ['XDG_DATA_HOME'] = os.path.join(bld['dir'], 'xdg'); os.makedirs(os.environ['XDG_DATA_HOME'], exist_ok=True)
    return take_snapshot(bld, 'h%d_%d_%d_%d' % (n, nb, N, npart) + ('_%d' % Nr if Nr else ''), [n, nb, N, npart] + ([Nr] if Nr else []))

def symf(ex, st, addr, names, bits=32):
    out = []
    for i, nm in enumerate(names):
        v = z3.Real(nm); st.sym[addr + (bits // 8) * i] = (bits // 8, 'f', v); out.append(v)
    return out

def tz(v): return z3.RealVal(str(v)) if isinstance(v, Fraction) else (z3.RealVal(v) if isinstance(v, int) else v)
def differs(got, want): return z3.Or(*[tz(a) != tz(b) for a, b in zip(got, want)]) if len(got) == len(want) and got else z3.BoolVal(len(got) != len(want))

def construct(res, mod, snap, R, n, nb, N, npart, with_ef=True, with_imp=True):
    rec = H5Recorder(); ex = Exec(mod, snap, RealDom()); st = State(); rec.install(ex, st, mod)
    S = {}
    S['axis0'] = symf(ex, st, R['axis0_data'], ['ax0_%d' % i for i in range(n)]); S['axis1'] = symf(ex, st, R['axis1_data'], ['ax1_%d' % i for i in range(n)])
    S['freq'] = symf(ex, st, R['freq_data'], ['fr_%d' % i for i in range(N)]); S['z'] = symf(ex, st, R['zdata'], ['z_%d' % i for i in range(2 * N)])
    S['charge'] = symf(ex, st, R['charge'], ['charge'], 64)[0]; S['current'] = symf(ex, st, R['current'], ['current'], 64)[0]
    S['volts'] = symf(ex, st, R['volts'], ['volts'], 64)[0]; S['f4wph'] = symf(ex, st, R['f4wph'], ['f4wph'], 64)[0]; S['f4w'] = symf(ex, st, R['f4w'], ['f4w'], 64)[0]
    S['tsync'] = z3.Real('t_sync'); S['frev'] = z3.Real('f_rev')
    st = ex.run1(st, 'e_new_h5', [R['fname'], R['ps'], R['rdtn'] if with_ef else 0, R['z'] if with_imp else R['nullz'], npart, S['tsync'], S['frev']])
    return rec, ex, st, S, st.retval

def job_layout(res, n, nb, N, npart):
    bld = h5_build(); mod = load_module(bld, H5_MODS)
    snap, R, pre = h5_world(bld, n, nb, N, npart)
    rec, ex, st, S, h5 = construct(res, mod, snap, R, n, nb, N, npart); account(res, ex, mod, [st])
    cfg = 'n=%d nb=%d N=%d' % (n, nb, N); maxn = N // 2
    def one_write(path):
        w = rec.writes(path)
        return w[0]['payload'] if len(w) == 1 else None
    def cex_axis(m): return {'replay': 'layout', 'n': n, 'nb': nb, 'N': N, 'np': npart}
    for path, src, cnt, what in (('/Info/AxisValues_z', S['axis0'], n, 'position axis (axis 0 of the phase space)'), ('/Info/AxisValues_E', S['axis1'], n, 'energy axis (axis 1 of the phase space)'),
                                 ('/Info/AxisValues_f', S['freq'][:maxn], maxn, 'first N/2 values of the field\'s frequency ruler')):
        p = one_write(path)
        prove(res, '%s: %s holds the %s, written once' % (cfg, path, what), st.pc, z3.BoolVal(True) if p is None else differs(p, src[:cnt]), key='axis-' + path.split('_')[-1], cex_fn=cex_axis)
    for path, off, what in (('/Impedance/data/real', 0, 'real'), ('/Impedance/data/imag', 1, 'imaginary')):
        p = one_write(path)
        prove(res, '%s: %s holds the %s parts of the first N/2 impedance samples' % (cfg, path, what), st.pc, z3.BoolVal(True) if p is None else differs(p, [S['z'][2 * k + off] for k in range(maxn)]), key='impedance-dataset', cex_fn=cex_axis)
    p = one_write('/Info/BucketNumbers')
    bk = [ex.load(st, R['bk_data'] + 4 * i, IntTy(32)) for i in range(nb)]
    res.obs.append(Ob('%s: /Info/BucketNumbers holds the field\'s bucket numbers %s' % (cfg, bk), 'holds' if p == bk else 'violated', key='bucket-numbers'))
    # ---- unit conversion factors
    scm = Fraction(f32(2e-3)); sce = Fraction(f32(4e5))
    A = {}
    for owner, name, val in rec.attrs():
        A[((owner[1] if owner else None), name)] = val
    want = {('/Info/AxisValues_z', 'Meter'): scm, ('/Info/AxisValues_z', 'Second'): scm / C_LIGHT, ('/Info/AxisValues_E', 'ElectronVolt'): sce,
            ('/Info/AxisValues_t', 'Second'): S['tsync'], ('/Info/AxisValues_t', 'Turn'): S['tsync'] * S['frev'], ('/PhaseSpace/axis0', 'Second'): S['tsync'], ('/PhaseSpace/axis0', 'Turn'): S['tsync'] * S['frev'],
            ('/BunchPopulation/data', 'Ampere'): S['current'], ('/BunchPopulation/data', 'Coulomb'): S['charge'], ('/BunchProfile/data', 'AmperePerNBL'): S['current'], ('/BunchProfile/data', 'CoulombPerNBL'): S['charge'],
            ('/BunchLength/data', 'Meter'): scm, ('/BunchLength/data', 'Second'): scm / C_LIGHT, ('/BunchPosition/data', 'Meter'): scm, ('/BunchPosition/data', 'Second'): scm / C_LIGHT,
            ('/EnergyProfile/data', 'AmperePerNES'): S['current'], ('/EnergyProfile/data', 'CoulombPerNES'): S['charge'], ('/EnergySpread/data', 'ElectronVolt'): sce, ('/EnergyAverage/data', 'ElectronVolt'): sce,
            ('/WakePotential/data', 'Volt'): S['volts'], ('/CSR/Spectrum/data', 'WattPerHertz'): S['f4wph'], ('/CSR/Intensity/data', 'Watt'): S['f4w'],
            ('/PhaseSpace/data', 'AmperePerNBLPerNES'): S['current'], ('/PhaseSpace/data', 'CoulombPerNBLPerNES'): S['charge'], ('/Impedance/data', 'Ohm'): Fraction(1)}
    for (owner, name), w in want.items():
        g = A.get((owner, name))
        prove(res, '%s: attribute %s on %s carries the factor implied by the machine parameters' % (cfg, name, owner), st.pc, z3.BoolVal(True) if g is None else tz(g) != tz(w), key='unit-%s' % name)
    # every dataset with a time axis is soft-linked to it
    links = {(r[2], r[1]) for r in rec.log if r[0] == 'link'}
    need = [('/%s/axis0' % g, '/Info/AxisValues_t') for g in ('BunchProfile', 'BunchLength', 'BunchPosition', 'EnergyProfile', 'EnergyAverage', 'Particles', 'WakePotential', 'CSR/Spectrum', 'CSR/Intensity')]
    need += [('/BunchProfile/axis1', '/Info/AxisValues_z'), ('/EnergyProfile/axis1', '/Info/AxisValues_E'), ('/WakePotential/axis1', '/Info/AxisValues_z'), ('/CSR/Spectrum/axis1', '/Info/AxisValues_f'),
             ('/PhaseSpace/axis1', '/Info/AxisValues_z'), ('/PhaseSpace/axis2', '/Info/AxisValues_E'), ('/Impedance/axis0', '/Info/AxisValues_f')]
    miss = [x for x in need if x not in links]
    res.obs.append(Ob('%s: axis links of every dataset point at the matching axis dataset (%d links)' % (cfg, len(need)), 'holds' if not miss else 'violated', key='axis-links', cex={'missing': miss} if miss else None))
    witness(res, 'constructor recorded datasets, attributes and writes (%d datasets, %d attributes)' % (len(rec.datasets()), len(rec.attrs())), [], z3.BoolVal(len(rec.datasets()) >= 23 and len(rec.attrs()) >= 20))

def job_append(res, n, nb, N, npart):
    """one and two appends of every kind with symbolic sources: which datasets get a record, where it goes, and that bunch b's row holds bunch b's data"""
    bld = h5_build(); mod = load_module(bld, H5_MODS)
    snap, R, pre = h5_world(bld, n, nb, N, npart)
    rec, ex, st, S, h5 = construct(res, mod, snap, R, n, nb, N, npart)
    cfg = 'n=%d nb=%d N=%d' % (n, nb, N); maxn = N // 2; NM = int(R['nmax'])
    X = {}
    X['data'] = symf(ex, st, R['data'], ['d%d' % i for i in range(nb * n * n)]); X['proj'] = symf(ex, st, R['proj'], ['pr%d' % i for i in range(2 * nb * n)])
    X['fill'] = symf(ex, st, R['filling'], ['fl%d' % i for i in range(nb)]); X['mom'] = symf(ex, st, R['moment'], ['mo%d' % i for i in range(8 * nb)]); X['rms'] = symf(ex, st, R['rms'], ['rm%d' % i for i in range(2 * nb)])
    X['spec'] = symf(ex, st, R['csrspec'], ['sp%d' % i for i in range(nb * NM)]); X['pow'] = symf(ex, st, R['csrpow'], ['pw%d' % i for i in range(nb)]); X['force'] = symf(ex, st, R['wkm_force'], ['wf%d' % i for i in range(nb * n)])
    X['kicks'] = symf(ex, st, R['kicks_data'], ['kk%d' % i for i in range(6)]); X['bpp'] = symf(ex, st, R['bp_padded'], ['bp%d' % i for i in range(N)]); X['wpp'] = symf(ex, st, R['wp_padded'], ['wp%d' % i for i in range(N)])
    t = z3.Real('t')
    def run(st, fn, args):
        k = len(rec.log); s2 = ex.run1(st, fn, args); return s2, rec.log[k:]
    def check_records(label, newlog, expect, key):
        """expect: {path: (shape after the time index, source terms)}; r = record number"""
        ext = {r[1]: r[2] for r in newlog if r[0] == 'extend'}; wr = {}
        for r in newlog:
            if r[0] == 'write': wr.setdefault(r[1], []).append(r[2])
        ok_set = set(wr) == set(expect)
        res.obs.append(Ob('%s %s: exactly the datasets %s receive a record (got %s)' % (cfg, label, sorted(expect), sorted(wr)), 'holds' if ok_set else 'violated', key=key + '-set', cex=None if ok_set else {'replay': 'layout', 'n': n, 'nb': nb, 'N': N, 'np': npart}))
        for path, (shape, src, recno, cnt) in expect.items():
            ws = wr.get(path, [])
            if len(ws) != 1:
                res.obs.append(Ob('%s %s: %s written once' % (cfg, label, path), 'violated', key=key)); continue
            w = ws[0]; full = [cnt] + list(shape)
            geo = (w['memdims'] == full and w['filesel'] is not None and w['filesel'][0] == full and w['filesel'][1] == [recno] + [0] * len(shape) and ext.get(path) == [recno + cnt] + list(shape))
            prove(res, '%s %s: %s extended to %d records, hyperslab offset (%d,0..) count %s, payload == the named source with bunch b in row b' % (cfg, label, path, recno + cnt, recno, full), st.pc,
                  z3.Or(z3.BoolVal(not geo), differs(w['payload'], src)), key=key, cex_fn=lambda m: {'replay': 'layout', 'n': n, 'nb': nb, 'N': N, 'np': npart, 'path': path, 'geometry_ok': geo})
    proj0 = X['proj'][:nb * n]; proj1 = X['proj'][nb * n:]
    def ps_expect(recno, recno_ps, at, X=X):
        proj0 = X['proj'][:nb * n]; proj1 = X['proj'][nb * n:]
        e = {}
        if at in (0, 2): e['/PhaseSpace/axis0'] = ([], [t], recno_ps, 1); e['/PhaseSpace/data'] = ([nb, n, n], X['data'], recno_ps, 1)
        if at != 2:
            e.update({'/Info/AxisValues_t': ([], [t], recno, 1), '/BunchProfile/data': ([nb, n], proj0, recno, 1), '/BunchLength/data': ([nb], X['rms'][:nb], recno, 1), '/BunchPosition/data': ([nb], X['mom'][0:nb], recno, 1),
                      '/EnergyProfile/data': ([nb, n], proj1, recno, 1), '/EnergySpread/data': ([nb], X['rms'][nb:2 * nb], recno, 1), '/EnergyAverage/data': ([nb], X['mom'][4 * nb:5 * nb], recno, 1), '/BunchPopulation/data': ([nb], X['fill'], recno, 1)})
        return e
    s, lg = run(st, 'e_append_ps', [h5, R['psobj'], t, 0]); check_records('append(ps, All) #1', lg, ps_expect(0, 0, 0), 'append-ps')
    # later records hold what the objects hold THEN: every source gets new content before the second append of its kind (a record that repeats an earlier one would otherwise pass)
    X2 = dict(X)
    X2['data'] = symf(ex, s, R['data'], ['e%d' % i for i in range(nb * n * n)]); X2['proj'] = symf(ex, s, R['proj'], ['qr%d' % i for i in range(2 * nb * n)])
    X2['fill'] = symf(ex, s, R['filling'], ['gl%d' % i for i in range(nb)]); X2['mom'] = symf(ex, s, R['moment'], ['np%d' % i for i in range(8 * nb)]); X2['rms'] = symf(ex, s, R['rms'], ['sm%d' % i for i in range(2 * nb)])
    s, lg = run(s, 'e_append_ps', [h5, R['psobj'], t, 1]); check_records('append(ps, Defaults) #2 (new content)', lg, ps_expect(1, 1, 1, X2), 'append-ps')
    s, lg = run(s, 'e_append_ps', [h5, R['psobj'], t, 2]); check_records('append(ps, PhaseSpace) #3', lg, ps_expect(2, 1, 2, X2), 'append-ps')
    spec_rows = [X['spec'][b * NM + k] for b in range(nb) for k in range(maxn)]
    s, lg = run(s, 'e_append_ef', [h5, R['rdtn']]); check_records('append(field) #1', lg, {'/CSR/Spectrum/data': ([nb, maxn], spec_rows, 0, 1), '/CSR/Intensity/data': ([nb], X['pow'], 0, 1)}, 'append-csr')
    spec2 = symf(ex, s, R['csrspec'], ['tp%d' % i for i in range(nb * NM)]); pow2 = symf(ex, s, R['csrpow'], ['qw%d' % i for i in range(nb)]); spec_rows2 = [spec2[b * NM + k] for b in range(nb) for k in range(maxn)]
    s, lg = run(s, 'e_append_ef', [h5, R['rdtn']]); check_records('append(field) #2 (new content)', lg, {'/CSR/Spectrum/data': ([nb, maxn], spec_rows2, 1, 1), '/CSR/Intensity/data': ([nb], pow2, 1, 1)}, 'append-csr')
    s, lg = run(s, 'e_append_wkm', [h5, R['wkm']]); check_records('append(wake map)', lg, {'/WakePotential/data': ([nb, n], X['force'], 0, 1)}, 'append-wake')
    s, lg = run(s, 'e_append_rf', [h5, R['kicks']]); check_records('appendRFKicks(3 steps)', lg, {'/RFKicks/data': ([2], X['kicks'], 0, 3)}, 'append-rfkicks')
    # the next block of kicks is shorter (the last output interval of a run, or an interrupted one) and has new content
    kb = ex.load(s, R['kicks'], IntTy(64)); ex.store(s, R['kicks'] + 8, IntTy(64), kb + 2 * 8)
    kicks2 = symf(ex, s, R['kicks_data'], ['ll%d' % i for i in range(4)])
    s, lg = run(s, 'e_append_rf', [h5, R['kicks']]); check_records('appendRFKicks(2 more steps, new content)', lg, {'/RFKicks/data': ([2], kicks2, 3, 2)}, 'append-rfkicks')
    s, lg = run(s, 'e_append_padded', [h5, R['wake']]); check_records('appendPadded', lg, {'/BunchProfile/padded': ([maxn], X['bpp'][:maxn], 0, 1), '/WakePotential/padded': ([maxn], X['wpp'][:maxn], 0, 1)}, 'append-padded')
    # tracks: physical coordinates by array lookup of the (concrete) grid positions
    pos = [(float(ex.load(s, R['tracks_data'] + 8 * i, F32)), float(ex.load(s, R['tracks_data'] + 8 * i + 4, F32))) for i in range(npart)]
    want = [v for (x, y) in pos for v in (S['axis0'][int(x)], S['axis1'][int(y)])]
    s, lg = run(s, 'e_append_tracks', [h5, R['tracks']]); check_records('appendTracks', lg, {'/Particles/data': ([npart, 2], want, 0, 1)}, 'append-tracks')
    account(res, ex, mod, [s])

def path_label(path):
    try: return str(json.load(open(path)).get('obligation', ''))
    except Exception: return ''

def replayer(bld):
    def rp(path, c):
        if c.get('replay') == 'csr':
            import c07, field_common; return c07.replayer(field_common.field_build())(path, c)
        if c.get('replay') != 'layout': return (True, str(c)[:200])
        n, nb, N, npart = c['n'], c['nb'], c['N'], c['np']
        fn = os.path.join(OUT, 'replay', 'c10-%d.h5' % os.getpid()); os.makedirs(os.path.dirname(fn), exist_ok=True)
        os.environ['XDG_DATA_HOME'] = os.path.join(bld['dir'], 'xdg')
        later = 'new content' in str(c.get('obligation', '')) or 'new content' in path_label(path)
        try:
            o = native_run(bld, {'n': n, 'nb': nb, 'N': N, 'np': npart, 'file': fn, 'ops': ['ps_all', 'ef', 'rf', 'mut', 'ef', 'rf', 'wkm', 'tracks', 'padded'] if later else ['ps_all', 'ef', 'wkm', 'tracks', 'rf', 'padded']}, 'c10')
        except RuntimeError as e:
            return (True, 'real HDF5File: the native run of the append sequence does not complete: %s' % str(e)[-200:])
        bad = []
        if later:
            NM = len(o['src:csrspec']) // nb; maxn = N // 2; rows = lambda sp: [sp[b * NM + k] for b in range(nb) for k in range(maxn)]
            def cmp2(a, b, what):
                if len(a) != len(b) or any(struct.pack('<f', x) != struct.pack('<f', y) for x, y in zip(a, b)): bad.append(what)
            cmp2(o['/CSR/Spectrum/data'], rows(o['src0:csrspec']) + rows(o['src:csrspec']), 'second CSR spectrum record != the field\'s spectrum at that time')
            cmp2(o['/RFKicks/data'], list(o['src0:kicks']) + list(o['src:kicks']), 'RF kick records != first block followed by the (shorter) second block')
            return (len(bad) > 0, 'real file, two appends with the objects changed in between, read back with libhdf5: ' + ('; '.join(bad) if bad else 'both records match their sources'))
        def cmp(a, b, what):
            if len(a) != len(b) or any(struct.pack('<f', x) != struct.pack('<f', y) for x, y in zip(a, b)): bad.append(what)
        cmp(o['/Info/AxisValues_z'], o['src:axis0'], 'AxisValues_z != position axis'); cmp(o['/Info/AxisValues_E'], o['src:axis1'], 'AxisValues_E != energy axis')
        NM = len(o['src:csrspec']) // nb; maxn = N // 2
        cmp(o['/CSR/Spectrum/data'], [o['src:csrspec'][b * NM + k] for b in range(nb) for k in range(maxn)], 'CSR spectrum rows != per-bunch spectra')
        cmp(o['/BunchProfile/data'], o['src:proj'][:nb * n], 'bunch profile'); cmp(o['/EnergyProfile/data'], o['src:proj'][nb * n:], 'energy profile')
        cmp(o['/WakePotential/data'], o['src:wkm_force'], 'wake potential'); cmp(o['/PhaseSpace/data'], o['src:data'], 'phase space')
        return (len(bad) > 0, 'real file written by HDF5File and read back with libhdf5: ' + ('; '.join(bad) if bad else 'all datasets match their sources'))
    return rp
def get_replayer(): return replayer(h5_build())

def job_main_wiring(res):
    """which objects main hands to the results file: the impedance stored in the file is the one the wake field was built with (so the stored wake potential is the convolution with the *stored*
    impedance), and the field whose frequency axis / spectrum layout the file was created for is the field whose spectra are appended.  Operands of the real call instructions in main's IR."""
    from mainsetup import call_sites
    import mainloop
    bld = mainloop.main_build(); mod = load_module(bld, ['main']); f = mod.funcs['main']; res.funcs['main'] = fn_lines(mod, 'main'); res.paths += 1
    dm = mainloop.demangle(set(mod.decls) | set(mod.funcs))
    def mod_demangle(n): return dm.get(n, n)
    def copy_source(blk, upto, tmp, what):
        # the temporary is filled by std::shared_ptr's copy constructor right before the call: its second operand is the object copied
        for ins in f.blocks[blk][:upto][::-1]:
            if ins['op'] in ('call', 'invoke') and ins['callee'][0] == 'global' and ins['args'] and ins['args'][0][1] == tmp:
                nm = mod_demangle(ins['callee'][1])
                if 'shared_ptr' in nm and len(ins['args']) == 2: return ('copy of', ins['args'][1][1])
                return ('result of', nm.split('(')[0], tuple(str(a[1]) for a in ins['args'][1:]))      # filled by some other call (a getter returning by value, ...)
        raise Unsupported('cannot tell where main takes the %s from (no shared_ptr copy into the call\'s temporary)' % what)
    h5 = call_sites(mod, f, 'vfps::HDF5File::HDF5File(')
    if len(h5) != 1: raise Unsupported('expected one construction of the results file in main, found %d' % len(h5))
    hb, hk, hins = h5[0]
    efs = [c for c in call_sites(mod, f, 'vfps::ElectricField::ElectricField(') if len(c[2]['args']) >= 10]
    if len(efs) != 1: raise Unsupported('expected one construction of the wake field (delegating constructor) in main, found %d' % len(efs))
    eb, ek, eins = efs[0]
    s_file = copy_source(hb, hk, hins['args'][4][1], 'impedance of the results file'); s_wake = copy_source(eb, ek, eins['args'][2][1], 'impedance of the wake field')
    ok = s_file == s_wake
    res.obs.append(Ob('main stores in the results file the impedance object the wake field is built with (both calls receive copies of the same shared_ptr)', 'holds' if ok else 'violated', key='file-impedance-object',
                      detail='' if ok else 'file: copy of %s, wake field: copy of %s' % (s_file, s_wake), cex=None if ok else {'replay': 'structural', 'file': str(s_file), 'wake': str(s_wake)}))
    rd = hins['args'][3][1]
    app = [c for c in call_sites(mod, f, 'vfps::HDF5File::append(vfps::ElectricField const*')]
    csr = [c for c in call_sites(mod, f, 'vfps::ElectricField::updateCSR(')]
    okr = bool(app) and all(c[2]['args'][1][1] == rd for c in app) and bool(csr) and all(c[2]['args'][0][1] == rd for c in csr)
    res.obs.append(Ob('the field whose frequency axis the file is created with is the field whose CSR spectrum is updated and appended (%d append sites, %d update sites)' % (len(app), len(csr)), 'holds' if okr else 'violated', key='file-field-object',
                      cex=None if okr else {'replay': 'structural'}))

def main(tier):
    chk = Check('C10', tier, '4/C10')
    bld = h5_build()
    cfgs = [(4, 1, 8, 2), (4, 2, 12, 2)] if tier == 'quick' else [(4, 1, 8, 2), (4, 2, 12, 2), (5, 3, 20, 3), (6, 1, 9, 1), (3, 2, 8, 0)]
    jobs = [(job_layout, c) for c in cfgs] + [(job_append, c) for c in cfgs]
    import mainloop, c09, c06, c07
    jobs += [(job_main_wiring, ())]
    jobs += mainloop.jobs_for('C10', tier)
    import preloop
    jobs += [(preloop.job_preloop, ('C10',)), (preloop.job_rw_sets, ())]      # the first record of a run started from a results file: everything it stores was recomputed from the loaded grid
    # value clauses of the statement: stored moments are the moments of the stored profiles (C09), stored wake is the convolution (C06), intensity is the sum of the spectrum (C07)
    jobs += [(c09.job_moments, (6, 3, 2, ax, (-6, 6), (-6, 6))) for ax in (0, 1)] + [(c09.job_moments, (5, 2, 1, ax, (-5, 7), (-6.5, 5.5))) for ax in (0, 1)] + [(c09.job_normalize, (4, 3, 2))]
    jobs += [(c06.job_structure, c) for c in ((4, 12, 5, (1, 0)), (4, 9, 5, (0, 1)), (4, 11, 5, (1,)))] + [(c07.job_spectrum, (4, 12, 5, (1, 0), 0))] + [(c07.job_stored_intensity, c) for c in ((4, 8, 0, (0,)), (4, 12, 5, (1, 0)))]      # bucket lists with the last bunch in bucket 0, with the first bunch in bucket 0, with one bunch in another bucket
    chk.bounds = {'configurations (n, bunches, padded length N, particles)': cfgs, 'symbolic': 'contents of both axes, frequency ruler, impedance, charge/current/unit factors, t_sync, f_rev, every source array of every append',
                  'records': 'first and second record of each dataset (offset = current record count, taken from the object)'}
    chk.assumptions = ['libhdf5_cpp is a correct store: what is passed to DataSet::write / Attribute::write with a hyperslab is what the file holds (recorder model; chunking, compression, soft-link resolution not modelled)',
                       'the statement\'s clauses on values (projections of the stored phase space, moments of the profiles, wake = convolution, intensity = sum of spectrum) are decided by C09/C06/C07 on the same source arrays that are written here',
                       'ProgramOptions::save(HDF5File*) parameter attributes and exceptions from HDF5 are outside']
    chk.stubs = ['H5::* C++ API: recorder', 'operator new/delete', 'std::string members']
    chk.replayer = replayer(bld)
    _rs = run_jobs(jobs, budget=900 if tier == 'quick' else 3000); _rs.append(mainloop.loop_witness(_rs, 'C10')); chk.add(_rs)
    chk.finish()

if __name__ == '__main__':
    main(sys.argv[1] if len(sys.argv) > 1 else 'quick')
