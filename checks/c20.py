"""C20 - command line beats config file beats default; legacy aliases are honoured (ProgramOptions::parse executed from IR against
a model of boost::program_options' documented store/notify contract; the option registry is the one the real constructor builds)."""
import sys, os
sys.path.insert(0, os.path.dirname(os.path.abspath(__file__)))
from maps_common import *
from symex import _str_set, _str_init, _cstr_at, _str_bytes

OPTS_TUS = ['src/IO/ProgramOptions.cpp', 'src/IO/Display.cpp', 'src/HelperFunctions.cpp', 'src/IO/FSPath.cpp']
def parse_build(): return B.build('h_parse.cpp', OPTS_TUS, hdf5=0, noinline_tus=['src/IO/ProgramOptions.cpp'], libs=('-lboost_program_options', '-lboost_filesystem', '-lboost_system'))
I64 = IntTy(64); I32 = IntTy(32); I8 = IntTy(8)
SZ = {'f32': 4, 'f64': 8, 'i32': 4, 'u32': 4, 'i64': 8, 'u64': 8, 'b': 1}
SCALAR = set(SZ)

# ------------------------------------------------------------------ registry (read back natively from the object the real constructor built)
class Opt:
    def __init__(s, name, ty, store_to, has_default, dflt, flags, sem):
        s.name = name; s.ty = ty; s.store_to = store_to; s.has_default = has_default; s.dflt = dflt; s.sem = sem
        s.composing, s.multitoken, s.zero_tokens, s.has_implicit = [c == '1' for c in flags]
def registry(R):
    reg = {'cfgfile': {}, 'cmdline': {}, 'visible': {}}
    for k, v in R.items():
        if not k.startswith('opt:'): continue
        _, g, i = k.split(':'); name, ty, st_, hd, dflt, flags, sem = v.split('|')
        reg[g][name] = Opt(name, ty, int(st_, 16), hd == '1', dflt, flags, int(sem, 16))
    return reg
def zval(ty, bits_hex):
    """concrete default (hex bit pattern) as a term of the option's sort"""
    u = int(bits_hex, 16)
    if ty == 'f32': return z3.RealVal(str(Fraction(struct.unpack('<f', struct.pack('<I', u))[0])))
    if ty == 'f64': return z3.RealVal(str(Fraction(struct.unpack('<d', struct.pack('<Q', u))[0])))
    return z3.BitVecVal(u, 8 * SZ[ty])
def mksym(name, ty): return z3.Real(name) if ty in ('f32', 'f64') else z3.BitVec(name, 8 * SZ[ty])

STRVAL = {'cmd': b'from-the-command-line', 'cfg': b'from-the-config-file'}

# ------------------------------------------------------------------ the boost::program_options contract (documented behaviour of store/notify), as a model over st.extra['vm']
class World:
    """one symbolic world: which options are given where (Bool symbols), with which values (symbols of the option's type)"""
    def __init__(s, reg, strmode):
        s.reg = reg          # strmode: where string / vector valued options are given: 'none' | 'cmd' | 'cfg' | 'both'; suffix '-null': the string options are given as "/dev/null" (the documented "no file")
        s.null = strmode.endswith('-null'); strmode = strmode.replace('-null', ''); s.strmode = strmode
        s.sv = {'cmd': b'/dev/null', 'cfg': b'/dev/null'} if s.null else dict(STRVAL)
        s.given = {'cmd': {}, 'cfg': {}}; s.val = {'cmd': {}, 'cfg': {}}; s.assume = []
        for kind, g in (('cmd', 'cmdline'), ('cfg', 'cfgfile')):
            for n, o in reg[g].items():
                if o.ty in SCALAR:
                    s.given[kind][n] = z3.Bool('%s_given_%s' % (kind, n)); s.val[kind][n] = mksym('%s_val_%s' % (kind, n), o.ty)
                    if o.ty == 'b': s.assume.append(z3.ULE(s.val[kind][n], 1))
                elif o.ty in ('str', 'vf32') and n != 'config':
                    s.given[kind][n] = strmode in (kind, 'both'); s.val[kind][n] = s.sv[kind] if o.ty == 'str' else STRVAL[kind]
                else: s.given[kind][n] = False; s.val[kind][n] = None      # flags (help, version, ...), config, untyped: fixed by the scenario

def install_model(ex, R, reg, W, scen):
    """scen: 'cfg' (-c names an existing regular file) | 'nocfg' (no -c) | 'missing' (-c names a file that does not exist) | 'flag:<name>' (an information flag is given)"""
    G = {R['g_cfgfile']: 'cfgfile', R['g_cmdline']: 'cmdline'}
    def vm(st): return st.extra.setdefault('vm', {})
    def vv_addr(st, name):
        a = st.extra.setdefault('vv', {})
        if name not in a:
            a[name] = ex.malloc(st, 64); st.extra.setdefault('vv_rev', {})[a[name] + 8] = name
        return a[name]
    def key_of(st, p): return ex.read_bytes(st, ex.load(st, p, I64), ex.load(st, p + 8, I64)).decode()
    def e_parse_cmd(ex, st, fr, a, ins):
        sret, ac, av, desc, style = a[0], a[1], a[2], a[3], a[4]
        if scen == 'cmderror':
            st.events.append(('parser-throws', 'command line')); obj = ex.malloc(st, 64); vt = ex.malloc(st, 64); ex.store(st, obj, I64, vt); raise CxxThrow(obj, '<any>')
        st.extra.setdefault('parsed', {})[sret] = ('cmd', G.get(desc), style); st.events.append(('parse_command_line', G.get(desc), style)); return None
    def e_parse_cfg(ex, st, fr, a, ins):
        sret, strm, desc, allow = a
        if scen == 'cfgerror':
            st.events.append(('parser-throws', 'config file')); obj = ex.malloc(st, 64); vt = ex.malloc(st, 64); ex.store(st, obj, I64, vt); raise CxxThrow(obj, '<any>')
        st.extra.setdefault('parsed', {})[sret] = ('cfg', G.get(desc), allow); st.events.append(('parse_config_file', G.get(desc), allow)); return None
    def e_store(ex, st, fr, a, ins):
        kind, group, x = st.extra['parsed'][a[0]]
        if group is None: raise Unsupported('store() of options parsed against an options_description the harness did not publish')
        if a[1] != R['vm']: raise Unsupported('store() into another variables_map')
        V = vm(st); st.events.append(('store', kind, group))
        for n, o in reg[group].items():
            given = W.given[kind].get(n, False)
            if scen.startswith('flag:') and kind == 'cmd' and n == scen[5:]: given = True
            if n == 'config' and kind == 'cmd': given = scen in ('cfg', 'missing', 'cfgerror')
            if given is False: continue
            e = V.get(n)
            if e is None: V[n] = {'present': given, 'defaulted': False, 'value': W.val[kind][n] if n != 'config' else (R['cfgbytes'] if scen in ('cfg', 'cfgerror') else b'/nonexistent/missing.cfg'), 'opt': (group, n)}
            else:
                take = z3.And(given, z3.Or(z3.Not(e['present']), e['defaulted'])) if not (given is True and e['present'] is True) else (e['defaulted'] if e['present'] is True else None)
                take = z3.simplify(take) if z3.is_expr(take) else take
                if o.ty in SCALAR:
                    V[n] = {'present': sor(e['present'], given), 'defaulted': site(take, False, e['defaulted']), 'value': site(take, W.val[kind][n], e['value']), 'opt': e['opt']}
                else:
                    # string / vector options are concrete per scenario: first explicit store wins - unless the option is registered as composing: boost then never
                    # marks it final and a later source *adds* its values to the earlier ones
                    if e['present'] is True and e['defaulted'] is False:
                        if o.composing and given is True: V[n] = dict(e, value=e['value'] + b'+' + W.val[kind][n])
                        continue
                    if given is True: V[n] = {'present': True, 'defaulted': False, 'value': W.val[kind][n], 'opt': (group, n)}
        for n, o in reg[group].items():          # second phase of store(): defaults of options not in the map yet
            if not o.has_default: continue
            d = zval(o.ty, o.dflt) if o.ty in SCALAR else (bytes.fromhex(o.dflt[1:]) if o.ty == 'str' else None)
            e = V.get(n)
            if e is None: V[n] = {'present': True, 'defaulted': True, 'value': d, 'opt': (group, n)}
            elif e['present'] is not True:
                V[n] = {'present': True, 'defaulted': site(e['present'], e['defaulted'], True), 'value': site(e['present'], e['value'], d), 'opt': e['opt']}
        return None
    def e_notify(ex, st, fr, a, ins):
        V = vm(st); st.events.append(('notify',))
        for n in sorted(V, key=lambda s: s.encode()):       # std::map<std::string, variable_value>: byte-wise key order
            e = V[n]; g, nn = e['opt']; o = reg[g][nn]
            if not o.store_to or e['present'] is False: continue
            if o.ty in SCALAR:
                old = ex.load(st, o.store_to, FloatTy(8 * SZ[o.ty]) if o.ty in ('f32', 'f64') else IntTy(8 * SZ[o.ty]))
                old = ex.dom.z(old) if o.ty in ('f32', 'f64') else (z3.BitVecVal(old, 8 * SZ[o.ty]) if isinstance(old, int) else old)
                new = site(e['present'], e['value'], old)
                st.sym[o.store_to] = (SZ[o.ty], 'f' if o.ty in ('f32', 'f64') else 'i', new)
            elif o.ty == 'str' and e['present'] is True: _str_set(ex, st, o.store_to, e['value'])
            elif o.ty == 'vf32' and e['present'] is True: st.extra.setdefault('vec', {})[o.store_to] = e['value']
        return None
    def e_count(ex, st, fr, a, ins):
        if a[0] != R['vm_map']: raise Unsupported('count() on another map')
        e = vm(st).get(key_of(st, a[1]))
        if e is None or e['present'] is False: return 0
        if e['present'] is True: return 1
        return z3.If(e['present'], z3.BitVecVal(1, 64), z3.BitVecVal(0, 64))
    def e_at(ex, st, fr, a, ins):
        n = key_of(st, a[1]); e = vm(st).get(n)
        if e is None or e['present'] is not True:
            if e is None or e['present'] is False: raise PathEnd('std::map::at("%s") on an absent key: std::out_of_range' % n)
            if ex.feasible(st, z3.Not(e['present'])): raise Unsupported('std::map::at("%s") on a possibly absent key' % n)
        return vv_addr(st, n)
    def e_index(ex, st, fr, a, ins):
        n = key_of(st, a[1]); e = vm(st).get(n)
        if e is None or e['present'] is False: return vv_addr(st, '<empty>')
        if e['present'] is not True: st.pc.append(e['present'])       # callers guard with count(); an unguarded use would show up as an infeasible assumption in the witness
        return vv_addr(st, n)
    def e_value(ex, st, fr, a, ins): return a[0] + 8
    def e_defaulted(ex, st, fr, a, ins):
        n = st.extra.get('vv_rev', {}).get(a[0] + 8)
        if n is None: raise Unsupported('defaulted() of a value the model does not know')
        if n == '<empty>': return 0
        d = vm(st)[n]['defaulted']
        if d is True or d is False: return int(d)
        return z3.If(d, z3.BitVecVal(1, 1), z3.BitVecVal(0, 1))
    def e_empty(ex, st, fr, a, ins):
        n = st.extra.get('vv_rev', {}).get(a[0] + 8)
        return 1 if n in (None, '<empty>') else 0
    def e_any_assign(ex, st, fr, a, ins):
        rev = st.extra.get('vv_rev', {}); l = rev.get(a[0]); r = rev.get(a[1])
        if l is None or r is None: raise Unsupported('boost::any assignment between objects the model does not know')
        V = vm(st); st.events.append(('assign', l, r))
        if r == '<empty>': raise Unsupported('assignment from an empty value')
        gl, nl = V[l]['opt']; gr, nr = V[r]['opt']
        if reg[gl][nl].ty != reg[gr][nr].ty: raise PathEnd('value of type %s assigned to option %s of type %s: notify() throws bad_any_cast' % (reg[gr][nr].ty, l, reg[gl][nl].ty))
        V[l] = dict(V[l], value=V[r]['value'])
        return a[0]
    def e_exists(ex, st, fr, a, ins): return 1 if scen in ('cfg', 'cfgerror') else 0
    def e_ifs_ctor(ex, st, fr, a, ins):
        vt = ex.malloc(st, 64); ex.store(st, vt + 8, I64, 256); ex.store(st, a[0], I64, vt + 32)      # libstdc++: basic_ios subobject of basic_ifstream at +256 (vbase offset at vptr-24)
        st.events.append(('open', _cstr_at(ex, st, a[1]))); return None
    def e_ios_not(ex, st, fr, a, ins):
        b = z3.Bool('open_failed_%d' % len(st.events)); st.events.append(('!ifs', b)); return z3.If(b, z3.BitVecVal(1, 1), z3.BitVecVal(0, 1))
    def e_out(ex, st, fr, a, ins): st.events.append(('print',)); return a[0]
    def e_str_ret(ex, st, fr, a, ins): _str_init(ex, st, a[0], b'text'); return None
    def vcall(st_, fr_, ins, fp, args):
        # virtual call on an exception object of the model (e.what()): a fixed message
        st_.events.append(('vcall-on-exception',)); buf = ex.malloc(st_, 16); ex.write_bytes(st_, buf, b'parser error\0'); return buf
    ex.indirect_hook = vcall
    _orig_match = ex.exc_matches
    ex.exc_matches = lambda thrown_, caught: True if thrown_ == '<any>' else _orig_match(thrown_, caught)      # an error of the parsers stands for every exception type they can throw
    ex.ext['__cxa_begin_catch'] = ext_cxa_begin_catch
    PO = '_ZN5boost15program_options'
    ex.ext.update({PO + '18parse_command_lineIcEENS0_20basic_parsed_optionsIT_EEiPKPKS3_RKNS0_19options_descriptionEiNS_9function1ISt4pairINSt7__cxx1112basic_stringIcSt11char_traitsIcESaIcEEESJ_ERKSJ_EE': e_parse_cmd,
                   PO + '17parse_config_fileIcEENS0_20basic_parsed_optionsIT_EERSt13basic_istreamIS3_St11char_traitsIS3_EERKNS0_19options_descriptionEb': e_parse_cfg,
                   PO + '5storeERKNS0_20basic_parsed_optionsIcEERNS0_13variables_mapEb': e_store, PO + '6notifyERNS0_13variables_mapE': e_notify,
                   PO + '20basic_parsed_optionsIcED2Ev': ext_noop, PO + 'lsERSoRKNS0_19options_descriptionE': e_out,
                   '_ZNK5boost15program_options14variable_value9defaultedEv': e_defaulted, '_ZNK5boost15program_options14variable_value5emptyEv': e_empty,
                   PO + '14variable_value5valueEv': e_value, '_ZNK5boost15program_options14variable_value5valueEv': e_value, '_ZN5boost3anyaSERKS0_': e_any_assign,
                   '_ZNK5boost15program_options13variables_mapixERKNSt7__cxx1112basic_stringIcSt11char_traitsIcESaIcEEE': e_index,
                   '_ZNKSt3mapINSt7__cxx1112basic_stringIcSt11char_traitsIcESaIcEEEN5boost15program_options14variable_valueESt4lessIS5_ESaISt4pairIKS5_S8_EEE5countERSC_': e_count,
                   '_ZNSt3mapINSt7__cxx1112basic_stringIcSt11char_traitsIcESaIcEEEN5boost15program_options14variable_valueESt4lessIS5_ESaISt4pairIKS5_S8_EEE2atERSC_': e_at,
                   '_ZN5boost10filesystem6existsERKNS0_4pathE': e_exists, '_ZN5boost10filesystem15is_regular_fileERKNS0_4pathE': e_exists,
                   '_ZN5boost10filesystem4pathC2ERKNSt7__cxx1112basic_stringIcSt11char_traitsIcESaIcEEE': ext_noop, '_ZN5boost10filesystem4pathD2Ev': ext_noop,
                   '_ZNSt14basic_ifstreamIcSt11char_traitsIcEEC1EPKcSt13_Ios_Openmode': e_ifs_ctor, '_ZNSt14basic_ifstreamIcSt11char_traitsIcEED1Ev': ext_noop, '_ZNKSt9basic_iosIcSt11char_traitsIcEEntEv': e_ios_not,
                   '_ZNSolsEPFRSoS_E': e_out, '_ZStlsISt11char_traitsIcEERSt13basic_ostreamIcT_ES5_PKc': e_out,
                   '_ZStlsIcSt11char_traitsIcESaIcEERSt13basic_ostreamIT_T0_ES7_RKNSt7__cxx1112basic_stringIS4_S5_T1_EE': e_out,
                   '_ZN4vfps16copyright_noticeB5cxx11Ev': e_str_ret})
    ex.ext_prefix.append(('_ZN4vfps15inovesa_version', e_str_ret))
    ex.ext_prefix.append(('_ZN5boost9function1', ext_noop))

def sor(a, b):
    if a is True or b is True: return True
    if a is False: return b
    if b is False: return a
    return z3.Or(a, b)
def site(c, a, b):
    """if-then-else over python booleans / z3 terms / python bytes"""
    if c is True: return a
    if c is False or c is None: return b
    if a is True or a is False: a = z3.BoolVal(a)
    if b is True or b is False: b = z3.BoolVal(b)
    if isinstance(a, bytes) or isinstance(b, bytes): raise Unsupported('symbolic choice between concrete strings')
    return z3.If(c, a, b)

# ------------------------------------------------------------------ the specification side
def alias_groups(reg):
    """current name -> legacy names: options registered for the config file only that are bound to the variable of an option that is also on the command line"""
    cur = {o.store_to: n for n, o in reg['cmdline'].items() if o.store_to}
    al = {}
    for n, o in reg['cfgfile'].items():
        if n not in reg['cmdline'] and o.store_to in cur and o.ty in SCALAR: al.setdefault(cur[o.store_to], []).append(n)
    return al
def expected(reg, W, scen, R, ex0, st0):
    """effective value per canonical option: command line if given, else config file (under its current or a legacy name), else the documented default
    (the default the visible option group shows in --help; an option without default keeps the value the constructor gave the variable)"""
    al = alias_groups(reg); exp = {}; assume = list(W.assume)
    names = dict(reg['cfgfile']); names.update(reg['cmdline'])
    legacy = {l for ls in al.values() for l in ls}
    cfg_on = scen == 'cfg'
    for n, o in names.items():
        if o.ty not in SCALAR or not o.store_to or n in legacy: continue
        if n not in reg['cmdline'] and not any(n == c for c in al):
            continue          # config-file-only options that no command line option shares a variable with: compatibility options, "ignored without effect" - their own variable is not an effective value
        vis = reg['visible'].get(n) or reg['cmdline'].get(n) or o
        if vis.has_default: d = zval(o.ty, vis.dflt)
        else:
            b = ex0.read_bytes(st0, o.store_to, SZ[o.ty]); d = zval(o.ty, '%x' % int.from_bytes(b, 'little'))
        e = d
        if cfg_on:
            for l in al.get(n, []): e = z3.If(W.given['cfg'][l], W.val['cfg'][l], e)
            if n in reg['cfgfile']: e = z3.If(W.given['cfg'][n], W.val['cfg'][n], e)
            both = [W.given['cfg'][x] for x in ([n] if n in reg['cfgfile'] else []) + al.get(n, [])]
            for i in range(len(both)):
                for j in range(i + 1, len(both)): assume.append(z3.Not(z3.And(both[i], both[j])))      # one quantity under two names in one file: outside the statement
        if n in reg['cmdline']: e = z3.If(W.given['cmd'][n], W.val['cmd'][n], e)
        exp[n] = (o, e)
    return exp, assume

# ------------------------------------------------------------------ jobs
def setup(scen, strmode):
    bld = parse_build(); mod = load_module(bld, ['harness', 'ProgramOptions'])
    wd = os.path.join(bld['dir'], 'wd'); os.makedirs(wd, exist_ok=True)
    snap, R, pre = take_snapshot(bld, 'reg', [wd])
    reg = registry(R)
    ex = Exec(mod, snap, RealDom()); st = State()
    R = dict(R); R['cfgbytes'] = _cstr_at(ex, st, R['cfgpath'])
    W = World(reg, strmode); install_model(ex, R, reg, W, scen)
    return bld, mod, snap, R, reg, ex, st, W

def concrete_world(reg, m, W, scen, only=None):
    """turn the presence part of a model into a concrete command line / config file with values of my choosing (distinct per source)"""
    cmd = []; cfg = []; vals = {}
    def tok(o, k):
        base = {'cmd': 3, 'cfg': 5}[k]
        if o.ty == 'b':
            d = int(o.dflt, 16) if o.has_default else 0
            v = (1 - d) if k == 'cmd' else d
            return ('true' if v else 'false'), v
        if o.ty in ('f32', 'f64'): v = base + 0.25; return repr(v), v
        return str(base), base
    for kind, g, out in (('cmd', 'cmdline', cmd), ('cfg', 'cfgfile', cfg)):
        if kind == 'cfg' and scen != 'cfg': continue
        for n, o in reg[g].items():
            gv = W.given[kind].get(n)
            if o.ty in SCALAR and z3.is_expr(gv) and z3.is_true(m.eval(gv, model_completion=True)):
                t, v = tok(o, kind); vals[(kind, n)] = v
                if kind == 'cmd': out.extend(['--' + n, t])
                else: out.append('%s=%s' % (n, t))
            elif gv is True:
                if o.ty == 'str':
                    if kind == 'cmd': out.extend(['--' + n, W.sv[kind].decode()])
                    else: out.append('%s=%s' % (n, W.sv[kind].decode()))
                elif o.ty == 'vf32':
                    if kind == 'cmd': out.extend(['--' + n, '0.5', '0.25'])
                    else: out.extend(['%s=0.125' % n, '%s=0.0625' % n])
    return cmd, cfg, vals

def native_parse(bld, scen, cmd, cfg):
    wd = os.path.join(bld['dir'], 'wd'); d = os.path.join(OUT, 'replay'); os.makedirs(d, exist_ok=True); os.makedirs(wd, exist_ok=True)
    fin = os.path.join(d, 'c20-%d.in' % os.getpid()); fout = fin[:-3] + '.out'
    with open(fin, 'w') as f:
        f.write('workdir %s\n' % wd)
        if scen == 'nocfg': f.write('nocfg 1\n')
        if scen == 'missing': f.write('missingcfg 1\n')
        if cmd: f.write('cmd %s\n' % ' '.join(cmd))
        if cfg: f.write('cfg %s\n' % ' '.join(cfg))
    r = subprocess.run([bld['exe'], 'run', fin, fout], capture_output=True, text=True, timeout=60)
    if r.returncode != 0: raise RuntimeError('native parse failed rc=%d %s' % (r.returncode, r.stderr[-300:]))
    res = {'var': {}, 'vm': {}}
    for ln in open(fout + '.txt'):
        w = ln.split()
        if w[0] == 'ret': res['ret'] = int(w[1]); res['threw'] = int(w[3]); res['what'] = ' '.join(w[5:])
        elif w[0] == 'var': res['var'][w[1]] = (w[2], w[3])
        elif w[0] == 'vm': res['vm'][w[1]] = (int(w[2]), w[3])
    for p in (fin, fout, fout + '.txt'):
        try: os.unlink(p)
        except OSError: pass
    return res
def bits_to_num(ty, h):
    u = int(h, 16)
    if ty == 'f32': return struct.unpack('<f', struct.pack('<I', u))[0]
    if ty == 'f64': return struct.unpack('<d', struct.pack('<Q', u))[0]
    if ty in ('i32',): return sgn(u, 32)
    if ty in ('i64',): return sgn(u, 64)
    return u

def job_parse(res, scen, strmode):
    bld, mod, snap, R, reg, ex, st, W = setup(scen, strmode)
    exp, assume = expected(reg, W, scen, R, ex, st)
    account(res, ex, mod, [])
    st.pc = list(W.assume)
    argc = 3 if scen in ('cfg', 'missing', 'cfgerror') else 1
    outs = []
    for s in ex.run_all(st, 'e_parse', [R['opts'], argc, R['argv']]):
        if hasattr(s, 'error'): raise s.error
        outs.append(s)
    account(res, ex, mod, outs)
    if scen in ('cfgerror', 'cmderror'):
        src = 'config file' if scen == 'cfgerror' else 'command line'
        hit = [s for s in outs if any(e[0] == 'parser-throws' for e in s.events)]
        okp = bool(hit) and all(hasattr(s, 'ended') and 'uncaught C++ exception' in s.ended for s in hit)
        res.obs.append(Ob('an error raised by the %s parser (unknown option, malformed value) leaves parse() as an exception - nothing in parse() catches it, so main turns it into a failure status (%d paths)' % (src, len(hit)),
                          'holds' if okp else 'violated', key='parse-error-propagates', detail='' if okp else str([(getattr(s, 'ended', 'returned %r' % s.retval)) for s in hit][:2]),
                          cex=None if okp else {'replay': 'parse-error', 'scen': scen}))
        witness(res, 'the %s parser is reached' % src, [], z3.BoolVal(bool(hit))); return
    tag = 'scenario %s, string options given: %s' % ({'cfg': '"-c <existing file>"', 'nocfg': 'no config file', 'missing': '"-c <missing file>"'}.get(scen, scen), strmode)
    good = [s for s in outs if not hasattr(s, 'ended')]
    ended = [s for s in outs if hasattr(s, 'ended')]
    for s in ended:
        res.obs.append(Ob('%s: no path of parse() ends abnormally (%s)' % (tag, s.ended[:120]), 'violated', key='parse-abnormal-end', cex={'ended': s.ended}))
    rets = []
    for s in good:
        rv = s.retval
        rets.append(rv)
    if scen == 'missing' or scen.startswith('flag:'):
        okp = all(isinstance(r, int) and r == 0 for r in rets) and all(any(e[0] == 'print' for e in s.events) for s in good)
        res.obs.append(Ob('%s: parse() prints a message and returns false on every path (%d paths); nothing is simulated' % (tag, len(good)), 'holds' if okp else 'violated', key='parse-stop',
                          cex=None if okp else {'replay': 'parse', 'scen': scen, 'cmd': [], 'cfg': [], 'expect_ret': 0}))
        if scen == 'missing':
            nost = all(not any(e[0] == 'store' and e[1] == 'cfg' for e in s.events) for s in good)
            res.obs.append(Ob('%s: no config-file store happens' % tag, 'holds' if nost else 'violated', key='parse-stop'))
        witness(res, '%s: paths explored' % tag, [], z3.BoolVal(len(good) > 0)); return
    run_paths_ = [s for s in good if not (isinstance(s.retval, int) and s.retval == 0)]
    stop_paths = [s for s in good if isinstance(s.retval, int) and s.retval == 0]
    for s in stop_paths:
        # the only legitimate "do not run" exits here: the config file cannot be opened
        why = [e for e in s.events if e[0] == '!ifs']
        legit = bool(why) and any(e[0] == 'print' for e in s.events)
        if legit:
            sol = z3.Solver(); sol.add(*s.pc); sol.add(z3.Not(why[-1][1])); legit = sol.check() == z3.unsat
        res.obs.append(Ob('%s: a path on which parse() returns false is the unreadable-config-file exit with a message' % tag, 'holds' if legit else 'violated', key='parse-spurious-stop',
                          cex=None if legit else {'replay': 'parse', 'scen': scen, 'cmd': [], 'cfg': [], 'expect_ret': 1}))
    if not run_paths_: raise Unsupported('no path of parse() returns true')
    # parser call arguments: unknown options must be refused by boost (allow_unregistered == false, default style)
    for s in run_paths_[:1]:
        for e in s.events:
            if e[0] == 'parse_config_file':
                res.obs.append(Ob('%s: parse_config_file is given the config-file option group and allow_unregistered=false (an unknown key stops the program)' % tag, 'holds' if (e[1] == 'cfgfile' and e[2] == 0) else 'violated', key='parse-args'))
            if e[0] == 'parse_command_line':
                res.obs.append(Ob('%s: parse_command_line is given the command-line option group and the default style' % tag, 'holds' if (e[1] == 'cmdline' and e[2] == 0) else 'violated', key='parse-args'))
    nob = 0
    for s in run_paths_:
        for n, (o, e) in sorted(exp.items()):
            got = ex.load(s, o.store_to, FloatTy(8 * SZ[o.ty]) if o.ty in ('f32', 'f64') else IntTy(8 * SZ[o.ty]))
            got = ex.dom.z(got) if o.ty in ('f32', 'f64') else (z3.BitVecVal(got, 8 * SZ[o.ty]) if isinstance(got, int) else got)
            def cex(m, n=n, o=o, s=s):
                cmd, cfg, vals = concrete_world(reg, m, W, scen)
                return {'replay': 'parse', 'scen': scen, 'option': n, 'cmd': cmd, 'cfg': cfg}
            al = alias_groups(reg)
            prove(res, '%s: effective value of "%s" == command line if given, else config file%s, else default' % (tag, n, (' (also under ' + '/'.join(al[n]) + ')') if n in al else ''),
                  s.pc + assume, got != e, key='precedence-' + ('alias' if n in al else 'value'), cex_fn=cex); nob += 1
        # string / vector options: concrete per scenario
        for n, o in sorted(dict(reg['cfgfile'], **reg['cmdline']).items()):
            if o.ty not in ('str', 'vf32') or n == 'config' or not o.store_to: continue
            incmd = W.given['cmd'].get(n) is True; incfg = scen == 'cfg' and W.given['cfg'].get(n) is True
            want = STRVAL['cmd'] if incmd else (STRVAL['cfg'] if incfg else None)
            if o.ty == 'str' and want is not None:
                want = W.sv['cmd'] if incmd else W.sv['cfg']
                # "/dev/null" is the documented way to say "no file" for the start distribution (the program treats the results file the same way): it means that whichever source it comes from
                if want == b'/dev/null' and n in ('InitialDistFile', 'output'): want = b''
            if o.ty == 'str':
                gotb = _str_bytes(ex, s, o.store_to)
                if want is None:
                    vis = reg['visible'].get(n) or o
                    want = bytes.fromhex(vis.dflt[1:]) if vis.has_default else _str_bytes(ex, st, o.store_to)
                ok = gotb == want
            else:
                gotv = s.extra.get('vec', {}).get(o.store_to); ok = gotv == want
            res.obs.append(Ob('%s: effective value of "%s" (%s) is the one from %s' % (tag, n, o.ty, 'the command line' if incmd else ('the config file' if incfg else 'the default')), 'holds' if ok else 'violated', key='precedence-string',
                              cex=None if ok else {'replay': 'parse', 'scen': scen, 'option': n, 'cmd': sum([['--' + x] + ([W.sv['cmd'].decode()] if o.ty == 'str' else ['0.5', '0.25']) for x in [n] if incmd], []),
                                                            'cfg': (['%s=%s' % (n, W.sv['cfg'].decode())] if o.ty == 'str' else ['%s=0.125' % n, '%s=0.0625' % n]) if (scen == 'cfg' and W.given['cfg'].get(n) is True) else []}))
    # non-vacuity: the config-file value of an option is reachable as effective value
    s = run_paths_[0]
    if scen == 'cfg':
        o, e = exp['GridSize']; got = ex.load(s, o.store_to, I32)
        witness(res, '%s: GridSize can come from the config file (model is not vacuous)' % tag, s.pc + assume, z3.And(W.given['cfg']['GridSize'], z3.Not(W.given['cmd']['GridSize']), got == W.val['cfg']['GridSize'], W.val['cfg']['GridSize'] == 77))
    else:
        o, e = exp['GridSize']; got = ex.load(s, o.store_to, I32)
        witness(res, '%s: GridSize can come from the command line (model is not vacuous)' % tag, s.pc + assume, z3.And(W.given['cmd']['GridSize'], got == 77))

def job_registry(res):
    """facts about the option table the real constructor registered (concrete: the constructor has no inputs)"""
    bld, mod, snap, R, reg, ex, st, W = setup('cfg', 'none')
    for n in sorted(set(reg['cfgfile']) & set(reg['cmdline'])):
        a, b = reg['cfgfile'][n], reg['cmdline'][n]
        ok = a.store_to == b.store_to and a.ty == b.ty
        res.obs.append(Ob('option "%s" is bound to the same variable, with the same type, in the command-line and the config-file group' % n, 'holds' if ok else 'violated', key='registry-binding'))
    # value types: the documented reading of a value is its number / truth value / text; an option declared with a character type is read by boost as ONE CHARACTER ("1" becomes 49, "10" is rejected),
    # a type the contract model does not know cannot be decided
    for g in ('cmdline', 'cfgfile'):
        for n, o in sorted(reg[g].items()):
            if not o.store_to: continue
            if o.ty == 'other': raise Unsupported('option "%s" has a value type outside the contract model' % n)
            res.obs.append(Ob('option "%s" (%s group) is read as a %s' % (n, g, {'c8': 'single character'}.get(o.ty, 'number / truth value / text')), 'violated' if o.ty == 'c8' else 'holds', key='registry-type',
                              cex=None if o.ty != 'c8' else {'replay': 'parse-char', 'option': n, 'group': g}))
    al = alias_groups(reg)
    want = {'SynchrotronFrequency': ['SyncFreq'], 'AcceleratingVoltage': ['RFVoltage'], 'StepsPerTs': ['steps']}
    for c, ls in want.items():
        for l in ls:
            ok = l in al.get(c, []) and l in reg['cfgfile'] and reg['cfgfile'][l].ty == reg['cmdline'][c].ty and not reg['cfgfile'][l].has_default
            res.obs.append(Ob('legacy name "%s" is accepted in a config file, bound to the variable of "%s", same type, no default of its own' % (l, c), 'holds' if ok else 'violated', key='registry-alias'))
    used = {}
    for g in ('cmdline', 'cfgfile'):
        for n, o in reg[g].items():
            if o.store_to: used.setdefault(o.store_to, set()).add(n)
    ign = [n for n in reg['cfgfile'] if n not in reg['cmdline'] and not any(n in ls for ls in al.values())]
    for n in ign:
        o = reg['cfgfile'][n]; share = used.get(o.store_to, set()) - set(ign)
        res.obs.append(Ob('compatibility option "%s" is accepted in a config file and bound to a variable no other option uses (ignored without effect)' % n, 'holds' if not share else 'violated', key='registry-ignored'))
    # ... and still accepted with the values old configuration files carry: the switch takes boolean words (true/false/on/off/yes/no/1/0), the others whole numbers
    kinds = {'HaissinskiIterations': ('u32', 'u64', 'i32', 'i64'), 'InitialDistParam': ('u32', 'u64', 'i32', 'i64'), 'RotationType': ('u32', 'u64', 'i32', 'i64'), 'SaveSourceMap': ('b',)}
    for n in ('HaissinskiIterations', 'InitialDistParam', 'RotationType', 'SaveSourceMap'):
        res.obs.append(Ob('compatibility option "%s" is still accepted' % n, 'holds' if n in ign else 'violated', key='registry-ignored'))
        if n in ign:
            okt = reg['cfgfile'][n].ty in kinds[n]
            res.obs.append(Ob('compatibility option "%s" still takes %s (so that a line "%s=%s" of an old configuration file is ignored, not refused)' % (n, 'boolean words' if kinds[n] == ('b',) else 'a whole number', n, 'true' if kinds[n] == ('b',) else '2'),
                              'holds' if okt else 'violated', key='registry-ignored', detail='' if okt else 'declared type: %s' % reg['cfgfile'][n].ty, cex=None if okt else {'replay': 'parse-compat', 'option': n, 'value': 'true' if kinds[n] == ('b',) else '2'}))
    # overlapping variables: no two different canonical options share storage
    for a, ns in used.items():
        canon = {n for n in ns if n in reg['cmdline']}
        res.obs.append(Ob('variable at +0x%x is the target of one command-line option (%s)' % (a - R['opts'], ','.join(sorted(ns))), 'holds' if len(canon) <= 1 else 'violated', key='registry-binding'))
    res.paths += 1

def job_calibrate(res):
    """the store/notify model against boost itself: concrete command lines / config files through the native parse() and through the model"""
    bld = parse_build()
    cases = [('cfg', ['--GridSize', '64', '-N', '500'], ['GridSize=32', 'StepsPerTs=640', 'padding=4']),
             ('cfg', [], ['steps=2000', 'RFVoltage=1500000', 'SyncFreq=7100']),
             ('cfg', ['-V', '800000'], ['AcceleratingVoltage=900000', 'alpha0=0.005']),
             ('cfg', ['--verbose', 'true'], ['verbose=false', 'UseCSR=false', 'HaissinskiIterations=12']),
             ('nocfg', ['--GridSize', '64', '--rotations', '2.5'], []),
             ('cfg', [], []), ('nocfg', [], []), ('missing', ['--GridSize', '64'], [])]
    for scen, cmd, cfg in cases:
        nat = native_parse(bld, scen, cmd, cfg)
        bld_, mod, snap, R, reg, ex, st, W = setup(scen, 'none')
        exp, assume = expected(reg, W, scen, R, ex, st)
        fix = []; short = {}
        for n, o in reg['cmdline'].items():
            pass
        import re as _re
        def given(kind, toks):
            out = {}
            if kind == 'cmd':
                i = 0
                while i < len(toks):
                    k = toks[i].lstrip('-'); out[k] = toks[i + 1]; i += 2
            else:
                for t in toks: k, v = t.split('=', 1); out[k] = v
            return out
        SHORT = {'N': 'StepsPerTs', 'V': 'AcceleratingVoltage', 's': 'GridSize', 'f': 'SynchrotronFrequency'}
        gv = {'cmd': {SHORT.get(k, k): v for k, v in given('cmd', cmd).items()}, 'cfg': given('cfg', cfg)}
        for kind, g in (('cmd', 'cmdline'), ('cfg', 'cfgfile')):
            for n, o in reg[g].items():
                if o.ty not in SCALAR: continue
                if n in gv[kind]:
                    t = gv[kind][n]; fix.append(W.given[kind][n])
                    if o.ty in ('f32', 'f64'): fix.append(W.val[kind][n] == z3.RealVal(str(Fraction(f32(float(t)) if o.ty == 'f32' else float(t)))))
                    elif o.ty == 'b': fix.append(W.val[kind][n] == (1 if t == 'true' else 0))
                    else: fix.append(W.val[kind][n] == int(t))
                else: fix.append(z3.Not(W.given[kind][n]))
        st.pc = list(W.assume) + fix
        argc = 3 if scen in ('cfg', 'missing') else 1
        outs = [s for s in ex.run_all(st, 'e_parse', [R['opts'], argc, R['argv']]) if not hasattr(s, 'error')]
        account(res, ex, mod, outs)
        # the path whose fresh "open failed" booleans are all false is the native one
        sel = []
        for s in outs:
            sol = z3.Solver(); sol.add(*s.pc)
            for e in s.events:
                if e[0] == '!ifs': sol.add(z3.Not(e[1]))
            if sol.check() == z3.sat: sel.append((s, sol.model()))
        if len(sel) != 1: raise Unsupported('calibration: %d model paths match the concrete scenario %r' % (len(sel), (scen, cmd, cfg)))
        s, m = sel[0]
        ret = s.retval if isinstance(s.retval, int) else None
        bad = []
        if ret != nat['ret']: bad.append('return value model %r native %r' % (ret, nat['ret']))
        if nat['ret'] == 1:
            for n, (o, e) in exp.items():
                got = ex.load(s, o.store_to, FloatTy(8 * SZ[o.ty]) if o.ty in ('f32', 'f64') else IntTy(8 * SZ[o.ty]))
                got = ex.dom.z(got) if o.ty in ('f32', 'f64') else (z3.BitVecVal(got, 8 * SZ[o.ty]) if isinstance(got, int) else got)
                mv = mval(m, got); nv = bits_to_num(o.ty, nat['var'][n][1])
                if o.ty in ('i32', 'i64') and isinstance(mv, int): mv = sgn(mv, 8 * SZ[o.ty])
                if float(mv) != float(nv): bad.append('%s: model %r native %r' % (n, mv, nv))
        if bad: raise RuntimeError('the store/notify model disagrees with boost on %r: %s' % ((scen, cmd, cfg), '; '.join(bad[:4])))
        res.validated += 1
    res.obs.append(Ob('the store/notify model and the native boost::program_options agree on %d concrete command line / config file scenarios (every bound variable, return value)' % len(cases), 'holds', kind='witness' if False else 'property', key='calibration'))

def job_main_exit(res):
    """main()'s handling of what parse() says: under-constrained run of main's real IR from its entry; parse() is an event that returns false / returns true / throws an exception derived from std::exception"""
    import mainloop
    bld = mainloop.main_build(); mod = load_module(bld, ['main'])
    res.funcs['main'] = fn_lines(mod, 'main')
    def run(behaviour):
        def h_parse(ex, st, fr, a, ins):
            st.events.append(('parse', behaviour))
            if behaviour == 'throws':
                obj = ex.malloc(st, 64); vt = ex.malloc(st, 64); ex.store(st, obj, I64, vt); raise CxxThrow(obj, '_ZTISt11logic_error')      # boost::program_options::error derives from std::logic_error
            return 1 if behaviour == 'true' else 0
        def h_go(ex, st, fr, a, ins): raise PathEnd('continues past option parsing')
        def h_typeid(ex, st, fr, a, ins):
            n = ex.tinfo_name(a[0]); return ex.typeid_for(n) if n else 0
        ex, paths, dm = mainloop.uc_run(mod, 'main', [z3.BitVec('argc', 32), mainloop.OPtr('argv')], overrides={'vfps::ProgramOptions::parse(': h_parse, 'vfps::ProgramOptions::getOutFile': h_go, '__cxa_begin_catch': ext_cxa_begin_catch, 'llvm.eh.typeid.for': h_typeid})
        res.paths += len(paths); res.instrs += sum(p.nins for p in paths)
        return ex, paths, dm
    for beh, want in (('false', 'returns 0 (nothing is simulated)'), ('throws', 'prints to std::cerr and returns a failure status'), ('true', 'goes on to the simulation set-up')):
        ex, paths, dm = run(beh)
        bad = [p for p in paths if p.kind == 'error']
        if bad: raise Unsupported('main entry, parse %s: %s' % (beh, bad[0].why))
        hit = [p for p in paths if any(e[0] == 'parse' for e in p.events)]
        if not hit: raise Unsupported('main entry: no path reaches ProgramOptions::parse')
        ok = True; detail = ''
        for p in hit:
            after = p.events[[i for i, e in enumerate(p.events) if e[0] == 'parse'][0] + 1:]
            names = [dm.get(e[0], str(e[0])) for e in after]
            if beh == 'false':
                good = p.kind == 'done' and isinstance(p.retval, int) and p.retval == 0 and not any(('PhaseSpace' in n or 'HDF5File' in n or 'SourceMap' in n or 'ElectricField' in n) for n in names)
            elif beh == 'throws':
                printed = any('basic_ostream' in n or 'ostream' in n for n in names)
                good = p.kind == 'done' and isinstance(p.retval, int) and p.retval != 0 and printed
            else:
                good = p.kind == 'ended' and 'continues' in p.why
            if not good: ok = False; detail = '%s ret=%r %s events after parse: %s' % (p.kind, getattr(p, 'retval', None), getattr(p, 'why', ''), names[:6])
        res.obs.append(Ob('main(): when ProgramOptions::parse %s, main %s (%d paths from main\'s entry)' % ({'false': 'returns false', 'throws': 'throws (unknown option, malformed value)', 'true': 'returns true'}[beh], want, len(hit)),
                          'holds' if ok else 'violated', key='main-exit-' + beh, detail=detail))
    witness(res, 'main entry explored', [], z3.BoolVal(True))

def replayer(bld):
    bld = parse_build()
    def rp(path, c):
        if c.get('replay') == 'parse-compat':
            nat = native_parse(bld, 'cfg', [], ['%s=%s' % (c['option'], c['value'])])
            return (nat['threw'] != 0 or nat['ret'] != 1, 'native parse() of a config file with the line "%s=%s": %s' % (c['option'], c['value'], 'threw (%s)' % nat.get('what', '') if nat['threw'] else 'returned %d' % nat['ret']))
        if c.get('replay') == 'parse-char':
            n = c['option']; nat = native_parse(bld, 'cfg', ['--' + n, '1'] if c['group'] == 'cmdline' else [], ['%s=1' % n] if c['group'] != 'cmdline' else [])
            ty, bits = nat['var'].get(n, ('?', '0')); got = int(bits, 16) if ty != '?' else None
            return (got != 1, 'native parse() of "%s 1": the bound variable holds %s' % (n, got))
        if c.get('replay') != 'parse-error':
            bld_, mod, snap, R, reg, ex, st, W = setup(c['scen'], 'none')
            nat = native_parse(bld, c['scen'], c.get('cmd', []), c.get('cfg', []))
        if c.get('replay') == 'parse-error':
            sc = c['scen']
            nat = native_parse(bld, 'cfg' if sc == 'cfgerror' else 'nocfg', ['--NoSuchOption', '1'] if sc == 'cmderror' else [], ['NoSuchOption=1'] if sc == 'cfgerror' else [])
            return (nat['threw'] == 0, 'native parse() with an unknown option %s: threw %d, returned %d' % ('in the config file' if sc == 'cfgerror' else 'on the command line', nat['threw'], nat['ret']))
        if c.get('replay') == 'parse-char':
            n = c['option']; nat = native_parse(bld, 'cfg', ['--' + n, '1'] if c['group'] == 'cmdline' else [], ['%s=1' % n] if c['group'] != 'cmdline' else [])
            ty, bits = nat['var'].get(n, ('?', '0')); got = int(bits, 16) if ty != '?' else None
            return (got != 1, 'native parse() of "%s 1": the bound variable holds %s' % (n, got))
        if 'expect_ret' in c: return (nat['ret'] != c['expect_ret'], 'native parse() returned %d (threw %d)' % (nat['ret'], nat['threw']))
        n = c['option']; al = alias_groups(reg)
        o = dict(reg['cfgfile'], **reg['cmdline'])[n]
        cmdv = {}; cur = None
        for t in c['cmd']:
            if t.startswith('--'): cur = t[2:]
            elif cur is not None and cur not in cmdv: cmdv[cur] = t
        cfgv = dict(t.split('=', 1) for t in c['cfg'])
        src = 'default'; want = None
        if n in cmdv: want = cmdv[n]; src = 'command line'
        else:
            for k in [n] + al.get(n, []):
                if k in cfgv: want = cfgv[k]; src = 'config file (%s)' % k
        if nat['threw'] or nat['ret'] != 1: return (False, 'native parse() did not accept the scenario (ret %d, threw %d %s)' % (nat['ret'], nat['threw'], nat.get('what', '')))
        ty, bits = nat['var'][n]
        if ty == 'vf32':
            got = [struct.unpack('<f', struct.pack('<I', int(x, 16)))[0] for x in bits[1:].split(',') if x]
            wantv = [0.5, 0.25] if n in cmdv or any(t == '--' + n for t in c['cmd']) else [0.125, 0.0625]
            return (got != wantv, 'native effective value of %s is %s, the %s gives %s' % (n, got, 'command line' if wantv[0] == 0.5 else 'config file', wantv))
        if ty == 'str':
            got = bytes.fromhex(bits[1:]).decode();
            if want is None: return (False, 'string default case is not replayed')
            if want == '/dev/null' and n in ('InitialDistFile', 'output'): want = ''
            return (got != want, 'native effective value of %s is %r, the %s gives %r' % (n, got, src, want))
        got = bits_to_num(ty, bits)
        if want is None:
            vis = reg['visible'].get(n) or o
            if not vis.has_default: return (False, 'no documented default to compare with')
            wantv = bits_to_num(o.ty, vis.dflt)
        else: wantv = (1 if want == 'true' else 0) if o.ty == 'b' else float(want)
        return (float(got) != float(wantv), 'native effective value of %s is %r, the %s gives %r  [cmd: %s | cfg: %s]' % (n, got, src, wantv, ' '.join(c['cmd']), ' '.join(c['cfg'])))
    return rp
def get_replayer(): return replayer(None)

def main(tier):
    chk = Check('C20', tier, '4/C20')
    jobs = [(job_registry, ()), (job_calibrate, ()), (job_main_exit, ())]
    for scen in ('cfg', 'nocfg'):
        for sm in (('none', 'cmd', 'cfg', 'both', 'cmd-null', 'cfg-null') if scen == 'cfg' else ('none', 'cmd', 'cmd-null')): jobs.append((job_parse, (scen, sm)))
    jobs.append((job_parse, ('missing', 'none'))); jobs.append((job_parse, ('cfgerror', 'none'))); jobs.append((job_parse, ('cmderror', 'none')))
    for f in ('help', 'version', 'copyright', 'buildinfo'): jobs.append((job_parse, ('flag:' + f, 'none')))
    chk.bounds = {'options': 'every scalar option of the registry symbolic at once: given / not given on the command line and in the config file (Bool each), values arbitrary (one symbol per source)',
                  'string_and_vector_options': 'given nowhere / command line / config file / both, with fixed distinct values', 'config_file': 'existing regular file / none / missing / cannot be opened'}
    chk.assumptions = ['boost::program_options is modelled by its documented contract: store() keeps the first explicitly stored value of an option, replaces defaulted ones, then adds the defaults of the parsed group; notify() writes every present entry to its bound variable in key order of the map; the parsers refuse names that are not in the group they are given (allow_unregistered=false, checked) - the model is compared with the native library on concrete scenarios in every run',
                       'tokenising, lexical_cast of values, short-option spelling and error message texts are boost\'s and not decided here', 'one quantity given under its legacy and its current name in the same file is outside the statement',
                       'main()\'s handling of the exception (exit status) is decided by a separate obligation']
    chk.stubs = ['boost::program_options::store / notify / parse_command_line / parse_config_file / variables_map lookups / boost::any assignment: contract model', 'boost::filesystem::exists / is_regular_file: scenario', 'std::ifstream open result: fresh boolean', 'ostream inserters: events']
    chk.replayer = replayer(None)
    chk.add(run_jobs(jobs, budget=600))
    chk.finish()

if __name__ == '__main__':
    main(sys.argv[1] if len(sys.argv) > 1 else 'quick')
