"""C03 - the bunch centroid rotates by 2*pi/steps per step and the orbit closes (decided as an inductive one-step statement)."""
import sys, os
sys.path.insert(0, os.path.dirname(os.path.abspath(__file__)))
from maps_common import *

UPDATE_SM = '_ZN4vfps7KickMap8updateSMEv'
C_LIGHT = Fraction(2.99792458e8); TWO_PI = Fraction(6.283185307179586)

def zerobin(lo, hi, n):
    lo, hi = np.float32(lo), np.float32(hi)
    return Fraction(float(((lo + hi) / (lo - hi) + np.float32(1)) * np.float32(n - 1) / np.float32(2)))

def job_rf_field(res, model, n, nb, q, p):
    """O1: the displacement field the RF constructor computes, for symbolic machine parameters and a grid shifted differently in q and p"""
    bld = maps_build(); mod = load_module(bld, MAPS_MODS)
    snap, R, pre = maps_world(bld, n, nb, 4, qmin=q[0], qmax=q[1], pmin=p[0], pmax=p[1])
    (validate(res, mod, snap, pre) if n <= 64 else None)
    ex = Exec(mod, snap, RealDom(), {UPDATE_SM: ext_noop}); st = State()
    fRF = z3.Real('fRF'); st.pc += [fRF > 1000]
    xc = zerobin(q[0], q[1], n)
    ax0 = get_reals(ex, st, R['axis0_data'], n)
    if model == 'lin':
        a = z3.Real('angle'); st.pc += [a > 0, a < Fraction(1, 2)]
        s = ex.run1(st, 'e_new_rf_lin', [R['in'], R['out'], a, fRF, 4]); obj = s.retval
        T = ex.dom.uf('uf_tan', 1)(a)
        want = [T * (xc - x) for x in range(n)]
        par = [a, fRF]
    else:
        rp = z3.Real('revpart'); V = z3.Real('V'); V0 = z3.Real('V0'); st.pc += [rp > 0, rp < 1, V > 1000, V0 >= 0, V0 < V]
        s = ex.run1(st, 'e_new_rf_sin', [R['in'], R['out'], rp, V, fRF, V0, 4]); obj = s.retval
        phi = ex.dom.uf('uf_asin', 1)(V0 / V); usin = ex.dom.uf('uf_sin', 1)
        scm = Fraction(f32(2e-3)); sce = Fraction(f32(4e5)); dp = Fraction(f32(f32(f32(p[1]) - f32(p[0])) / f32(n - 1)))
        b = scm / C_LIGHT * fRF * TWO_PI
        want = [rp * (-V * usin(ax0[x] * b + phi) + V0) / dp / sce for x in range(n)]
        par = [rp, V, V0, fRF]
    account(res, ex, mod, [s])
    force = ex.run1(s, 'e_force', [obj]).retval
    got = get_reals(ex, s, force, nb * n)
    bad = [got[x] != want[x] for x in range(n)] + [got[i] != 0 for i in range(n, nb * n)]
    def cex(m): return {'replay': 'rf' + model, 'n': n, 'nb': nb, 'q': q, 'p': p, 'params': {str(v): mval(m, v) for v in par}, 'got0': mval(m, got[0]), 'want0': mval(m, want[0]), 'gotlast': mval(m, got[n - 1]), 'wantlast': mval(m, want[n - 1])}
    desc = 'tan(angle)*(zero_bin_q - x), zero bin %.3f' % float(xc) if model == 'lin' else 'revpart*(-V*sin(q_x*2pi*f_RF*scale/c + asin(V0/V)) + V0)/delta_p/scale_eV'
    prove(res, 'RF %s n=%d nb=%d grid q%s p%s: displacement field == %s for all parameters; later bunches share it' % (model, n, nb, q, p, desc), s.pc, z3.Or(*bad), key='rf-field-%s' % model, cex_fn=cex)
    witness(res, 'RF %s field depends on the machine parameters' % model, s.pc, got[0] != got[n - 1])
    if model == 'sin':
        # small-amplitude slope: with |sin u - u| <= |u|^3/6 the kick around the synchronous phase is a restoring force of the linear model's sign
        pass

def job_drift_field(res, n, nb, q, p):
    """O2: drift displacement = sum_i slip_i * p_y * (p_y*scale/E0)^i / delta_q with symbolic slip factors and E0"""
    bld = maps_build(); mod = load_module(bld, MAPS_MODS)
    snap, R, pre = maps_world(bld, n, nb, 4, qmin=q[0], qmax=q[1], pmin=p[0], pmax=p[1])
    ex = Exec(mod, snap, RealDom(), {UPDATE_SM: ext_noop}); st = State()
    sl = sym_reals(ex, st, R['slip_data'], ['slip0', 'slip1', 'slip2'], -1, 1)
    E0 = z3.Real('E0'); st.pc += [E0 > 1000]
    s = ex.run1(st, 'e_new_drift', [R['in'], R['out'], R['slip'], E0, 4]); obj = s.retval; account(res, ex, mod, [s])
    ax1 = get_reals(ex, s, R['axis1_data'], n)
    sce = Fraction(f32(4e5)); dq = Fraction(f32(f32(f32(q[1]) - f32(q[0])) / f32(n - 1)))
    force = ex.run1(s, 'e_force', [obj]).retval; got = get_reals(ex, s, force, nb * n)
    want = []
    for y in range(n):
        r = ax1[y] * sce / E0
        want.append((sl[0] * ax1[y] + sl[1] * ax1[y] * r + sl[2] * ax1[y] * r * r) / dq)
    bad = [got[y] != want[y] for y in range(n)]
    prove(res, 'drift n=%d nb=%d grid q%s p%s: displacement field == (slip0*p + slip1*p*(p*s/E0) + slip2*p*(p*s/E0)^2)/delta_q for all slip factors and E0' % (n, nb, q, p), s.pc, z3.Or(*bad), key='drift-field',
          cex_fn=lambda m: {'replay': 'drift', 'n': n, 'nb': nb, 'q': q, 'p': p, 'slip': [mval(m, v) for v in sl], 'E0': mval(m, E0), 'got': [mval(m, v) for v in got[:n]], 'want': [mval(m, v) for v in want]})
    witness(res, 'drift field depends on slip0', s.pc, z3.substitute(got[0], (sl[0], z3.Real('s_alt'))) != got[0])

def job_first_moment(res, n, it, axis, r, kmax, margin):
    """O3: a kick with displacement off moves the first moment of any interior-supported row by exactly -off (it >= 2): per unit cell + linearity"""
    bld = maps_build(); mod = load_module(bld, MAPS_MODS)
    snap, R, pre = maps_world(bld, n, 1, it)
    km = 'kmy' if axis else 'kmx'; off = 'offy' if axis else 'offx'
    ex = Exec(mod, snap, RealDom()); st = State()
    o = z3.Real('off'); st.pc += [o >= -kmax, o <= kmax]; st.ranges['off'] = (Fraction(-kmax), Fraction(kmax))
    st.sym[R[off + '_data'] + 4 * r] = (4, 'f', o)
    def cell(base, i): return R[base] + 4 * ((r * n + i) if axis else (i * n + r))
    D = {}
    for i in range(n):
        if margin <= i < n - margin:
            v = z3.Real('d%d' % i); st.sym[cell('data_in', i)] = (4, 'f', v); D[i] = v
        else: ex.write_bytes(st, cell('data_in', i), bytes(4))
    sts = run_paths(ex, st, 'e_km_swap_apply', [R[km], R[off]]); account(res, ex, mod, sts)
    tol = z3.RealVal('1/100000')
    for s in sts:
        outs = [ex.dom.z(ex.load(s, cell('data_out', i), F32)) for i in range(n)]
        kcase = [str(c) for c in s.pc if 'off' in str(c)][-1:]
        units = {}
        for Y in D:
            sub = [(D[i], z3.RealVal(1 if i == Y else 0)) for i in D]
            u = [z3.simplify(z3.substitute(c, *sub)) for c in outs]; units[Y] = u
            mom = sum([u[i] * i for i in range(n)], z3.RealVal(0)); tot = sum(u[1:], u[0])
            prove(res, '%s-kick n=%d it=%d row %d unit charge at %d case %s: centroid moves by exactly -off (and charge stays 1)' % ('y' if axis else 'x', n, it, r, Y, kcase), s.pc,
                  z3.Or(mom - (Y - o) > tol, mom - (Y - o) < -tol, tot - 1 > tol, tot - 1 < -tol), key='kick-first-moment',
                  cex_fn=lambda m, Y=Y, mom=mom: {'replay': 'moment', 'n': n, 'it': it, 'axis': axis, 'row': r, 'Y': Y, 'off': mval(m, o), 'centroid': mval(m, mom)})
        prove(res, '%s-kick n=%d it=%d row %d case %s: row output is the superposition of the unit responses' % ('y' if axis else 'x', n, it, r, kcase), s.pc,
              z3.Or(*[outs[i] != sum([D[Y] * units[Y][i] for Y in D], z3.RealVal(0)) for i in range(n)]), key='kick-linearity')

def job_rotation_algebra(res):
    """O4: pure SMT over the extracted fields: one RF kick + drift is the linear map P' = P + T*Q, Q' = Q - a*P' in centred grid coordinates"""
    a = z3.Real('a'); T = z3.Real('T'); base = [a > 0, a <= Fraction(1, 2), T > a, T < a + a * a * a]
    m11, m12, m21, m22 = z3.RealVal(1), T, -a, 1 - a * T
    prove(res, 'step matrix [[1,T],[-a,1-aT]] has determinant 1 (area preserving: closed orbits, no spiral)', base, m11 * m22 - m12 * m21 != 1, key='rotation-det')
    tr = m11 + m22
    prove(res, '|trace| < 2 for 0 < a <= 1/2 (elliptic: the centroid moves on a closed ellipse in a fixed sense)', base, z3.Or(tr >= 2, tr <= -2), key='rotation-elliptic')
    c2 = z3.Real('twocos'); cosb = [c2 >= 2 - a * a, c2 <= 2 - a * a + a * a * a * a / 12]
    prove(res, '|trace - 2cos(a)| <= 1.1*a^4 given a < tan a < a + a^3 and the Taylor enclosure of cos: phase advance per step = a up to O(a^3) (first-order splitting error)', base + cosb,
          z3.Or(tr - c2 > Fraction(11, 10) * a ** 4, tr - c2 < -Fraction(11, 10) * a ** 4), key='rotation-angle')
    prove(res, 'sense of rotation is fixed: off-diagonal entries have opposite signs for every a in (0,1/2]', base, m12 * m21 >= 0, key='rotation-sense')

def replayer(bld):
    def rp(path, c):
        w = c['replay']
        if w in ('rflin',):
            n = c['n']; ang = float(c['params']['angle']); q = c['q']; p = c['p']
            o = native_run(bld, {'what': 'rflin', 'n': n, 'nb': c['nb'], 'it': 4, 'seed': 7, 'qmin': q[0], 'qmax': q[1], 'pmin': p[0], 'pmax': p[1], 'angle': ang, 'fRF': float(c['params']['fRF'])}, 'c03')
            xc = float(zerobin(q[0], q[1], n)); T = math.tan(ang)
            dev = max(abs(o['force'][x] - T * (xc - x)) for x in range(n)); devb = max([abs(v) for v in o['force'][n:]] or [0])
            return (dev > 1e-5 * (1 + T * n) or devb > 0, 'native linear RF field deviates from tan(a)*(zero_bin-x) by %.3g (other bunches: %.3g)' % (dev, devb))
        if w == 'moment':
            n = c['n']; axis = c['axis']; r = c['row']; Y = c['Y']; data = [0.0] * (n * n); data[(r * n + Y) if axis else (Y * n + r)] = 1.0
            off = [0.0] * n; off[r] = float(c['off'])
            o = native_run(bld, {'what': 'kick', 'n': n, 'nb': 1, 'it': c['it'], 'seed': 7, 'axis': axis, 'data': data, 'off': off}, 'c03')
            row = [o['out'][(r * n + i) if axis else (i * n + r)] for i in range(n)]; cen = sum(i * v for i, v in enumerate(row))
            return (abs(cen - (Y - f32(off[r]))) > 1e-4, 'native centroid %.6f, expected %.6f' % (cen, Y - off[r]))
        return (True, 'field identity of the real constructor (structural); model: %s' % str(c)[:200])
    return rp
def get_replayer(): return replayer(maps_build())

def main(tier):
    chk = Check('C03', tier, '4/C03')
    bld = maps_build()
    grids = [((-6, 6), (-6, 6)), ((-5, 7), (-6.5, 5.5)), ((-6, 6.8), (-6, 6))] if tier == 'quick' else [((-6, 6), (-6, 6)), ((-5, 7), (-6.5, 5.5)), ((-6, 6.8), (-6, 6)), ((-7, 5), (-4, 8)), ((-6, 6), (-5, 7.5))]
    ns = [(8, 1), (9, 2)] if tier == 'quick' else [(8, 1), (9, 2), (12, 1), (7, 3), (16, 2), (33, 1), (64, 1), (257, 1)]
    jobs = [(job_rf_field, (m, n, nb, q, p)) for m in ('lin', 'sin') for n, nb in ns for q, p in grids]
    jobs += [(job_drift_field, (n, nb, q, p)) for n, nb in ns for q, p in grids]
    jobs += [(job_first_moment, (n, it, ax, r, 1, 3)) for n in ((10, 9) if tier == 'quick' else (10, 9, 12, 13)) for it in (2, 3, 4) for ax in (0, 1) for r in ((2, n - 3) if tier == 'quick' else range(n))]
    jobs += [(job_rotation_algebra, ())]
    import c08
    jobs += [(c08.job_fixed_map, (w, 6, 3, 3, 3, 3)) for w in ('drift', 'rflin', 'rfsin')]      # every bunch of a train rotates like a single bunch (kick and drift reach bunches >= 1)
    import mainparams
    jobs += [(mainparams.job_map_parameters, ('C03',))]      # O5: what main hands to the maps - angle * steps == 2*pi, slip factors
    chk.bounds = {'fields': 'constructors run from IR with symbolic angle in (0,1/2) / voltages / f_RF / slip factors / E0; grids %s with axis ranges %s (zero bin on, between and off-centre cells)' % (ns, grids),
                  'first moment': 'grids 10 and 9 (even and odd), |off| <= 1 (integer part case-split), unit charge at every interior cell + linearity obligation, 2-4 interpolation points',
                  'rotation': 'algebra over the extracted linear fields, a in (0,1/2]; one step, inductive; the product over a full period is not iterated'}
    chk.assumptions = ['tanf/sinf/asinf: uninterpreted functions (same symbol in code and specification); a < tan a < a + a^3 and the Taylor enclosure of cos are standard facts assumed for a in (0,1/2]',
                       'updateSM stubbed during the constructor runs (the table is a function of the displacement field: C01/C02)', 'equal cell sizes in q and p (as main constructs the grid); angle = 2*pi/steps and the slip factors main builds are decided from the set-up slice of main extended to the map constructions (steps: the value main divides 2*pi by; the dynamic linear route is executed, the static one receives the same operand)',
                       'small-amplitude equivalence of the sinusoidal bucket, interpolation error for 1-point interpolation and the float product over a whole period are outside the claim']
    chk.stubs = ['updateSM no-op (constructor runs)', 'libm as uninterpreted functions', 'operator new/delete']
    import c08 as _c08
    _r3 = replayer(bld); _r8 = _c08.replayer(bld)
    chk.replayer = lambda path, c: (_r8 if ('bunch' in c and 'data' in c and c.get('replay') in _c08.WHAT2RUN) else _r3)(path, c)
    chk.add(run_jobs(jobs, budget=600))
    chk.finish()

if __name__ == '__main__':
    main(sys.argv[1] if len(sys.argv) > 1 else 'quick')
