"""C19 - zero-amplitude RF modulation is the static RF; applied modulation is recorded (queue discipline)."""
import sys, os
sys.path.insert(0, os.path.dirname(os.path.abspath(__file__)))
from maps_common import *

NORMAL_PFX = '_ZNSt19normal_distributionIfEclI'
UPDATE_SM = '_ZN4vfps7KickMap8updateSMEv'
KICK_APPLY = '_ZN4vfps7KickMap5applyEv'
F64 = FloatTy(64)
FIELDS = [('linear', 'i8'), ('angle', 'f'), ('revpart', 'f'), ('VRF', 'f'), ('fRF', 'f'), ('V0', 'f'), ('syncphase', 'f'), ('bl2phase', 'f')]

def normal_real(draws):
    def model(ex, st, fr, args, ins):
        par = args[2]; mu = ex.load(st, par, F32); sd = ex.load(st, par + 4, F32)
        xi = z3.Real('xi%d' % len(draws)); draws.append(xi)
        return ex.dom.bin('fadd', mu, ex.dom.bin('fmul', sd, xi, 32), 32)
    return model

def normal_conc(seq=(0.31, -1.27, 0.05, 2.2, -0.6, 0.9)):
    k = [0]
    def model(ex, st, fr, args, ins):
        k[0] += 1; return np.float32(seq[k[0] % len(seq)])
    return model

def normal_fp(draws, pcs):
    def model(ex, st, fr, args, ins):
        xi = z3.FP('xi%d' % len(draws), z3.Float32()); draws.append(xi)
        st.pc += [z3.Not(z3.fpIsNaN(xi)), z3.Not(z3.fpIsInf(xi))]
        return xi     # N(0,1): mean 0, sigma 1 -> the draw itself (an arbitrary finite float)
    return model

def read_fields(ex, st, obj, R):
    out = {}
    for name, k in FIELDS:
        a = obj + int(R['off_' + name])
        out[name] = ex.load(st, a, IntTy(8)) if k == 'i8' else ex.load(st, a, F32)
    return out

def tz(ex, v): return v if isinstance(v, int) else ex.dom.z(v)

def job_ctor_equiv(res, model, n, nb, it):
    """A3: members and displacement field of the dynamic map (all amplitudes zero) == those of the static map, for symbolic machine parameters"""
    bld = maps_build(); mod = load_module(bld, MAPS_MODS)
    snap, R, pre = maps_world(bld, n, nb, it)
    validate(res, mod, snap, pre)
    draws = []
    ex = Exec(mod, snap, RealDom(), {UPDATE_SM: ext_noop}); ex.ext_prefix.append((NORMAL_PFX, normal_real(draws)))
    st = State(); pc = []
    fRF = z3.Real('fRF'); rev = z3.Real('revpart'); inc = z3.Real('modtimeinc'); pc += [fRF > 1000, rev > 0, rev < 1, inc >= 0]
    if model == 'lin':
        ang = z3.Real('angle'); pc += [ang > 0, ang < Fraction(1, 2)]
        st.pc = list(pc); s1 = ex.run1(st, 'e_new_rf_lin', [R['in'], R['out'], ang, fRF, it]); stat = s1.retval
        dyn_paths = run_paths(ex, s1, 'e_new_drf_lin', [R['in'], R['out'], ang, rev, fRF, Fraction(0), Fraction(0), Fraction(0), inc, 3, it])
    else:
        V = z3.Real('V'); V0 = z3.Real('V0'); pc += [V > 1000, V0 >= 0, V0 < V]
        st.pc = list(pc); s1 = ex.run1(st, 'e_new_rf_sin', [R['in'], R['out'], rev, V, fRF, V0, it]); stat = s1.retval
        dyn_paths = run_paths(ex, s1, 'e_new_drf_sin', [R['in'], R['out'], rev, V, fRF, V0, Fraction(0), Fraction(0), Fraction(0), inc, 3, it])
    for s2 in dyn_paths:      # (a constructor that decides on its arguments forks: every path meets the obligations)
      dyn = s2.retval
      account(res, ex, mod, [s2])
      fs = read_fields(ex, s2, stat, R); fd = read_fields(ex, s2, dyn, R)
      diffs = []
      for name, k in FIELDS:
          a, b = fs[name], fd[name]
          if isinstance(a, int) and isinstance(b, int):
              if a != b: diffs.append(z3.BoolVal(True))
          else: diffs.append(tz(ex, a) != tz(ex, b))
      def cex(m): return {'replay': 'ctor', 'model': model, 'n': n, 'nb': nb, 'it': it, 'static': {k: str(v)[:60] for k, v in fs.items()}, 'dynamic': {k: str(v)[:60] for k, v in fd.items()},
                          'params': {str(d): mval(m, d) for d in ([fRF, rev] + ([ang] if model == 'lin' else [V, V0]))}}
      prove(res, 'dynamic %s RF map with zero noise/modulation: members (_linear,_angle,_revolutionpart,_V_RF,_f_RF,_V0,_syncphase,_bl2phase) equal the static map\'s for all parameters' % model,
            s2.pc, z3.Or(*diffs) if diffs else z3.BoolVal(False), key='dynamic-ctor-members-%s' % model, cex_fn=cex)
      fo_s = ex.run1(s2, 'e_force', [stat]).retval; fo_d = ex.run1(s2, 'e_force', [dyn]).retval
      os_ = get_reals(ex, s2, fo_s, nb * n); od = get_reals(ex, s2, fo_d, nb * n)
      prove(res, 'dynamic %s RF map with zero noise/modulation: displacement field after construction equals the static map\'s (all %d entries, all parameters)' % (model, nb * n),
            s2.pc, z3.Or(*[a != b for a, b in zip(os_, od)]), key='dynamic-ctor-field-%s' % model, cex_fn=cex)
      lb_s = ex.load(s2, stat + int(R['off_lastbunch']), IntTy(32)); lb_d = ex.load(s2, dyn + int(R['off_lastbunch']), IntTy(32))
      res.obs.append(Ob('dynamic %s RF map shares bunch maps like the static one (_lastbunch %s vs %s)' % (model, lb_d, lb_s), 'holds' if lb_s == lb_d else 'violated', key='dynamic-ctor-lastbunch'))
      # modulation frequency: _modtimedelta == 2*pi*modtimeincrement
      mtd = ex.dom.z(ex.load(s2, dyn + int(R['off_modtimedelta']), F32)); twopi = Fraction(6.283185307179586)
      prove(res, 'dynamic %s RF map: modulation phase advance per step == 2*pi*modtimeincrement' % model, s2.pc, z3.Or(mtd - twopi * inc > Fraction(1, 10**9) * inc, mtd - twopi * inc < -Fraction(1, 10**9) * inc), key='dynamic-modtimedelta')
      witness(res, 'static %s field depends on the machine parameters' % model, s2.pc, os_[0] != os_[n - 1])

def job_zero_amplitude_queue(res, model, n, it):
    """A1: with all amplitudes zero every precomputed (phase, amplitude) entry is bit-identical to (syncphase, 1) for every finite noise draw (z3 IEEE theory)"""
    bld = maps_build(); mod = load_module(bld, MAPS_MODS)
    snap, R, pre = maps_world(bld, n, 1, it)
    ex = Exec(mod, snap, ConcreteDom()); st = State(); ex.ext_prefix.append((NORMAL_PFX, normal_conc()))
    if model == 'lin': st = ex.run1(st, 'e_new_drf_lin', [R['in'], R['out'], np.float32(0.1), np.float64(1e-3), np.float64(5e8), np.float32(0), np.float32(0), np.float32(0), np.float64(0.01), 2, it])
    else: st = ex.run1(st, 'e_new_drf_sin', [R['in'], R['out'], np.float64(1e-3), np.float64(1.4e6), np.float64(5e8), np.float64(4.5e4), np.float32(0), np.float32(0), np.float32(0), np.float64(0.01), 2, it])
    dyn = st.retval
    sync = ex.load(st, dyn + int(R['off_syncphase']), F32)
    draws = []; ex.dom = FPDom(); ex.ext_prefix.insert(0, (NORMAL_PFX, normal_fp(draws, None)))
    s = ex.run1(st, 'e_drf_calcmod', [dyn, 4]); q = s.retval
    fp = ex.run1(s, 'e_queue_front', [q]).retval; account(res, ex, mod, [s])
    bad = []
    for i in range(4):
        ph = ex.load(s, fp + 8 * i, F32); am = ex.load(s, fp + 8 * i + 4, F32)
        for v, want in ((ph, sync), (am, np.float32(1))):
            wb = ex.dom.c.to_bits(want, 32)
            if ex.dom.is_conc(v): bad.append(z3.BoolVal(ex.dom.c.to_bits(v, 32) != wb))
            else: bad.append(z3.fpToIEEEBV(v) != z3.BitVecVal(wb, 32))
    prove(res, 'dynamic %s RF map, all amplitudes zero: 4 precomputed (phase, amplitude) entries are bit-identical to (syncphase=%r, 1) for every finite noise draw (%d draws)' % (model, float(sync), len(draws)),
          s.pc, z3.Or(*bad), key='zero-amplitude-queue', cex_fn=lambda m: {'replay': 'queue0', 'model': model, 'draws': [mval(m, d) for d in draws]}, timeout_ms=120000)
    witness(res, 'noise draws are consumed (2 per step)', [], z3.BoolVal(len(draws) == 8))

def job_end_to_end(res, model, n, nb, it, pset):
    """A2: concrete differential run from IR: static vs dynamic (zero amplitudes) construction + apply give bit-identical grids and tables"""
    bld = maps_build(); mod = load_module(bld, MAPS_MODS)
    snap, R, pre = maps_world(bld, n, nb, it)
    ex = Exec(mod, snap, ConcreteDom()); st = State(); ex.ext_prefix.append((NORMAL_PFX, normal_conc()))
    ang, rev, V, fRF, V0 = pset
    z = np.float32(0)
    if model == 'lin':
        st = ex.run1(st, 'e_new_rf_lin', [R['in'], R['out'], np.float32(ang), np.float32(fRF), it]); stat = st.retval
        st = ex.run1(st, 'e_new_drf_lin', [R['in'], R['out'], np.float32(ang), np.float64(rev), np.float64(fRF), z, z, z, np.float64(0.013), 3, it]); dyn = st.retval
    else:
        st = ex.run1(st, 'e_new_rf_sin', [R['in'], R['out'], np.float32(rev), np.float32(V), np.float32(fRF), np.float32(V0), it]); stat = st.retval
        st = ex.run1(st, 'e_new_drf_sin', [R['in'], R['out'], np.float64(rev), np.float64(V), np.float64(fRF), np.float64(V0), z, z, z, np.float64(0.013), 3, it]); dyn = st.retval
    outs = []
    for obj in (stat, dyn):
        for rep in range(2 if obj == dyn else 1):
            st = ex.run1(st, 'e_apply', [obj]); outs.append(ex.read_bytes(st, R['data_out'], 4 * nb * n * n))
    account(res, ex, mod, [st]); res.validated += 1
    ok = outs[0] == outs[1] == outs[2]
    nanfree = not any(math.isnan(x) for x in struct.unpack('<%df' % (nb * n * n), outs[1]))
    res.obs.append(Ob('%s RF n=%d nb=%d it=%d params %s: static apply == dynamic apply (twice) bit for bit, no NaN (run from IR, IEEE)' % (model, n, nb, it, pset), 'holds' if ok and nanfree else 'violated',
                      key='zero-amplitude-apply-%s' % model, cex=None if ok and nanfree else {'replay': 'e2e', 'model': model, 'n': n, 'nb': nb, 'it': it, 'pset': list(pset)}))

def job_queue(res, n, it, L, model='sin'):
    """B: one apply() consumes exactly the front entry, uses it for the kick, and appends it to the record; getPastModulation hands out everything once.
    Every path of every call is followed (a map that decides by comparing entries forks)."""
    bld = maps_build(); mod = load_module(bld, MAPS_MODS)
    snap, R, pre = maps_world(bld, n, 1, it)
    ex = Exec(mod, snap, RealDom(), {UPDATE_SM: ext_noop, KICK_APPLY: ext_noop})
    st = State(); drf = R['drfsin' if model == 'sin' else 'drflin']
    front = ex.run1(State(), 'e_drf_front', [drf]).retval
    ent = []
    for i in range(3):
        p = z3.Real('phase%d' % i); a = z3.Real('ampl%d' % i); ent.append((p, a))
        st.sym[front + 8 * i] = (4, 'f', p); st.sym[front + 8 * i + 4] = (4, 'f', a)
    force = ex.run1(State(), 'e_force', [drf]).retval
    fld = read_fields(ex, st, drf, R)
    ax0 = get_reals(ex, st, R['axis0_data'], n)
    usin = ex.dom.uf('uf_sin', 1)
    def step(states, k):
        out = []
        for s0 in states:
            for s1 in run_paths(ex, s0, 'e_apply', [drf]):
                p, a = ent[k]; consumed = ent[:k + 1]
                off = get_reals(ex, s1, force, n)
                if model == 'sin':
                    def core(x): return -a * ex.dom.z(fld['VRF']) * usin(ax0[x] * ex.dom.z(fld['bl2phase']) + p) + ex.dom.z(fld['V0'])
                else:
                    # linear model: off(phase, ampl) = ampl * (off(syncphase, 1) + (syncphase - phase) * G), G = off(syncphase - 1, 1) - off(syncphase, 1) (x-independent): the two reference
                    # fields are concrete runs of the same call at amplitude 1 (that off(syncphase, 1) is the static field tan(angle)*(zero_bin - x) is obligation A / C03)
                    sync = fld['syncphase']
                    def probe(ph):
                        sp = State(); sp.sym = dict(st.sym)
                        for j in range(3): sp.sym[front + 8 * j] = (4, 'f', ph); sp.sym[front + 8 * j + 4] = (4, 'f', Fraction(1))
                        return get_reals(ex, run_paths(ex, sp, 'e_apply', [drf])[0], force, n)
                    ref0 = probe(sync); ref1 = probe(sync - 1); G = ref1[0] - ref0[0]
                    def core(x): return a * (ref0[x] + (ex.dom.z(sync) - p) * G)
                bad = [off[x] * core(0) != off[0] * core(x) for x in range(1, n)] if model == 'sin' else [off[x] != core(x) for x in range(n)]
                prove(res, 'apply #%d (%s RF) kicks with the queue front (phase%d, ampl%d): displacement field is %s (path %s)' % (k + 1, model, k, k, 'proportional to -ampl*V*sin(q*bl2phase+phase)+V0' if model == 'sin' else 'ampl*(field(syncphase,1) + (syncphase-phase)*(field(syncphase-1,1)-field(syncphase,1)))', [str(c)[:40] for c in s1.pc[-1:]]), s1.pc, z3.Or(*bad), key='apply-uses-front')
                witness(res, 'apply #%d: displacement depends on phase%d and ampl%d' % (k + 1, k, k), s1.pc, z3.And(z3.substitute(off[1], (p, z3.Real('p_alt'))) != off[1], z3.substitute(off[1], (a, z3.Real('a_alt'))) != off[1]))
                nn = ex.run1(s1, 'e_drf_nnext', [drf]).retval; npast = ex.run1(s1, 'e_drf_npast', [drf]).retval
                okc = (nn == 3 - (k + 1) and npast == k + 1)
                pd = ex.run1(s1, 'e_drf_pastdata', [drf]).retval
                rec = get_reals(ex, s1, pd, 2 * (k + 1)) if npast == k + 1 else []
                want = [v for e in consumed for v in e]
                prove(res, 'after apply #%d: record holds exactly the %d consumed entries in order; queue length %d (got next=%s past=%s)' % (k + 1, k + 1, 3 - k - 1, nn, npast), s1.pc,
                      z3.Or(z3.BoolVal(not okc), *[x != y for x, y in zip(rec, want)]), key='queue-discipline')
                out.append(s1)
        return out
    states = [st]
    for k in range(L): states = step(states, k)
    consumed = ent[:L]
    for s1 in states:
        s2 = ex.run1(s1, 'e_drf_past', [drf]); vec = s2.retval
        vs = ex.run1(s2, 'e_vecsize', [vec]).retval; vd = ex.run1(s2, 'e_vecdata', [vec]).retval if vs else 0
        got = get_reals(ex, s2, vd, 2 * vs) if vs else []
        npast = ex.run1(s2, 'e_drf_npast', [drf]).retval
        want = [v for e in consumed for v in e]
        prove(res, 'getPastModulation after %d steps returns exactly those %d records in order and leaves the record empty (returned %s, left %s)' % (L, L, vs, npast), s2.pc,
              z3.Or(z3.BoolVal(vs != L or npast != 0), *[x != y for x, y in zip(got, want)]), key='flush-discipline')
        if L < 3:
            for s3 in run_paths(ex, s2, 'e_apply', [drf]):
                npast = ex.run1(s3, 'e_drf_npast', [drf]).retval; pd = ex.run1(s3, 'e_drf_pastdata', [drf]).retval
                rec = get_reals(ex, s3, pd, 2) if npast >= 1 else [z3.RealVal(0), z3.RealVal(0)]
                prove(res, 'the step after a flush records only its own entry (none lost, none duplicated across the flush)', s3.pc, z3.Or(z3.BoolVal(npast != 1), rec[0] != ent[L][0], rec[1] != ent[L][1]), key='flush-discipline')
    account(res, ex, mod, states)

def job_flush_history(res, n, it, model='sin'):
    """three steps, the record fetched after each one (an output block per step): every fetch returns exactly the one entry consumed since the previous fetch - nothing handed out earlier comes back"""
    bld = maps_build(); mod = load_module(bld, MAPS_MODS)
    snap, R, pre = maps_world(bld, n, 1, it)
    ex = Exec(mod, snap, RealDom(), {UPDATE_SM: ext_noop, KICK_APPLY: ext_noop})
    st = State(); drf = R['drfsin' if model == 'sin' else 'drflin']
    front = ex.run1(State(), 'e_drf_front', [drf]).retval
    ent = []
    for i in range(3):
        p = z3.Real('phase%d' % i); a = z3.Real('ampl%d' % i); ent.append((p, a))
        st.sym[front + 8 * i] = (4, 'f', p); st.sym[front + 8 * i + 4] = (4, 'f', a)
    states = [st]
    for k in range(3):
        nxt = []
        for s0 in states:
            for s1 in run_paths(ex, s0, 'e_apply', [drf]):
                s2 = ex.run1(s1, 'e_drf_past', [drf]); vec = s2.retval
                vs = ex.run1(s2, 'e_vecsize', [vec]).retval; vd = ex.run1(s2, 'e_vecdata', [vec]).retval if vs else 0
                got = get_reals(ex, s2, vd, 2 * vs) if vs else []
                prove(res, 'fetch #%d (%s RF, one step since the previous fetch) returns exactly the entry that step consumed (returned %s records)' % (k + 1, model, vs), s2.pc,
                      z3.Or(z3.BoolVal(vs != 1), *[x != y for x, y in zip(got, ent[k])]), key='flush-discipline', cex_fn=lambda m, k=k, vs=vs: {'replay': 'structural', 'fetch': k + 1, 'records': vs})
                nxt.append(s2)
        states = nxt
    account(res, ex, mod, states)
    witness(res, 'three fetches were explored (%s)' % model, [], z3.BoolVal(len(states) >= 1))

def job_calcmod(res, n, it):
    """B2: __calcModulation: entry i == (syncphase + xi_i*sigma_phase + A*sin(delta*i), 1 + eta_i*sigma_ampl) with symbolic members and draws"""
    bld = maps_build(); mod = load_module(bld, MAPS_MODS)
    snap, R, pre = maps_world(bld, n, 1, it)
    draws = []
    ex = Exec(mod, snap, RealDom()); ex.ext_prefix.append((NORMAL_PFX, normal_real(draws))); ex.round_toint = True      # (rounding of a symbolic period: a fresh integer, no enumeration)
    st = State(); drf = R['drfsin']
    S = {}
    for nm in ('phasenoise', 'amplnoise', 'modampl', 'modtimedelta', 'syncphase'):
        v = z3.Real(nm); S[nm] = v; st.sym[drf + int(R['off_' + nm])] = (4, 'f', v)
    for s in run_paths(ex, st, 'e_drf_calcmod', [drf, 3]):      # every path (code that decides on the modulation parameters forks); the draws made on a path are the last 6 recorded
      q = s.retval; draws_ = draws[-6:] if len(draws) >= 6 else draws
      sz = ex.run1(s, 'e_queue_size', [q]).retval; fp = ex.run1(s, 'e_queue_front', [q]).retval; account(res, ex, mod, [s])
      usin = ex.dom.uf('uf_sin', 1); bad = [z3.BoolVal(sz != 3 or len(draws_) != 6)]
      for i in range(min(sz, 3)):
          ph = ex.dom.z(ex.load(s, fp + 8 * i, F32)); am = ex.dom.z(ex.load(s, fp + 8 * i + 4, F32))
          bad.append(ph != S['syncphase'] + draws_[2 * i] * S['phasenoise'] + S['modampl'] * usin(S['modtimedelta'] * i))
          bad.append(am != 1 + draws_[2 * i + 1] * S['amplnoise'])
      prove(res, '__calcModulation(3): entry i == (syncphase + xi_i*phasenoise + modampl*sin(modtimedelta*i), 1 + eta_i*amplnoise), one pair of draws per step', list(s.pc) + [usin(z3.RealVal(0)) == 0], z3.Or(*bad), key='calc-modulation')

def job_queue_whole_run(res, model, n, it, S):
    """the constructor plans the modulation of the *whole* run: after construction with `steps` = S the queue holds exactly S entries and the last one carries the global
    step index S-1 in its sinusoid (so the modulation cannot restart inside a run of S steps).  S is concrete (it bounds the loop), amplitudes and draws are symbolic."""
    bld = maps_build(); mod = load_module(bld, MAPS_MODS)
    snap, R, pre = maps_world(bld, n, 1, it)
    draws = []
    ex = Exec(mod, snap, RealDom(), {UPDATE_SM: ext_noop, KICK_APPLY: ext_noop}); ex.ext_prefix.append((NORMAL_PFX, normal_real(draws))); ex.max_ins = 200_000_000; ex.time_budget = 1500
    A = z3.Real('modampl'); inc = z3.Real('modtimeinc'); sp = z3.Real('phasespread'); sa = z3.Real('amplspread'); st = State(); st.pc += [A > 0, inc > 0, sp >= 0, sa >= 0]
    if model == 'lin': s = ex.run1(st, 'e_new_drf_lin', [R['in'], R['out'], Fraction(f32(0.1)), Fraction(1e-3), Fraction(4.99e8), sp, sa, A, inc, S, it])
    else: s = ex.run1(st, 'e_new_drf_sin', [R['in'], R['out'], Fraction(1e-3), Fraction(1.4e6), Fraction(4.99e8), Fraction(4.5e4), sp, sa, A, inc, S, it])
    dyn = s.retval; account(res, ex, mod, [s])
    nn = ex.run1(s, 'e_drf_nnext', [dyn]).retval
    res.obs.append(Ob('DynamicRFKickMap (%s RF) constructed for a run of %d steps: the planned modulation has exactly %d entries, one per step of the whole run (got %s)' % (model, S, S, nn), 'holds' if nn == S else 'violated', key='queue-whole-run',
                      cex=None if nn == S else {'replay': 'structural', 'steps': S, 'entries': nn}))
    res.obs.append(Ob('one pair of noise draws per planned step (%d draws for %d steps)' % (len(draws), S), 'holds' if len(draws) == 2 * S else 'violated', key='queue-whole-run'))

def replayer(bld):
    def rp(path, c):
        if c.get('replay') in ('ctor', 'e2e'):
            n = c['n']; nb = c['nb']; it = c['it']; model = c['model']
            # native: dynamic map with zero amplitudes vs static map, same data
            import ctypes
            spec = {'what': 'rf' + model, 'n': n, 'nb': nb, 'it': it, 'seed': 7}
            o1 = native_run(bld, spec, 'c19s'); spec['what'] = 'drf' + model; o2 = native_run(bld, spec, 'c19d')
            same = o1['out'] == o2['out'] and not any(math.isnan(x) for x in o2['out'])
            dev = max((abs(a - b) if not (math.isnan(a) or math.isnan(b)) else float('inf')) for a, b in zip(o1['out'], o2['out']))
            return (not same, 'native: static vs dynamic(zero amplitude) %s RF kick differ by %s' % (model, dev))
        return (True, 'structural')
    return rp
def get_replayer(): return replayer(maps_build())

def main(tier):
    chk = Check('C19', tier, '4/C19')
    bld = maps_build()
    PS = [(0.1, 1e-3, 1.4e6, 4.99e8, 4.5e4), (0.02, 3e-4, 2.0e5, 5.0e8, 0.0)]
    jobs = [(job_ctor_equiv, (m, 8, nb, 4)) for m in ('lin', 'sin') for nb in (1, 2)]
    jobs += [(job_zero_amplitude_queue, (m, 8, 4)) for m in ('lin', 'sin')] + [(job_flush_history, (8, 4, m)) for m in ('lin', 'sin')]
    import mainparams
    jobs += [(mainparams.job_map_parameters, ('C03',))]      # what main builds: the dynamic map of either model gets the parameters of the static one (same angle / same revolution part, voltage, frequency, loss)
    jobs += [(job_end_to_end, (m, 8, nb, it, p)) for m in ('lin', 'sin') for nb, it in ((1, 4), (2, 3)) for p in PS]
    jobs += [(job_queue, (8, 4, L)) for L in (1, 2, 3)] + [(job_queue, (8, 4, 2, 'lin')), (job_queue, (9, 2, 1, 'lin'))] + [(job_calcmod, (8, 4))]
    jobs += [(job_queue_whole_run, (m, 8, 4, S)) for m in ('lin', 'sin') for S in (700, 40000) if tier != 'quick' or S == 700 or m == 'sin']      # longer than the container's node size; thorough: longer than any plausible block size (2^15)
    if tier != 'quick':
        jobs += [(job_ctor_equiv, (m, n, nb, it)) for m in ('lin', 'sin') for n in (6, 9) for nb in (1, 3) for it in (1, 2, 3)]
        jobs += [(job_end_to_end, (m, n, nb, it, p)) for m in ('lin', 'sin') for n in (6, 9) for nb in (1, 2) for it in (1, 2, 4) for p in PS]
        jobs += [(job_queue, (6, 2, L)) for L in (1, 2, 3)] + [(job_calcmod, (6, 2))]
    import mainloop
    jobs += mainloop.jobs_for('C19', tier)
    chk.bounds = {'constructor equivalence': 'symbolic angle in (0,1/2) / V>1000, 0<=V0<V, f_RF, revolution part, modulation increment; grids 8 (6, 9), 1-3 bunches', 'queue': 'queue of 3 symbolic (phase, amplitude) entries, 1-3 applies, flush, one more apply',
                  'zero amplitude': '4 steps = 8 noise draws, arbitrary finite floats (IEEE theory)', 'end to end': 'two concrete parameter sets per model, executed from IR in IEEE arithmetic'}
    chk.assumptions = ['KickMap::updateSM / KickMap::apply are stubbed to no-ops in the constructor-equivalence and queue runs (the table is a function of the displacement field only: C01/C02/C08)',
                       'tanf/sinf/asinf/sqrt are uninterpreted functions in the real-domain runs (same symbol in both maps)', 'records across output flushes: over all paths of main\'s loop (<= 2/3 iterations) every output block and the epilogue flush the record right after getPastModulation and the last flush follows the last RF apply; noise statistics are outside']
    chk.stubs = ['normal_distribution::operator(): fresh real / fresh finite float per draw', 'random_device: fixed seed', 'updateSM, KickMap::apply: no-op (where stated)']
    chk.replayer = replayer(bld)
    _rs = run_jobs(jobs, budget=900 if tier == 'quick' else 3000); _rs.append(mainloop.loop_witness(_rs, 'C19')); chk.add(_rs)
    chk.finish()

if __name__ == '__main__':
    main(sys.argv[1] if len(sys.argv) > 1 else 'quick')
