"""Slice of main()'s set-up code: from the filling pattern (ProgramOptions::getBunchCurrents) to the construction of the two ElectricField objects.

Real IR of src/main.cpp (-O1 -fno-inline) + src/HelperFunctions.cpp.  Under-constrained symbolic execution from the top of the block that fetches the
filling pattern: every SSA value defined earlier is a fresh symbol (bunch spacing, bunch length, grid extent, ...), option getters and constructors are
events returning fresh values, the small std:: helpers on *concrete* objects (std::vector members, std::max, iterators) and vfps::upper_power_of_two run
from their own IR, std::round/std::ceil/float-to-integer conversions become fresh mathematical integers tied to their argument by linear constraints
(no enumeration of integer parts).  The filling pattern is a vector of `nb` symbolic currents, the grid size a concrete number.

Path selection: decisions whose condition mentions a symbol that flows into the recorded call operands ("tracked") are explored both ways; all other
decisions (verbosity, GUI, file names, ...) are taken one way, steered by static reachability of the target call sites, once preferring the true and once
the false side.  The tracked set is computed as a fixpoint over repeated explorations."""
import sys, os, re, time
sys.path.insert(0, os.path.dirname(os.path.abspath(__file__)))
from maps_common import *
import mainloop
from mainloop import UCExec, OPtr, raw_event_call, show, demangle, PURE_PREFIXES, Truncated

REAL_PREFIXES = ('_ZNSt6vector', '_ZNKSt6vector', '_ZSt3max', '_ZSt3min', '_ZN9__gnu_cxx', '_ZNK9__gnu_cxx', '_ZNSt12_Vector_base', '_ZNKSt12_Vector_base', '_ZNSt16allocator_traits', '_ZNSt15__new_allocator',
                 '_ZNKSt15__new_allocator', '_ZNSaI', '_ZSt7forward', '_ZSt4move', '_ZSt8_Destroy', '_ZSt12__relocate_a', '_ZSt14__relocate_a_1', '_ZSt12__niter_base', '_ZNSt12_Destroy_aux', '_ZSt11__addressof',
                 '_ZSt9addressof', '_ZN4vfps18upper_power_of_two', '_ZSt10_Construct', '_ZSt34__uninitialized_move_if_noexcept_a', '_ZSt32__make_move_if_noexcept_iterator', '_ZSt22__uninitialized_copy_a',
                 '_ZSt18uninitialized_copy', '_ZNSt20__uninitialized_copy', '_ZSt4copy', '_ZSt14__copy_move_a', '_ZSt13__copy_move_a', '_ZSt12__miter_base', '_ZNSt11__copy_move', '_ZSt12__niter_wrap',
                 '_ZNSt13move_iterator', '_ZNKSt13move_iterator', '_ZSteq', '_ZStne', '_ZNKSt16initializer_list', '_ZNSt16initializer_list', '_ZSt8distance', '_ZSt10__distance', '_ZSt19__iterator_category', '_ZNSt6vectorIfSaIfEE19_M_range_initialize', '_ZSt19__relocate_object_a', '_ZNSt19__is_bitwise_relocatable', '_ZNSt6vectorI', '_ZSt15__alloc_on_copy')

def setup_build(): return B.build(None, ['src/main.cpp', 'src/HelperFunctions.cpp'], hdf5=1, noinline_tus=['src/main.cpp'], link=False)
SETUP_MODS = ['main', 'HelperFunctions']

def cfg_of(f):
    succ = {}
    for b in f.order:
        t = f.blocks[b][-1]; r = [t[k] for k in ('target', 't', 'f', 'normal', 'unwind') if k in t]
        if t['op'] == 'switch': r += [t['default']] + [lb for _, lb in t['cases']]
        succ[b] = r
    return succ

def can_reach(succ, targets):
    """set of blocks from which one of `targets` is reachable"""
    pred = {}
    for b, ss in succ.items():
        for x in ss: pred.setdefault(x, []).append(b)
    seen = set(targets); stack = list(targets)
    while stack:
        x = stack.pop()
        for p in pred.get(x, []):
            if p not in seen: seen.add(p); stack.append(p)
    return seen

def call_sites(mod, f, frag):
    dm = demangle(set(mod.decls) | set(mod.funcs)); out = []
    for b in f.order:
        for k, ins in enumerate(f.blocks[b]):
            if ins['op'] in ('call', 'invoke') and ins['callee'][0] == 'global' and frag in dm.get(ins['callee'][1], ins['callee'][1]): out.append((b, k, ins))
    return out

def syms_of(e, acc=None):
    acc = set() if acc is None else acc
    if isinstance(e, (list, tuple)):
        for x in e: syms_of(x, acc)
        return acc
    if not z3.is_expr(e): return acc
    seen = set(); stack = [e]
    while stack:
        x = stack.pop()
        if x.get_id() in seen: continue
        seen.add(x.get_id())
        if z3.is_const(x) and x.decl().kind() == z3.Z3_OP_UNINTERPRETED: acc.add(str(x))
        stack.extend(x.children())
    return acc

class SetupExec(UCExec):
    """under-constrained executor with path-local symbol names (the same path prefix yields the same names in every exploration)"""
    def fresh(self, st, ty, hint):
        # name = hint + how many values with this hint the path has created so far: independent of what other paths did
        c = st.extra.setdefault('nhint', {}); k = c[hint] = c.get(hint, 0) + 1
        self.nsym = k - 1; return super().fresh(st, ty, hint)

    def load(self, st, addr, ty):
        # reference returned by std::max/std::min on two stack objects: a select of two concrete addresses
        if z3.is_expr(addr) and z3.is_app_of(addr, z3.Z3_OP_ITE) and all(z3.is_bv_value(x) for x in addr.children()[1:]):
            c, a, b = addr.children()
            return self.ite(c, self.load(st, a.as_long(), ty), self.load(st, b.as_long(), ty), ty)
        if isinstance(addr, int):
            # stack bytes not written inside the slice (objects main initialised earlier): an arbitrary value, fixed at first read
            t = self.m.resolve(ty)
            if not isinstance(t, (StructTy, ArrTy)) and self._is_uninit(st, addr, self.m.sizeof(t)):
                v = self.fresh(st, t, 'stack%x' % (addr & 0xfffff)); self.store(st, addr, t, v); return v
        return super().load(st, addr, ty)

    def ibin(self, op, a, b, bits):
        if isinstance(a, OPtr) or isinstance(b, OPtr):
            if op == 'sub' and isinstance(a, OPtr) and isinstance(b, OPtr) and a.base == b.base: return (a.off - b.off) & MASK(bits)
            if op in ('add', 'sub') and isinstance(a, OPtr) and isinstance(b, int): return OPtr(a.base, a.off + (sgn(b, bits) if op == 'add' else -sgn(b, bits)))
            return z3.BitVec('ptrarith(%s,%r,%r)' % (op, a, b), bits)
        return super().ibin(op, a, b, bits)

    def feasible(self, st, cond):
        """exact slicing: only the path constraints that share symbols (transitively) with the condition matter - the path condition is satisfiable by construction"""
        if z3.is_true(cond): return True
        if z3.is_false(cond): return False
        cache = self.__dict__.setdefault('_symcache', {})
        def S(c):
            k = c.get_id(); r = cache.get(k)
            if r is None: r = cache[k] = (frozenset(syms_of(c)), c)      # keep c alive: ids are only unique among live terms
            return r[0]
        want = set(S(cond)); rest = [(S(c), c) for c in st.pc]; rel = []; ch = True
        while ch and want:
            ch = False; keep = []
            for sy, c in rest:
                if sy & want: rel.append(c); want |= sy; ch = True
                else: keep.append((sy, c))
            rest = keep
        t = time.time(); sv = z3.Solver(); sv.set('timeout', self.branch_timeout)
        # same preprocessing as the obligations: bit-vector comparisons over integer-valued leaves as integer arithmetic, products/quotients of opaque reals as free reals
        prep = self.__dict__.setdefault('_prep', {}); leaves = {}
        for c in rel + [cond]:
            k = c.get_id(); pc_ = prep.get(k)
            if pc_ is None:
                lf = lift_bool(c, leaves); pc_ = prep[k] = (abstract_nonlinear([lf], self.__dict__.setdefault('_nlnames', {}))[0][0], c, dict(leaves))
            else: leaves.update(pc_[2])
            sv.add(pc_[0])
        for rc in leaves.values(): sv.add(rc)
        r = sv.check()
        if time.time() - t > 2 and os.environ.get('SETUP_DUMP'): open(os.environ['SETUP_DUMP'], 'a').write('; %.1fs %s\n%s\n' % (time.time() - t, r, sv.sexpr()))
        self.stats['queries'] += 1; self.stats['solver_s'] += time.time() - t
        if r == z3.unknown: raise Unsupported('solver unknown on branch feasibility')
        return r == z3.sat
    via = None
    def enter(self, st, fr):
        if self.via is not None and fr.fn.name == 'main' and fr.blk == self.via: st.extra['via_done'] = True

class Reached(Exception): pass
class OffRoute(Exception): pass

def explore_setup(mod, n, nb, tracked, prefer, max_paths=600, budget=240, via=None, stop_frag=None, capture=(), tracked_frags=()):
    """all paths (w.r.t. tracked decisions) from the filling-pattern fetch to the last ElectricField construction; returns (paths, info)"""
    f = mod.funcs['main']; ex = SetupExec(mod, 0); ex.hdr = None; ex.scc = set(); ex.round_toint = True; ex.track_uninit = True; ex.dom.div0_fresh = True
    dm = demangle(set(mod.decls) | set(mod.funcs))
    gbc = call_sites(mod, f, 'ProgramOptions::getBunchCurrents'); ggs = call_sites(mod, f, 'ProgramOptions::getGridSize'); efc = call_sites(mod, f, 'ElectricField::ElectricField(')
    ggs = [g for g in ggs if f.order.index(g[0]) < f.order.index(gbc[0][0])] if gbc else ggs
    if len(gbc) != 1 or len(ggs) != 1 or not efc: raise Unsupported('expected one getBunchCurrents and one getGridSize call and at least one ElectricField construction in main (found %d, %d, %d)' % (len(gbc), len(ggs), len(efc)))
    start = gbc[0][0]; grid_reg = ggs[0][2]['dst']; last_ef = efc[-1]
    stop_sites = call_sites(mod, f, stop_frag) if stop_frag else []
    if stop_frag and not stop_sites: raise Unsupported('no call of %s in main' % stop_frag)
    succ = cfg_of(f); reach = can_reach(succ, [stop_sites[-1][0]] if stop_frag else [last_ef[0]]); reach_via = can_reach(succ, [via]) if via else None; ex.via = via
    real = set()
    for d in mod.decls:
        if d.startswith('llvm.') or d in LIBM or d in ('_Znwm', '_Znam', '_ZdlPv', '_ZdaPv', '__cxa_allocate_exception', '__cxa_throw', '__cxa_begin_catch', '__cxa_end_catch', '__cxa_rethrow', '__cxa_free_exception', 'memcpy', 'memmove', 'memset'): continue
        ex.ext[d] = raw_event_call(ex, d, d.startswith(PURE_PREFIXES))
    def maybe_real(name):
        ev = raw_event_call(ex, name, name.startswith(PURE_PREFIXES))
        def h(ex_, st, fr, args, ins):
            if any(isinstance(a, OPtr) for a in args): return ev(ex_, st, fr, args, ins)
            if name.startswith(('_ZNSt6vector', '_ZNKSt6vector', '_ZNSt12_Vector_base', '_ZNKSt12_Vector_base')) and args and isinstance(args[0], int):
                # a container initialised before the slice starts holds arbitrary data: calls on it stay events; one constructed inside the slice runs its own code
                live = st.extra.setdefault('live', set())
                if re.search(r'C[12]E', name): live.add(args[0])
                elif args[0] not in live and args[0] in st.frames[0].allocas: return ev(ex_, st, fr, args, ins)
            return CALL_REAL
        return h
    for d in mod.funcs:
        if d == 'main': continue
        if d.startswith(REAL_PREFIXES): ex.ext[d] = maybe_real(d); real.add(d)
        else: ex.ext[d] = raw_event_call(ex, d, d.startswith(PURE_PREFIXES))
    ex.ext['_ZdlPv'] = ext_noop; ex.ext['_Znwm'] = ext_new; ex.ext['_Znam'] = ext_new
    def upp_summary(ex_, st, fr, args, ins):
        # summary of vfps::upper_power_of_two, proven separately against its own IR (job_upper_power_of_two): v <= r < 2v and r a power of two, for 1 <= v <= 2^62
        v = args[0]
        if isinstance(v, int): return CALL_REAL
        k = to_int(v); u = ex.fresh_int(st, 'pow2')
        st.pc += [k >= 1, k <= (1 << 62), u >= k, u < 2 * k]
        st.extra.setdefault('late', []).append(z3.Or(*[u == (1 << j) for j in range(63)]))      # used by the obligations only: keeps the feasibility queries of the exploration small; st.extra.setdefault('summaries', []).append('upper_power_of_two')
        return z3.Int2BV(u, 64)
    for d in mod.funcs:
        if d.startswith('_ZN4vfps18upper_power_of_two'): ex.ext[d] = upp_summary
    for nm in ('__cxa_begin_catch', '__cxa_end_catch', '__clang_call_terminate'): ex.ext[nm] = ext_noop
    def indirect(st_, fr_, ins, fp, args):
        st_.events.append(('vcall', show(fp), list(args))); return None if isinstance(ins['ty'], VoidTy) else ex.fresh(st_, ins['ty'], 'vret')
    ex.indirect_hook = indirect
    # the filling pattern: nb symbolic currents in a concrete std::vector<float>
    def get_currents(ex_, st, fr, args, ins):
        sret = args[0]
        if not isinstance(sret, int): raise Unsupported('getBunchCurrents: result slot is not a concrete stack object')
        buf = ex.malloc(st, 4 * nb)
        for i in range(nb):
            c = z3.Real('current%d' % i); st.pc.append(c >= 0); st.sym[buf + 4 * i] = (4, 'f', c)
        for k, v in enumerate((buf, buf + 4 * nb, buf + 4 * nb)): ex.store(st, sret + 8 * k, IntTy(64), v)
        st.events.append((gbc[0][2]['callee'][1], list(args), None)); st.extra['filling'] = sret; st.extra.setdefault('live', set()).add(sret)
        return None
    ex.ext[gbc[0][2]['callee'][1]] = get_currents
    ex.ext[ggs[0][2]['callee'][1]] = lambda ex_, st, fr, args, ins: n          # the configured grid size, wherever main asks for it
    def loader(name):
        ev = raw_event_call(ex, name, False)
        def h(ex_, st, fr, args, ins):
            lz = st.extra.get('lazy', {})
            for key in [k_ for k_ in lz if isinstance(k_[0], str) and k_[0].startswith('@_ZN4vfps10PhaseSpace')]: lz.pop(key)     # the loader sets the static grid size: values read before are stale
            st.extra['loader'] = name
            return ev(ex_, st, fr, args, ins)
        return h
    for d in list(mod.decls) + list(mod.funcs):
        if 'makePSFrom' in d: ex.ext[d] = loader(d)
    # record the ElectricField constructions with the memory they can see (bucket vector contents)
    ef_names = {s_[2]['callee'][1] for s_ in efc}
    def ef_ctor(ex_, st, fr, args, ins):
        rec = {'args': list(args)}
        for j, a in enumerate(args):
            if isinstance(a, int) and j >= 2:
                try:
                    b0 = ex.load(st, a, IntTy(64)); b1 = ex.load(st, a + 8, IntTy(64))
                    if isinstance(b0, int) and isinstance(b1, int) and 0 <= b1 - b0 <= 4 * 64 and (b1 - b0) % 4 == 0 and b0 >= EXEC_HEAP:
                        rec.setdefault('vectors', {})[j] = [ex.load(st, b0 + 4 * i, IntTy(32)) for i in range((b1 - b0) // 4)]
                except Exception: pass
        st.events.append((ins['callee'][1], list(args), None, rec))
        st.extra['n_ef'] = st.extra.get('n_ef', 0) + 1
        if st.extra['n_ef'] >= len(efc) and not stop_frag: raise Reached()
        return None
    for nm in ef_names: ex.ext[nm] = ef_ctor
    # slice extended beyond the fields (map parameters): numeric constants of boost::math run from their own IR; calls to be captured record what their pointer operands point to
    def deref(st, a):
        if not isinstance(a, int) or a < EXEC_HEAP: return None
        out = {}
        for ty_, nm_ in ((FloatTy(32), 'f32'), (FloatTy(64), 'f64'), (IntTy(64), 'p0'), (IntTy(32), 'i32')):
            try: out[nm_] = ex.load(st, a, ty_)
            except Exception: pass
        try:
            b0 = ex.load(st, a, IntTy(64)); b1 = ex.load(st, a + 8, IntTy(64))
            if isinstance(b0, int) and isinstance(b1, int) and b0 >= EXEC_HEAP and 0 < b1 - b0 <= 64 and (b1 - b0) % 4 == 0: out['vec_f32'] = [ex.load(st, b0 + 4 * i, FloatTy(32)) for i in range((b1 - b0) // 4)]
        except Exception: pass
        return out
    def capturing(name, stop):
        def h(ex_, st, fr, args, ins):
            st.events.append((name, list(args), None, {'deref': [deref(st, a) for a in args]}))
            if stop: raise Reached()
            return None if isinstance(ins['ty'], VoidTy) else ex.fresh(st, ins['ty'], 'ret_cap')
        return h
    if stop_frag or capture:
        for d in list(mod.decls) + list(mod.funcs):
            dn = dm.get(d, d)
            if d.startswith('_ZN5boost4math9constants') and d in mod.funcs: ex.ext[d] = (lambda ex_, st, fr, args, ins: CALL_REAL)
            elif stop_frag and stop_frag in dn and d != 'main': ex.ext[d] = capturing(d, True)
            elif any(c_ in dn for c_ in capture) and d != 'main': ex.ext[d] = capturing(d, False)
    # decisions
    stats = {'tracked_forks': 0, 'guided': 0}
    def guide(st, cb, tb, fb):
        fr = st.frames[-1]
        if fr.fn.name != 'main': return None
        sy_ = syms_of(cb)
        if sy_ & tracked or (tracked_frags and any(fr_ in x_ for x_ in sy_ for fr_ in tracked_frags)): stats['tracked_forks'] += 1; return None
        stats['guided'] += 1
        rs = reach_via if (via and not st.extra.get('via_done')) else reach
        rt, rf = tb in rs, fb in rs
        if via and not st.extra.get('via_done') and not rt and not rf: raise OffRoute()
        if rt != rf: return rt
        cnt = st.extra.setdefault('guided_at', {}); k = cnt[fr.blk] = cnt.get(fr.blk, 0) + 1
        if via and not st.extra.get('via_done') and k <= 2: return None      # on the way to the requested call site: static reachability is path-insensitive, so try both sides (depth first; see below)
        want = prefer if k <= 2 else (not prefer)          # a loop steered the same way twice is left the other way
        return want
    ex.fork_guide = guide
    st = State(); fr = Frame(f); fr.blk = start; fr.prev = None; fr.loc[grid_reg] = n; st.frames.append(fr)
    for ins in f.blocks[f.order[0]]:          # main's stack objects exist (zero-filled) - objects initialised before the slice starts hold arbitrary data the slice must not depend on
        if ins['op'] == 'alloca' and ins['n'] == ('int', 1) or (ins['op'] == 'alloca' and isinstance(ins['n'], tuple) and ins['n'][0] == 'int'):
            sz_ = mod.sizeof(ins['ty']) * ins['n'][1]; a = ex.malloc(st, sz_); fr.loc[ins['dst']] = a; fr.allocas.append(a); st.extra.setdefault('uninit', {})[a] = bytearray(b'\1' * sz_)
    paths = []; work = [st]; t0 = time.time(); ended = []
    while work:
        s = work.pop()
        if via and not s.extra.get('via_done') and any(p_.extra.get('via_done') for p_ in paths): continue      # one path through the requested site is enough: drop the other attempts to get there
        if len(paths) + len(ended) > max_paths or time.time() - t0 > budget: raise Unsupported('path/time budget exceeded in the set-up slice (%d paths reached the field constructions)' % len(paths))
        try: ex.run_path(s, work); s.kind = 'returned'; ended.append(s)
        except Reached: s.kind = 'reached'; paths.append(s)
        except OffRoute: continue
        except PathEnd as e: s.kind = 'ended'; s.why = str(e); ended.append(s)
        except Truncated: s.kind = 'truncated'; ended.append(s)
        except (Unsupported, MemError) as e:
            s.kind = 'error'; s.why = '%s: %s @ %s' % (type(e).__name__, e, [(fr_.fn.name[:40], fr_.blk, fr_.ip) for fr_ in s.frames[-3:]]); ended.append(s)
    return paths, ended, {'start': start, 'grid_reg': grid_reg, 'stats': stats, 'ex': ex, 'dm': dm, 'real': real, 'ef_names': ef_names}

def field_calls(mod, st, info):
    """[(N, spacing, buckets, pc-independent description)] for every ElectricField construction on the path, linked to the makeImpedance call that produced its impedance"""
    dm = info['dm']; holder = {}; made = []; out = []; grid = None
    for e in st.events:
        name = e[0]
        if name in ('vcall',) or not isinstance(name, str): continue
        d = dm.get(name, name)
        if 'vfps::makeImpedance(' in d:
            made.append(e[1][1]); holder[e[1][0] if isinstance(e[1][0], int) else repr(e[1][0])] = len(made) - 1      # sret slot holds impedance #k
        elif 'PhaseSpace::setSize' in d: grid = e[1][0]
        elif 'Impedance' in d and ('shared_ptr' in d or 'unique_ptr' in d) and '~' not in d and 'ElectricField' not in d and len(e[1]) >= 2:
            src = e[1][1]; dst = e[1][0]; ks = src if isinstance(src, int) else repr(src)
            if ks in holder: holder[dst if isinstance(dst, int) else repr(dst)] = holder[ks]
        elif name in info['ef_names']:
            rec = e[3]; a = rec['args']; imp = None
            for x in a[1:4]:
                kx = x if isinstance(x, int) else repr(x)
                if kx in holder: imp = holder[kx]
            vecs = rec.get('vectors', {})
            ints = [(j, x) for j, x in enumerate(a) if j >= 3 and (isinstance(x, int) and x < (1 << 32) and j not in vecs or (z3.is_expr(x) and z3.is_bv(x) and x.size() == 32))]
            out.append({'impedance': imp, 'N': made[imp] if imp is not None else None, 'buckets': next(iter(vecs.values())) if vecs else None, 'spacing': ints[0][1] if ints else None, 'nargs': len(a), 'grid': grid})
    return out


def to_int(e, bits=None):
    """mathematical integer denoted by a bit-vector operand (unsigned)"""
    return lift_int(e, {})

def abstract_nonlinear(exprs, names=None):
    """replace every product/quotient of two non-constant real terms that mentions no integer-valued symbol by a fresh real (same term -> same symbol): sound for proving,
    and no loss for the quantities decided here, which depend on such terms (bunch spacing in units of the grid extent) only linearly"""
    cache = {}; names = {} if names is None else names
    def pure(t):
        return not any(x.startswith(('current', 'round!', 'ceil!', 'floor!', 'trunc!', 'pow2!')) for x in syms_of(t))
    def walk(t):
        k = t.get_id()
        if k in cache: return cache[k]
        if not z3.is_app(t) or t.num_args() == 0: cache[k] = t; return t
        ch = [walk(c) for c in t.children()]
        r = t.decl()(*ch) if ch else t
        if z3.is_real(r) and t.decl().kind() in (z3.Z3_OP_DIV, z3.Z3_OP_MUL) and sum(0 if z3.is_rational_value(c) else 1 for c in ch) >= 2 and pure(r):
            key = str(r); nm = names.setdefault(key, 'nl%d' % len(names)); r = z3.Real(nm)
        cache[k] = r; return r
    return [walk(e) for e in exprs], names


# ------------------------------------------------------------------ bit-vector terms over integer-valued leaves, lifted to integer arithmetic
def lift_int(e, leaves):
    """mathematical value (unsigned) of a bit-vector term as an integer term: +, -, * by constants, zero extension, truncation, ite keep their modular meaning (mod 2^bits);
    opaque bit-vector symbols become integer symbols with their range (collected in `leaves`)"""
    if isinstance(e, int): return z3.IntVal(e)
    bits = e.size(); M = 1 << bits; k = e.decl().kind()
    if z3.is_bv_value(e): return z3.IntVal(e.as_long())
    if k == z3.Z3_OP_INT2BV: return e.arg(0) % M
    if k == z3.Z3_OP_UNINTERPRETED and e.num_args() == 0:
        v = z3.Int('int(%s)' % e); leaves[str(e)] = z3.And(v >= 0, v < M); return v
    if k == z3.Z3_OP_BADD: return z3.Sum([lift_int(c, leaves) for c in e.children()]) % M
    if k == z3.Z3_OP_BSUB: return (lift_int(e.arg(0), leaves) - z3.Sum([lift_int(c, leaves) for c in e.children()[1:]])) % M
    if k == z3.Z3_OP_BMUL:
        cs = [c for c in e.children() if z3.is_bv_value(c)]; vs = [c for c in e.children() if not z3.is_bv_value(c)]
        if len(vs) <= 1:
            f = 1
            for c in cs: f *= c.as_long()
            return (f * lift_int(vs[0], leaves)) % M if vs else z3.IntVal(f % M)
    if k == z3.Z3_OP_ZERO_EXT: return lift_int(e.arg(0), leaves)
    if k == z3.Z3_OP_CONCAT and z3.is_bv_value(e.arg(0)) and e.arg(0).as_long() == 0 and e.num_args() == 2: return lift_int(e.arg(1), leaves)
    if k == z3.Z3_OP_EXTRACT and e.params()[1] == 0: return lift_int(e.arg(0), leaves) % (1 << (e.params()[0] + 1))
    if k == z3.Z3_OP_ITE: return z3.If(lift_bool(e.arg(0), leaves), lift_int(e.arg(1), leaves), lift_int(e.arg(2), leaves))
    return z3.BV2Int(e, False)

def lift_bool(f, leaves):
    """formula with bit-vector comparisons -> the same formula over the lifted integers"""
    if not z3.is_expr(f): return f
    k = f.decl().kind(); ch = f.children()
    if k in (z3.Z3_OP_AND, z3.Z3_OP_OR, z3.Z3_OP_NOT, z3.Z3_OP_IMPLIES, z3.Z3_OP_XOR) or (k in (z3.Z3_OP_EQ, z3.Z3_OP_DISTINCT, z3.Z3_OP_ITE) and ch and all(z3.is_bool(c) for c in ch[-2:])):
        return f.decl()(*[lift_bool(c, leaves) for c in ch])
    if ch and z3.is_bv(ch[0]) and len(ch) == 2:
        a, b = lift_int(ch[0], leaves), lift_int(ch[1], leaves)
        if k == z3.Z3_OP_EQ: return a == b
        if k == z3.Z3_OP_DISTINCT: return a != b
        if k == z3.Z3_OP_ULT: return a < b
        if k == z3.Z3_OP_ULEQ: return a <= b
        if k == z3.Z3_OP_UGT: return a > b
        if k == z3.Z3_OP_UGEQ: return a >= b
    return f

def lift_all(formulas):
    leaves = {}; out = [lift_bool(f, leaves) for f in formulas]
    return out, list(leaves.values())
