"""C08 - in a multi-bunch run every bunch evolves exactly as it would on its own.
Differential symbolic execution: the B-bunch objects (real constructors, native snapshot) are run from IR with symbolic
data for every bunch (and symbolic fractional displacements for the generic kick) and compared, cell by cell, with the
single-bunch objects run on bunch b's data/displacements alone."""
import sys, os
sys.path.insert(0, os.path.dirname(os.path.abspath(__file__)))
from maps_common import *

def krow(seed, b, x):
    r = random.Random(seed * 1000003 + b * 131 + x)
    if seed >= 100:      # "strong field" seeds: some rows of the later bunches are displaced by half a grid or more (their source lies off the grid: the zero-weight branch of updateSM)
        return r.choice([-2, -1, 0, 1, 2] + ([9, -9, 7, -8] if b >= 1 else []))
    return r.choice([-2, -1, -1, 0, 0, 1, 1, 2])

def sym_data(ex, st, roots, B, n, tag='d', only=None):
    D = {}
    for b in range(B):
        names = ['%s_%d_%d' % (tag, b, i) for i in range(n * n)]
        D[b] = sym_reals(ex, st, roots['data_in'] + 4 * b * n * n, names, -1, 1)
    return D

def install_data(ex, st, roots, vals):
    for i, v in enumerate(vals): st.sym[roots['data_in'] + 4 * i] = (4, 'f', v)

def out_cells(ex, st, roots, cnt): return get_reals(ex, st, roots['data_out'], cnt)

def cex_common(m, D, B, n):
    return {'data': [[mval(m, v) for v in D[b]] for b in range(B)]}

def job_generic_kick(res, n, B, it, axis, seed, before=None):
    bld = maps_build(); mod = load_module(bld, MAPS_MODS)
    snapB, rB, pB = maps_world(bld, n, B, it); snap1, r1, p1 = maps_world(bld, n, 1, it)
    validate(res, mod, snapB, pB); validate(res, mod, snap1, p1)
    km = 'kmy' if axis else 'kmx'; off = 'offy' if axis else 'offx'
    ex = Exec(mod, snapB, RealDom()); st = State()
    D = sym_data(ex, st, rB, B, n)
    F = {}; OFF = {}
    base = rB[off + '_data']
    for b in range(B):
        for x in range(n):
            bb = b if axis else 0           # the x kick (drift) is defined to be the same for all bunches: replicate bunch 0's field
            if (bb, x) not in F:
                f = z3.Real('f_%d_%d' % (bb, x)); st.pc += [f >= 0, f < 1]; st.ranges['f_%d_%d' % (bb, x)] = (Fraction(0), Fraction(1)); F[(bb, x)] = f
            k = krow(seed, bb, x); OFF[(b, x)] = F[(bb, x)] + k
            st.sym[base + 4 * (b * n + x)] = (4, 'f', OFF[(b, x)])
    if before:      # an earlier step of the same process by a map of another kind (whatever it leaves behind in the process is then present)
        pre = run_paths(ex, st, 'e_apply', [rB[before]]); account(res, ex, mod, pre)
        if len(pre) != 1: raise Unsupported('expected a single path for the earlier map, got %d' % len(pre))
        st = pre[0]
    sts = run_paths(ex, st, 'e_km_swap_apply', [rB[km], rB[off]])
    account(res, ex, mod, sts)
    for sB in sts:      # (a map that decides on the displacement - rows pushed off the grid - forks: every path is compared)
      outB = out_cells(ex, sB, rB, B * n * n); pcB = sB.pc
      for b in range(B):
          ex1 = Exec(mod, snap1, RealDom()); s1 = State(); s1.pc = list(st.pc[:0]); s1.ranges = dict(st.ranges)
          install_data(ex1, s1, r1, D[b])
          for x in range(n): s1.sym[r1[off + '_data'] + 4 * x] = (4, 'f', OFF[(b, x)])
          s1.pc = [c for c in pcB]
          ss = run_paths(ex1, s1, 'e_km_swap_apply', [r1[km], r1[off]]); account(res, ex1, mod, ss)
          compat = [x for x in ss]
          if not compat: raise Unsupported('single-bunch run has no path')
          out1 = out_cells(ex1, compat[0], r1, n * n)
          if len(compat) != 1: raise Unsupported('single-bunch run forks under the train\'s path condition (%d paths)' % len(compat))
          diffs = [outB[b * n * n + i] != out1[i] for i in range(n * n)]
          def cex(m, b=b):
              c = cex_common(m, D, B, n)
              c.update({'replay': 'kick', 'n': n, 'nb': B, 'it': it, 'axis': axis, 'bunch': b, 'before': before,
                        'off': [mval(m, OFF[(bb, x)]) for bb in range(B) for x in range(n)]})
              return c
          prove(res, 'generic %s-kick n=%d B=%d it=%d%s: bunch %d of the train == single-bunch run on its own data and displacement (all %d cells)' % ('y' if axis else 'x', n, B, it, ' after a step of %s in the same process' % before if before else '', b, n * n),
                ss[0].pc, z3.Or(*diffs), key='kick-%s-multibunch' % ('y' if axis else 'x'), cex_fn=cex)
          # dependence witness: a cell of bunch b depends on its own fraction symbol
          if it >= 2:
              xr = next((x for x in (n // 2, n // 2 - 1, n // 2 + 1, 1, n - 2) if abs(krow(seed, b if axis else 0, x)) <= 2), n // 2)      # a row whose source lies on the grid
              fb = F[(b if axis else 0, xr)]
              row = [outB[b * n * n + (xr * n + y if axis else y * n + xr)] for y in range(n)]
              f2 = z3.Real('f_alt'); alt = [z3.substitute(c, (fb, f2)) for c in row]
              witness(res, 'bunch %d output depends on its own displacement (n=%d it=%d axis=%d)' % (b, n, it, axis), list(ss[0].pc) + [f2 >= 0, f2 < 1], z3.Or(*[a != c for a, c in zip(alt, row)]))

def job_fixed_map(res, what, n, B, it, dt, fptype, before=None):
    """maps whose displacement field / operator is computed by the real constructor (native, in the snapshot): RF (both models), drift,
    Fokker-Planck, identity.  Data of every bunch symbolic."""
    bld = maps_build(); mod = load_module(bld, MAPS_MODS)
    kw = dict(dt=dt, fptype=fptype)
    snapB, rB, pB = maps_world(bld, n, B, it, **kw); snap1, r1, p1 = maps_world(bld, n, 1, it, **kw)
    validate(res, mod, snapB, pB)
    ex = Exec(mod, snapB, RealDom()); st = State()
    D = sym_data(ex, st, rB, B, n)
    if before:      # an earlier step of the same process by a map of another kind: 'kmy'/'kmx' = a kick map with one displacement row per bunch (as the wake kick), else a constructor-made map
        pre = run_paths(ex, st, 'e_km_swap_apply', [rB[before], rB['offy' if before == 'kmy' else 'offx']]) if before in ('kmx', 'kmy') else run_paths(ex, st, 'e_apply', [rB[before]])
        account(res, ex, mod, pre); st = pre[0]
    sts = run_paths(ex, st, 'e_apply', [rB[what]]); account(res, ex, mod, sts)
    outB = out_cells(ex, sts[0], rB, B * n * n)
    for b in range(B):
        ex1 = Exec(mod, snap1, RealDom()); s1 = State(); install_data(ex1, s1, r1, D[b])
        ss = run_paths(ex1, s1, 'e_apply', [r1[what]]); account(res, ex1, mod, ss)
        out1 = out_cells(ex1, ss[0], r1, n * n)
        diffs = [outB[b * n * n + i] != out1[i] for i in range(n * n)]
        def cex(m, b=b):
            c = cex_common(m, D, B, n); c.update({'replay': what, 'n': n, 'nb': B, 'it': it, 'dt': dt, 'fptype': fptype, 'bunch': b, 'before': before}); return c
        prove(res, '%s n=%d B=%d it=%d dt=%d fptype=%d%s: bunch %d of the train == single-bunch run on its own data' % (what, n, B, it, dt, fptype, ' after a step of %s in the same process' % before if before else '', b),
              st.pc, z3.Or(*diffs), key='%s-multibunch' % what, cex_fn=cex)
    # witness: output of last bunch is not trivially independent of its data
    b = B - 1; d0 = D[b][(n // 2) * n + n // 2]; d2 = z3.Real('d_alt')
    cells = outB[b * n * n:(b + 1) * n * n]
    witness(res, '%s: bunch %d output depends on its data' % (what, b), [], z3.Or(*[z3.substitute(c, (d0, d2)) != c for c in cells]))

def job_wake_kick(res, n, N, spacing, buckets, kseed=3):
    """the wake kick map of main (WakePotentialMap built on a real ElectricField, equal charge shares): after update() with an arbitrary wake potential per bunch and cell, apply() moves every
    bunch by ITS OWN rows - the target cells of bunch b do not change when the wake potential or the data of another bunch change, and they do depend on bunch b's own wake"""
    import field_common
    bld = field_common.field_build(); mod = load_module(bld, field_common.FIELD_MODS)
    snap, R, pre, plans, calib = field_common.field_world(bld, n, N, spacing, buckets)
    nb = len(buckets)
    wp = {}
    def wake_stub(ex, st, fr, a, ins):      # ElectricField::wakePotential(): an arbitrary potential (C06 decides its value); integer part fixed per row, fraction symbolic
        p = st.extra.get('wp_buf')
        if p is None:
            p = ex.malloc(st, 4 * nb * n); st.extra['wp_buf'] = p
            for b in range(nb):
                for x in range(n):
                    f = z3.Real('w_%d_%d' % (b, x)); wp[(b, x)] = f
                    st.sym[p + 4 * (b * n + x)] = (4, 'f', f + krow(kseed, b, x))
        return p
    ex = Exec(mod, snap, RealDom(), {'_ZN4vfps13ElectricField13wakePotentialEv': wake_stub}); st = State()
    for b in range(nb):
        for x in range(n): st.pc += [z3.Real('w_%d_%d' % (b, x)) >= 0, z3.Real('w_%d_%d' % (b, x)) < 1]; st.ranges['w_%d_%d' % (b, x)] = (Fraction(0), Fraction(1))
    D = [[z3.Real('d%d_%d' % (b, i)) for i in range(n * n)] for b in range(nb)]
    for b in range(nb):
        for i in range(n * n): st.sym[R['data_in'] + 4 * (b * n * n + i)] = (4, 'f', D[b][i]); st.pc += [D[b][i] >= -1, D[b][i] <= 1]
    outs = []
    for s0 in run_paths(ex, st, 'e_wpm_update', [R['wpm']]): outs += run_paths(ex, s0, 'e_wpm_apply', [R['wpm']])
    account(res, ex, mod, outs)
    if len(outs) != 1: raise Unsupported('expected a single path, got %d' % len(outs))
    s = outs[0]; cells = get_reals(ex, s, R['data_out'], nb * n * n)
    for b in range(nb):
        mine = cells[b * n * n:(b + 1) * n * n]
        subs = [(wp[(bb, x)], z3.Real('w_alt_%d_%d' % (bb, x))) for bb in range(nb) if bb != b for x in range(n)] + [(D[bb][i], z3.Real('d_alt_%d_%d' % (bb, i))) for bb in range(nb) if bb != b for i in range(n * n)]
        def cex(m, b=b): return {'replay': 'structural', 'bunch': b, 'n': n, 'buckets': list(buckets)}
        prove(res, 'wake kick map n=%d buckets %s (equal shares): the %d target cells of bunch %d are unchanged when wake potential and data of the other bunches change' % (n, list(buckets), n * n, b),
              s.pc, z3.Or(*[z3.substitute(c, *subs) != c for c in mine]), key='wake-kick-own-rows', cex_fn=cex)
        own = wp[(b, n // 2)]
        witness(res, 'wake kick map: bunch %d depends on its own wake potential (row %d)' % (b, n // 2), list(s.pc) + [z3.Real('w_own_alt') >= 0, z3.Real('w_own_alt') < 1], z3.Or(*[z3.substitute(c, (own, z3.Real('w_own_alt'))) != c for c in mine]))

WHAT2RUN = {'rflin': 'rflin', 'rfsin': 'rfsin', 'drift': 'drift', 'fpm': 'fp', 'idm': 'identity'}

def replayer(bld):
    def rp(path, cex):
        n, B = cex['n'], cex['nb']; b = cex['bunch']
        flat = [v for bb in range(B) for v in cex['data'][bb]]
        spec = {'n': n, 'nb': B, 'it': cex['it'], 'seed': 7, 'data': [float(x) for x in flat]}
        spec1 = {'n': n, 'nb': 1, 'it': cex['it'], 'seed': 7, 'data': [float(x) for x in cex['data'][b]]}
        if cex['replay'] == 'kick':
            spec.update({'what': 'kick', 'axis': cex['axis'], 'off': [float(x) for x in cex['off']]})
            spec1.update({'what': 'kick', 'axis': cex['axis'], 'off': [float(x) for x in cex['off'][b * n:(b + 1) * n]]})
        else:
            w = WHAT2RUN[cex['replay']]
            for s in (spec, spec1):
                s.update({'what': w, 'dt': cex.get('dt', 3), 'fptype': cex.get('fptype', 3)})
                if w == 'drift': s.update({'slip': [0.11, 0.013, 0.0017], 'E0': 1.3e9})      # the drift map of the snapshot world (harness build())
        if cex.get('before'): spec['pre_apply'] = cex['before']      # the train's process has run the other map before; the single-bunch reference is a fresh process
        oB = native_run(bld, spec, 'c08B')['out']; o1 = native_run(bld, spec1, 'c08s')['out']
        dev = max(abs(oB[b * n * n + i] - o1[i]) for i in range(n * n))
        scale = max(1e-30, max(abs(x) for x in o1))
        return (dev > 1e-5 * scale + 1e-7, 'native: bunch %d of the %d-bunch run differs from its single-bunch run by %.3g (scale %.3g)' % (b, B, dev, scale))
    return rp

def get_replayer(): return replayer(maps_build())

def main(tier):
    chk = Check('C08', tier, '4/C08')
    bld = maps_build()
    if tier == 'quick':
        kicks = [(8, 2, 4, 1, 1), (6, 3, 3, 1, 2), (6, 2, 2, 1, 3), (8, 2, 4, 0, 4), (6, 3, 2, 0, 5), (6, 2, 3, 1, 101), (8, 3, 4, 1, 102)]
        fixed = [(w, 8, 2, 4, 3, 3) for w in ('rflin', 'rfsin', 'drift', 'fpm', 'idm')] + [('rflin', 6, 3, 3, 3, 3), ('rfsin', 6, 3, 2, 3, 3), ('drift', 6, 3, 3, 3, 3), ('fpm', 6, 3, 2, 4, 3), ('fpm', 8, 2, 4, 4, 1)]
    else:
        kicks = [(n, B, it, ax, s) for n in (6, 8, 9) for B in (2, 3) for it in (1, 2, 3, 4) for ax in (0, 1) for s in (1, 2)] + [(n, B, it, 1, s) for n in (6, 8) for B in (2, 3) for it in (2, 4) for s in (101, 102, 103)]
        fixed = [(w, n, B, it, 3, 3) for w in ('rflin', 'rfsin', 'drift', 'idm') for n in (6, 8, 9) for B in (2, 3) for it in (2, 3, 4)]
        fixed += [('fpm', n, B, 4, dt, ft) for n in (8, 9) for B in (2, 3) for dt in (3, 4) for ft in (0, 1, 2, 3)]
    jobs = [(job_generic_kick, a) for a in kicks] + [(job_fixed_map, a) for a in fixed]
    # histories: a map of another kind has made a step in the same process (wake kick before RF kick, RF kick before wake kick, ...)
    hn, hB, hit = (6, 2, 3) if tier == 'quick' else (8, 3, 4)
    jobs += [(job_fixed_map, (w, hn, hB, hit, 3, 3, b4)) for w, b4 in (('rflin', 'kmy'), ('rfsin', 'kmy'), ('drift', 'kmy'), ('fpm', 'kmy'), ('drift', 'kmx'), ('fpm', 'rflin'), ('idm', 'kmy'))]
    jobs += [(job_generic_kick, (hn, hB, hit, 1, 6, b4)) for b4 in ('rflin', 'fpm', 'drift')] + [(job_generic_kick, (hn, hB, hit, 0, 7, 'rflin'))]
    jobs += [(job_wake_kick, (6, 16, 7, (1, 0))), (job_wake_kick, (5, 20, 6, (0, 2, 1)))]      # the wake kick map itself (main's WakePotentialMap), bunches of equal charge
    import c14 as _c14
    jobs += [(_c14.job_process_state, ())]      # results must not depend on which object of the process came first (function-local / file-scope statics)
    chk.bounds = {'grid n': sorted({a[0] for a in kicks}), 'bunches B': sorted({a[1] for a in kicks}), 'interpolation points': sorted({a[2] for a in kicks}),
                  'displacement': 'per row k+f, k in [-2,2] fixed per row (seeded; strong-field seeds also +-7..9 cells on bunches >= 1, i.e. off the grid), f symbolic real in [0,1)', 'data': 'every cell of every bunch a real symbol in [-1,1]',
                  'RF/drift/FP parameters': 'the concrete values the harness constructs with (angle 0.1, f_RF 499 MHz, V 1.4 MV, slip {0.11,0.013,0.0017}, e1 0.01)'}
    chk.assumptions = ['floats as exact reals (bunch independence is an algebraic identity; rounding is identical in both runs)',
                       'x-kick (drift): the displacement field is common to all bunches by design; the generic x-kick obligation replicates bunch 0\'s field',
                       'outside: OpenCL kernels, sizes above the bound, wake kick source (ElectricField -> C06) - the copy into the kick is checked in C06/C18 harness']
    chk.stubs = ['operator new/delete: fresh zeroed object / no-op', 'modff: exact, integer part case split by solver', 'libm (tanf,sinf,asinf,pow): concrete values via the process libm']
    chk.replayer = replayer(bld)
    chk.add(run_jobs(jobs, budget=600 if tier == 'quick' else 1800))
    chk.finish()

if __name__ == '__main__':
    main(sys.argv[1] if len(sys.argv) > 1 else 'quick')
