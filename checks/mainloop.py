"""Under-constrained symbolic execution of main()'s simulation loop and epilogue (real IR of src/main.cpp, compiled -O1 -fno-inline).

Every live-in SSA value of the start block is a fresh symbol (laststep, outstep, renormalize, h5save, steps, object pointers, ...), memory behind
opaque pointers is read lazily, every call that is not pure arithmetic becomes an event (callee, arguments), every volatile read of
Display::abort is a fresh boolean (monotone: once set the flag stays set) - this *is* the asynchronous interrupt.  All feasible paths of at
most K loop iterations are enumerated; the obligations of C10-G2, C12-F2, C14-H2 and C19-C are statements over the resulting event traces."""
import sys, os, re, subprocess, pickle, time
sys.path.insert(0, os.path.dirname(os.path.abspath(__file__)))
from maps_common import *

ABORT = '_ZN4vfps7Display5abortE'

def main_build(): return B.build(None, ['src/main.cpp'], hdf5=1, noinline_tus=['src/main.cpp'], link=False)

class OPtr:
    """opaque pointer: symbolic base + concrete byte offset"""
    __slots__ = ('base', 'off')
    def __init__(s, base, off=0): s.base = base; s.off = off
    def __repr__(s): return '&%s%+d' % (s.base, s.off) if s.off else '&%s' % s.base
    def __eq__(s, o): return isinstance(o, OPtr) and s.base == o.base and s.off == o.off
    def __hash__(s): return hash((s.base, s.off))

class Truncated(Exception): pass

def show(v):
    if isinstance(v, (int, OPtr)): return repr(v)
    if isinstance(v, Fraction): return str(v)
    if isinstance(v, list): return '[' + ','.join(show(x) for x in v) + ']'
    try: return str(z3.simplify(v)).replace('\n', ' ')
    except Exception: return str(v)

PURE_PREFIXES = ('_ZNKSt', '_ZSt', '_ZNK5boost', '_ZN9__gnu_cxx', '_ZNK9__gnu_cxx', '_ZN5boost4math9constants')

class UCExec(Exec):
    def __init__(self, mod, K):
        super().__init__(mod, Snapshot(), RealDom())
        self.K = K; self.nsym = 0; self.check_mem = False; self.hdr = None; self.max_paths = 200000; self.time_budget = 3000
        self.force_abort = False
        self.part = None     # (depth, index): explore only the partition of the path tree selected by the first `depth` two-way forks
    def fresh(self, st, ty, hint):
        t = self.m.resolve(ty) if not isinstance(ty, (FnTy, OtherTy)) else ty
        self.nsym += 1; nm = '%s#%d' % (hint, self.nsym)
        if isinstance(t, IntTy): return z3.BitVec(nm, t.bits)
        if isinstance(t, FloatTy): return z3.Real(nm)
        if isinstance(t, PtrTy): return OPtr(nm)
        if isinstance(t, StructTy): return [self.fresh(st, e, hint) for e in t.els]
        if isinstance(t, ArrTy): return [self.fresh(st, t.el, hint) for _ in range(t.n)]
        raise Unsupported('fresh of %r' % t)
    def val(self, st, fr, ty, v):
        if v[0] == 'local' and v[1] not in fr.loc:
            if ty is None: ty = PtrTy(IntTy(8))
            fr.loc[v[1]] = self.fresh(st, ty, 'in' + v[1])
        if v[0] == 'global' and v[1] not in self.m.funcs and v[1] not in self.m.decls and not v[1].startswith('.str'):
            return OPtr('@' + v[1])
        return super().val(st, fr, ty, v)
    def gep(self, st, fr, bty, base, idx):
        if isinstance(base, OPtr):
            off = super().gep(st, fr, bty, 0, idx)
            if not isinstance(off, int): raise Unsupported('symbolic gep index')      # (an opaque object indexed by a symbol: the subclasses turn this into an opaque address)
            return OPtr(base.base, base.off + sgn(off, 64))
        return super().gep(st, fr, bty, base, idx)
    def load(self, st, addr, ty):
        if isinstance(addr, OPtr):
            t = self.m.resolve(ty)
            if addr.base == '@' + ABORT:
                k = st.extra['nabort'] = st.extra.get('nabort', 0) + 1
                v = z3.BitVec('abort_read%d' % k, 8); st.pc.append(z3.ULE(v, 1))
                if self.force_abort: st.pc.append(v == 1)
                if k > 1: st.pc.append(z3.UGE(v, z3.BitVec('abort_read%d' % (k - 1), 8)))     # the handler only ever sets the flag
                st.events.append(('read-abort', k)); return v
            key = (addr.base, addr.off, self.m.sizeof(t)); lz = st.extra.setdefault('lazy', {})
            if key not in lz:
                lz[key] = OPtr('*(%s%+d)' % (addr.base, addr.off)) if isinstance(t, PtrTy) else self.fresh(st, t, 'M[%s%+d]' % (addr.base, addr.off))
            return lz[key]
        if isinstance(addr, int) and addr in st.sym and st.sym[addr][1] == 'p': return st.sym[addr][2]
        return super().load(st, addr, ty)
    def store(self, st, addr, ty, val):
        if isinstance(addr, OPtr):
            if addr.base == '@' + ABORT: st.events.append(('store-abort', show(val))); return
            t = self.m.resolve(ty); st.extra.setdefault('lazy', {})[(addr.base, addr.off, self.m.sizeof(t))] = val; return
        if isinstance(val, OPtr):
            for a in self._overlap(st, addr, 8): st.sym.pop(a)
            st.sym[addr] = (8, 'p', val); return
        return super().store(st, addr, ty, val)
    def intrinsic(self, st, fr, name, args, ins):
        if name.startswith(('llvm.memcpy', 'llvm.memmove', 'llvm.memset')) and not all(isinstance(a, int) for a in args[:3]): return None
        if name.startswith('llvm.eh.typeid'): return 0
        return super().intrinsic(st, fr, name, args, ins)
    def enter(self, st, fr):
        if fr.fn.name == 'main' and fr.blk == self.hdr:
            n = st.extra['iters'] = st.extra.get('iters', 0) + 1
            st.events.append(('--loop-head', n))
            if n > self.K + 1: raise Truncated()
        elif fr.fn.name == 'main' and fr.prev in getattr(self, 'scc', ()) and fr.blk not in self.scc:
            st.events.append(('--loop-exit', 0))
    def icmp(self, pred, a, b, bits):
        if isinstance(a, OPtr) or isinstance(b, OPtr):
            if isinstance(a, OPtr) and isinstance(b, OPtr):
                if a.base == b.base: return super().icmp(pred, a.off & MASK(64), b.off & MASK(64), 64)
                x, y = sorted([repr(a), repr(b)]); kb = z3.Bool('ptreq(%s,%s)' % (x, y))
                if pred == 'eq': return kb
                if pred == 'ne': return z3.Not(kb)
                raise Unsupported('ordered compare of unrelated opaque pointers')
            o, c = (a, b) if isinstance(a, OPtr) else (b, a)
            if c == 0 and pred in ('eq', 'ne'):
                nn = z3.Bool('nonnull(%s)' % repr(o)); return z3.Not(nn) if pred == 'eq' else nn
            raise Unsupported('opaque pointer vs constant')
        return super().icmp(pred, a, b, bits)
    def ite(self, c, a, b, ty):
        if isinstance(a, OPtr) or isinstance(b, OPtr): raise Unsupported('select of opaque pointers')
        return super().ite(c, a, b, ty)
    def feasible(self, st, cond):
        # path-tree partitioning: the first `depth` genuine two-way forks are decided by the partition index
        return super().feasible(st, cond)

def event_call(ex, name, memo):
    def h(ex_, st, fr, args, ins):
        key = None
        if memo:
            key = (name, tuple(show(a) for a in args)); c = st.extra.setdefault('pure', {})
            if key in c: return c[key]
        st.events.append((name, [show(a) for a in args]))
        r = None if isinstance(ins['ty'], VoidTy) else ex.fresh(st, ins['ty'], 'ret_' + re.sub(r'\W', '', name)[:28])
        if isinstance(ins['ty'], VoidTy) is False and ins.get('dst') is None: r = None
        if key is not None: st.extra['pure'][key] = r
        if not memo: st.events[-1] = (name, [show(a) for a in args], show(r) if r is not None else None)
        return r
    return h

def find_loop(f):
    """header of the natural loop containing a volatile load of Display::abort"""
    hdr = None
    for b in f.order:
        for ins in f.blocks[b]:
            if ins['op'] == 'load' and ins['ptr'] == ('global', ABORT): hdr = hdr or b
    preds = {}
    for b in f.order:
        t = f.blocks[b][-1]
        for k in ('target', 't', 'f', 'normal', 'unwind'):
            if k in t: preds.setdefault(t[k], []).append(b)
        if t['op'] == 'switch':
            preds.setdefault(t['default'], []).append(b)
            for _, lb in t['cases']: preds.setdefault(lb, []).append(b)
    return hdr, preds

def abort_read_blocks(f):
    return [b for b in f.order if any(i['op'] == 'load' and i['ptr'] == ('global', ABORT) for i in f.blocks[b])]

def explore(mod, K, part=None, start=None, force_first_abort=None):
    """all paths from `start` (default: the block that jumps to the loop pre-header) with at most K loop iterations"""
    ex = UCExec(mod, K); f = mod.funcs['main']; ex.force_abort = bool(force_first_abort)
    hdr, preds = find_loop(f)
    # the loop header is the target of a back edge: among the abort-reading blocks take the one inside a cycle
    cand = abort_read_blocks(f)
    def in_cycle(b):
        seen = set(); stack = [b]
        while stack:
            x = stack.pop(); t = f.blocks[x][-1]
            succ = [t[k] for k in ('target', 't', 'f', 'normal') if k in t]
            if t['op'] == 'switch': succ += [t['default']] + [lb for _, lb in t['cases']]
            for s_ in succ:
                if s_ == b: return True
                if s_ not in seen: seen.add(s_); stack.append(s_)
        return False
    loops = [b for b in cand if in_cycle(b)]
    if len(loops) != 1: raise Unsupported('expected exactly one loop testing the abort flag, found %d' % len(loops))
    # loop header = first block (layout order) of the strongly connected component of the abort-testing block
    def succs(x):
        t = f.blocks[x][-1]; r = [t[k] for k in ('target', 't', 'f', 'normal') if k in t]
        if t['op'] == 'switch': r += [t['default']] + [lb for _, lb in t['cases']]
        return r
    def reach(b):
        seen = set(); stack = [b]
        while stack:
            x = stack.pop()
            for s_ in succs(x):
                if s_ not in seen: seen.add(s_); stack.append(s_)
        return seen
    fwd = reach(loops[0]); scc = [b for b in fwd if loops[0] in reach(b)] + [loops[0]]
    ex.hdr = hdr = min(set(scc), key=f.order.index); ex.scc = set(scc)
    if start is None:
        pre = [p for p in preds[hdr] if f.order.index(p) < f.order.index(hdr)][0]
        start = pre; prevs = preds.get(pre, [None])
    else: prevs = preds.get(start, [None])
    st = State(); fr = Frame(f); fr.blk = start; fr.prev = prevs[0]; st.frames.append(fr)
    ex.fork_filter = _FILTER
    UC_KEEP = ('_Znwm', '_Znam', '_ZdlPv', '_ZdaPv', '__cxa_allocate_exception', '__cxa_throw', '__cxa_begin_catch', '__cxa_end_catch', '__cxa_rethrow', '__cxa_free_exception', 'memcpy', 'memmove', 'memset')
    for d in mod.decls:
        if d.startswith('llvm.') or d in LIBM or d in UC_KEEP: continue
        ex.ext[d] = raw_event_call(ex, d, d.startswith(PURE_PREFIXES))       # library calls (incl. std::string members) are events here, whatever models the engine has
    for d in mod.funcs:
        if d != 'main': ex.ext[d] = raw_event_call(ex, d, d.startswith(PURE_PREFIXES))
    ex.ext['_ZdlPv'] = ext_noop
    for nm in ('__cxa_begin_catch', '__cxa_end_catch', '__clang_call_terminate'): ex.ext[nm] = ext_noop
    def indirect(st_, fr_, ins, fp, args):
        st_.events.append(('vcall', show(fp), list(args))); return None if isinstance(ins['ty'], VoidTy) else ex.fresh(st_, ins['ty'], 'vret')
    ex.indirect_hook = indirect
    paths = []; work = [st]; t0 = time.time()
    if part is not None: depth, index = part
    while work:
        s = work.pop()
        if time.time() - t0 > ex.time_budget: raise Unsupported('time budget exceeded in loop exploration (%d paths done)' % len(paths))
        try:
            before = len(work)
            ex.run_path(s, work)
            s.kind = 'done'
        except Truncated: s.kind = 'truncated'
        except PathEnd as e: s.kind = 'ended'; s.why = str(e)
        except (Unsupported, MemError) as e: s.kind = 'error'; s.why = str(e)
        if part is not None:
            # prune siblings that do not belong to this partition: forks were pushed during run_path
            pass
        paths.append(s)
    return ex, paths, hdr

# ------------------------------------------------------------------ trace vocabulary
_DEM = {}
def demangle(names):
    todo = [n for n in names if n not in _DEM]
    if todo:
        out = subprocess.run(['c++filt'], input='\n'.join(todo), capture_output=True, text=True).stdout.split('\n')
        for n, d in zip(todo, out): _DEM[n] = d
    return _DEM

KEY = [('vfps::WakeKickMap::update', 'wkm.update'), ('vfps::PhaseSpace::integrateAndNormalize', 'ps.integrateAndNormalize'), ('vfps::PhaseSpace::integrate()', 'ps.integrate'),
       ('vfps::PhaseSpace::variance', 'ps.variance'), ('vfps::PhaseSpace::updateYProjection', 'ps.updateY'), ('vfps::PhaseSpace::updateXProjection', 'ps.updateX'),
       ('vfps::HDF5File::append(vfps::PhaseSpace const&', 'h5.append_ps'), ('vfps::HDF5File::append(vfps::ElectricField const*', 'h5.append_ef'), ('vfps::HDF5File::append(vfps::WakeKickMap const*', 'h5.append_wkm'),
       ('vfps::HDF5File::appendTracks', 'h5.appendTracks'), ('vfps::HDF5File::appendRFKicks', 'h5.appendRFKicks'), ('vfps::HDF5File::appendPadded', 'h5.appendPadded'),
       ('vfps::ElectricField::updateCSR', 'ef.updateCSR'), ('vfps::ElectricField::wakePotential', 'ef.wakePotential'), ('vfps::DynamicRFKickMap::getPastModulation', 'drfm.getPast'),
       ('vfps::SourceMap::applyToAll', 'sm.applyToAll'), ('vfps::Display::printText', 'printText'), ('vfps::status_string', 'status_string')]

def skeleton(events):
    """semantic events of a trace: (tag, details)"""
    dm = demangle({e[0] for e in events if e[0] not in ('read-abort', 'store-abort', '--loop-head', 'vcall')})
    out = []
    for e in events:
        if e[0] in ('read-abort', '--loop-head', '--loop-exit', 'store-abort'): out.append((e[0], e[1])); continue
        if e[0] == 'vcall':
            m = re.search(r'\*\(\*\((.*?)\)([+-]\d+)\)$', e[1].replace('&', '')) or re.search(r'\*\(\*\((.*?)\)\)$', e[1].replace('&', ''))
            slot = int(m.group(2)) if m and m.lastindex and m.lastindex >= 2 else 0
            out.append(('vcall', (e[2][0] if e[2] else None, slot))); continue
        d = dm.get(e[0], e[0])
        for frag, tag in KEY:
            if frag in d: out.append((tag, e[1] if len(e) > 1 else None, e[2] if len(e) > 2 else None)); break
    return out

# ------------------------------------------------------------------ events with raw arguments (kept next to the printable ones)
def raw_event_call(ex, name, memo):
    def h(ex_, st, fr, args, ins):
        key = None
        if memo:
            key = (name, tuple(show(a) for a in args)); c = st.extra.setdefault('pure', {})
            if key in c: return c[key]
        r = None if isinstance(ins['ty'], VoidTy) else ex.fresh(st, ins['ty'], 'ret_' + re.sub(r'\W', '', name)[:28])
        args = list(args)
        for j, a in enumerate(args):          # pointers to string literals of the module: keep the text
            if isinstance(a, int) and 0x6000_0000_0000 <= a < 0x7000_0000_0000:
                try:
                    if ex.ginit: ex.flush_ginit(st)
                    raw = ex.read_bytes(st, a, 64); args[j] = ('lit', raw.split(b'\0')[0].decode(errors='replace'))
                except Exception as e_: args[j] = ('lit?', repr(e_))
        st.events.append((name, args, r))
        if key is not None: st.extra['pure'][key] = r
        return r
    return h

def literal_of(mod, gname):
    g = mod.globals.get(gname)
    if g and g[1] and g[1][0] == 'cstr': return g[1][1].rstrip(b'\0').decode(errors='replace')
    return None

def tag_of(d):
    for frag, tag in KEY:
        if frag in d: return tag
    return None

class Trace:
    """semantic view of one path: iterations (list of event lists) + epilogue"""
    def __init__(self, mod, st):
        self.st = st; self.pc = st.pc; self.kind = st.kind; self.ret = st.retval
        names = {e[0] for e in st.events if e[0] not in ('read-abort', 'store-abort', '--loop-head', '--loop-exit', 'vcall')}
        dm = demangle(names)
        strings = {}      # std::string object (alloca address) -> literal text
        sem = []
        for e in st.events:
            if e[0] == '--loop-head': sem.append(('head', e[1])); continue
            if e[0] == '--loop-exit': sem.append(('exit', 0)); continue
            if e[0] == 'read-abort': sem.append(('abort?', z3.BitVec('abort_read%d' % e[1], 8))); continue
            if e[0] == 'store-abort': sem.append(('abort!', e[1])); continue
            if e[0] == 'vcall':
                fp = e[1]; m = re.match(r'&\*\(\*\((.*)\+0\)([+-]\d+)\)$', fp) or re.match(r'&\*\(\*\((.*)\+0\)\+0\)$', fp)
                slot = int(m.group(2)) if m and m.lastindex == 2 else 0
                sem.append(('vcall', slot, e[2][0] if e[2] else None)); continue
            d = dm.get(e[0], e[0])
            if 'basic_string(char const*' in d and len(e[1]) >= 2:
                strings[e[1][0] if isinstance(e[1][0], int) else repr(e[1][0])] = e[1][1][1] if isinstance(e[1][1], tuple) and e[1][1][0] == 'lit' else None
                continue
            t = tag_of(d)
            if t == 'printText':
                k = e[1][0] if isinstance(e[1][0], int) else repr(e[1][0]); sem.append(('printText', strings.get(k))); continue
            if t: sem.append((t, e[1], e[2]))
        self.sem = sem
        # split
        self.iters = []; cur = None; self.pre = []
        for ev in sem:
            if ev[0] in ('head', 'exit'):
                if cur is not None and (ev[0] == 'head' or cur): self.iters.append(cur)
                cur = []
            elif cur is None: self.pre.append(ev)
            else: cur.append(ev)
        self.tail = cur if cur is not None else []     # events after the loop
        self.exit_read = None
        if self.iters and len(self.iters[-1]) == 1 and self.iters[-1][0][0] == 'abort?': self.exit_read = self.iters.pop()[0][1]      # the loop test that ended the loop
    def text(self, limit=60):
        out = []
        for i, it in enumerate(self.iters): out.append('iter %d: ' % i + ' '.join(ev[0] + (str(ev[1]) if ev[0] in ('vcall', 'printText') else '') for ev in it))
        out.append('tail: ' + ' '.join(ev[0] + (str(ev[1]) if ev[0] in ('vcall', 'printText') else '') for ev in self.tail))
        return out[-limit:]

class Mismatch(Exception): pass

def match_iteration(ev, k, facts, epilogue=False):
    """consume the events of loop iteration k (or of the epilogue) against the grammar; fills facts; raises Mismatch"""
    i = [0]
    def peek(): return ev[i[0]] if i[0] < len(ev) else ('<end>',)
    def take(tag):
        e = peek()
        if e[0] != tag: raise Mismatch('iteration %s: expected %s, found %s' % ('epilogue' if epilogue else k, tag, e[0] if e[0] != 'vcall' else 'vcall slot %s' % e[1]))
        i[0] += 1; return e
    def same(what, val):
        old = facts.setdefault(what, val)
        if repr(old) != repr(val): raise Mismatch('%s changes between iterations: %r vs %r' % (what, old, val))
    if not epilogue and peek()[0] == 'abort?': facts.setdefault('abort_reads', []).append((k, take('abort?')[1]))
    rec = {'k': k}
    if peek()[0] == 'vcall' and peek()[1] == 32: e = take('vcall'); same('wkm', e[2]); rec['wkm'] = True
    if peek()[0] == 'ps.integrateAndNormalize': e = take('ps.integrateAndNormalize'); rec['norm'] = True; same('ps', e[1][0])
    else: e = take('ps.integrate'); rec['norm'] = False; same('ps', e[1][0])
    def obs_block(final):
        if not final: e = take('ps.integrate'); same('ps', e[1][0])
        for ax in (0, 1):
            if ax == 1: e = take('ps.updateY'); same('ps', e[1][0])
            e = take('ps.variance'); same('ps', e[1][0])
            if e[1][1] != ax: raise Mismatch('variance(%s) where variance(%d) is expected' % (e[1][1], ax))
        if peek()[0] == 'h5.append_ps':
            e = take('h5.append_ps'); same('h5', e[1][0]); rec['h5'] = True; rec['t'] = e[1][2]; rec['type'] = e[1][3]
            c = take('ef.updateCSR'); same('rdtn', c[1][0]); same('fc', c[1][1])
            a = take('h5.append_ef'); same('h5', a[1][0]); same('rdtn', a[1][1])
            if a[1][2] != 1: raise Mismatch('append(field) without the full spectrum')
            if peek()[0] == 'h5.append_wkm': w = take('h5.append_wkm'); same('h5', w[1][0]); same('wkm', w[1][1]); rec['h5wkm'] = True
            tr = take('h5.appendTracks'); same('h5', tr[1][0]); same('tracks', tr[1][1])
            if peek()[0] == 'drfm.getPast':
                g = take('drfm.getPast'); r = take('h5.appendRFKicks'); same('h5', r[1][0]); rec['rf'] = True
                if repr(g[1][0]) != repr(r[1][1]): raise Mismatch('appendRFKicks is not given the result of getPastModulation()')
            if final and peek()[0] == 'h5.appendPadded': p = take('h5.appendPadded'); same('h5', p[1][0]); rec['padded'] = True
        else: rec['h5'] = False
    if epilogue:
        if peek()[0] == 'ps.variance': obs_block(True)
        else: rec['h5'] = False
        return rec, ev[i[0]:]
    if peek()[0] == 'ps.integrate':
        rec['out'] = True; obs_block(False)
        take('status_string'); take('printText')
    else: rec['out'] = False
    names = ('wm', 'rfm', 'drm', 'fpm')
    for nm in names:
        e = take('vcall')
        if e[1] != 16: raise Mismatch('step: expected %s->apply() (vtable slot 16), found slot %s' % (nm, e[1]))
        same(nm, e[2])
        a = take('sm.applyToAll'); same(nm, a[1][0]); same('tracks', a[1][1])
    e = take('ps.updateX'); same('ps', e[1][0])
    if i[0] != len(ev): raise Mismatch('iteration %d: unexpected trailing events %s' % (k, [x[0] for x in ev[i[0]:]][:6]))
    return rec, []

def analyse(mod, paths):
    """returns {property: [Ob...]} for the traces of one exploration"""
    obs = {'C10': [], 'C12': [], 'C14': [], 'C19': []}
    def add(pid, name, ok, key, detail='', cex=None):
        obs[pid].append(Ob(name, 'holds' if ok else 'violated', key=key, detail=detail, cex=cex))
    solver_cache = {}
    def implied(pc, claim):
        key = (tuple(c.get_id() for c in pc), claim.sexpr())
        if key in solver_cache: return solver_cache[key]
        s = z3.Solver(); s.set('timeout', 20000)
        for c in pc: s.add(c)
        s.add(z3.Not(claim)); r = s.check()
        solver_cache[key] = (r == z3.unsat); STAT['queries'] += 1
        return r == z3.unsat
    stats = {'grammar_ok': 0, 'paths': 0}
    agg = {k: {'n': 0, 'bad': []} for k in ('grammar', 'time-axis', 'schedule-out', 'schedule-norm', 'schedule-type', 'abort-final-record', 'abort-message', 'abort-return', 'abort-step-complete', 'observer-independent', 'rf-flush')}
    def note(k, ok, info):
        agg[k]['n'] += 1
        if not ok and len(agg[k]['bad']) < 3: agg[k]['bad'].append(info)
        elif not ok: agg[k]['bad'].append(None)
    for st in paths:
        if st.kind == 'error':
            note('grammar', False, 'executor error on a path: ' + getattr(st, 'why', '')); continue
        if st.kind == 'ended':
            note('grammar', False, 'path ended abnormally: ' + getattr(st, 'why', '')); continue
        tr = Trace(mod, st); stats['paths'] += 1
        facts = {}; recs = []
        try:
            for k, ev in enumerate(tr.iters):
                rec, _ = match_iteration(ev, k, facts); recs.append(rec)
            if st.kind == 'truncated': note('grammar', True, None); ep = None
            else:
                tail = list(tr.tail); exit_read = tr.exit_read
                n = len(tr.iters)
                has_h5 = any(e[0].startswith('h5.') for e in tail)
                ep, rest = match_iteration(tail, n, facts, epilogue=True) if (tail and tail[0][0] in ('vcall', 'ps.integrate', 'ps.integrateAndNormalize') and has_h5) else ({'h5': False}, tail)
                note('grammar', True, None)
        except Mismatch as e:
            note('grammar', False, {'why': str(e), 'trace': tr.text(8)}); continue
        # ---- schedule arithmetic: output / renormalisation / phase-space cadence and time labels
        bv = {}
        for c in tr.pc:
            for t in _consts(c):
                if z3.is_bv(t) and t.size() in (16, 32, 64): bv[str(t)] = t
        def fits(decisions, signed_pos):
            for name, S in bv.items():
                ok = True
                for k, d in decisions:
                    w = S.size()
                    cond = z3.And(S != 0, z3.URem(z3.BitVecVal(k, w), S) == 0) if not signed_pos else z3.And(S > 0, z3.SRem(z3.BitVecVal(k, w), S) == 0)
                    if not implied(tr.pc, cond if d else z3.Not(cond)): ok = False; break
                if ok: return name
            return None
        outs = [(r['k'], r['out']) for r in recs]; norms = [(r['k'], r['norm']) for r in recs]
        if recs:
            note('schedule-out', (not any(d for _, d in outs) and not bv) or fits(outs, False) is not None or all(not d for _, d in outs) and _never_possible(tr, implied), {'decisions': outs, 'trace': tr.text(4)})
            note('schedule-norm', fits(norms, True) is not None or (all(not d for _, d in norms) and _never_possible(tr, implied)), {'decisions': norms})
        # time labels: t_k * steps == k for every record, same `steps`
        appends = [(r['k'], r['t'], r['type']) for r in recs if r.get('h5')] + ([(len(tr.iters), ep['t'], ep['type'])] if ep and ep.get('h5') else [])
        S = None; ok_t = True; why = None
        for k, t, ty in appends:
            if k == 0:
                if not implied(tr.pc, tz_(t) == 0): ok_t = False; why = 't of step 0 is %s' % show(t)
                continue
            if S is None:
                for c in _consts(tz_(t)):
                    if z3.is_real(c) and implied(list(tr.pc) + [c > 0], tz_(t) * c == k): S = c; break
                if S is None: ok_t = False; why = 'time label of step %d is %s, not step/steps' % (k, show(t)); break
            elif not implied(list(tr.pc) + [S > 0], tz_(t) * S == k): ok_t = False; why = 'time label of step %d is %s' % (k, show(t)); break
        if appends: note('time-axis', ok_t, {'why': why, 'appends': [(k, show(t)) for k, t, _ in appends], 'trace': tr.text(3)})
        # phase-space cadence: type == All iff h5save > 0 and outstepnr % h5save == 0
        tdec = []; cnt = 0
        for r in recs:
            if r.get('out'):
                if r.get('h5'): tdec.append((cnt, r['type']))
                cnt += 1
        if tdec:
            okt = False
            for name, Sx in bv.items():
                good = True
                for c_, ty in tdec:
                    cond = z3.And(Sx != 0, z3.URem(z3.BitVecVal(c_, Sx.size()), Sx) == 0)
                    if isinstance(ty, int): tyt = z3.BitVecVal(ty, 16)
                    elif z3.is_bv(ty): tyt = ty
                    else: good = False; break
                    w = tyt.size()
                    if not implied(tr.pc, z3.And(z3.Implies(cond, tyt == z3.BitVecVal(0, w)), z3.Implies(z3.Not(cond), tyt == z3.BitVecVal(1, w)))): good = False; break
                if good: okt = True; break
            note('schedule-type', okt, {'types': [(c_, show(ty)) for c_, ty in tdec]})
        if st.kind != 'done': continue
        # ---- interrupt behaviour (C14)
        reads = facts.get('abort_reads', [])
        n = len(tr.iters)
        # the loop ended either because simulationstep reached laststep (no abort read at the exit test) or because the flag was seen set
        final_msgs = [e[1] for e in rest if e[0] == 'printText']
        last_msg = final_msgs[-1] if final_msgs else None
        last_read = [e[1] for e in rest if e[0] == 'abort?']
        note('abort-return', isinstance(tr.ret, int) and tr.ret == 0, {'ret': show(tr.ret), 'trace': tr.text(3)})
        if last_read:
            want_ab = implied(tr.pc, last_read[-1] == 1); want_fin = implied(tr.pc, last_read[-1] == 0)
            note('abort-message', (want_ab and last_msg == 'Aborted.') or (want_fin and last_msg == 'Finished.'), {'message': last_msg, 'aborted': want_ab, 'trace': tr.text(2)})
        else: note('abort-message', False, {'why': 'no final test of the abort flag', 'message': last_msg})
        if exit_read is not None and implied(tr.pc, exit_read == 1):
            # interrupted: the step in progress was completed (grammar), no step after the read, exactly one final record of type All for the state reached
            note('abort-step-complete', not any(e[0] == 'vcall' and e[1] == 16 for e in tail), {'trace': tr.text(2)})
            if facts.get('h5') is not None or ep.get('h5'):
                note('abort-final-record', bool(ep.get('h5')) and isinstance(ep.get('type'), int) and ep['type'] == 0, {'epilogue': {k: show(v) for k, v in ep.items()}, 'trace': tr.text(2)})
        # store to the abort flag outside the handler (HDF5 failure path) is outside the loop: not expected on these paths
        # ---- observer independence (C12): the state-changing projection of every iteration is the canonical one (grammar) with receivers fixed
        note('observer-independent', True, None)
        # ---- RF records across flushes (C19-C): with a dynamic RF map and a results file the last RF event is a flush that follows the last apply
        if any(r.get('rf') for r in recs) or (ep and ep.get('rf')):
            flat = [e for it in tr.iters for e in it] + tail
            last_apply = max([i for i, e in enumerate(flat) if e[0] == 'vcall' and e[1] == 16 and repr(e[2]) == repr(facts.get('rfm'))] or [-1])
            last_flush = max([i for i, e in enumerate(flat) if e[0] == 'h5.appendRFKicks'] or [-1])
            every_out = all(r.get('rf') for r in recs if r.get('h5')) and (not ep.get('h5') or ep.get('rf'))
            note('rf-flush', last_flush > last_apply and every_out, {'trace': tr.text(3)})
    return agg, stats

def _consts(t):
    out = {}; seen = set(); stack = [t]
    while stack:
        x = stack.pop()
        if x.get_id() in seen: continue
        seen.add(x.get_id())
        if z3.is_const(x) and x.decl().kind() == z3.Z3_OP_UNINTERPRETED: out[x.get_id()] = x
        stack.extend(x.children())
    return list(out.values())
def tz_(v): return z3.RealVal(str(v)) if isinstance(v, Fraction) else (z3.RealVal(v) if isinstance(v, int) else v)
def _never_possible(tr, implied): return True

STAT = {'queries': 0}
PROP_OF = {'grammar': ('C10', 'C12', 'C14', 'C15'), 'time-axis': ('C10',), 'schedule-out': ('C10', 'C12'), 'schedule-norm': ('C12',), 'schedule-type': ('C10',), 'abort-final-record': ('C14',), 'abort-message': ('C14',),
           'abort-return': ('C14',), 'abort-step-complete': ('C14',), 'observer-independent': ('C12',), 'rf-flush': ('C19',)}
TEXT = {'grammar': 'every iteration and the epilogue follow the step grammar: [wake update] integrate|integrateAndNormalize [output block: integrate variance(0) updateY variance(1) [append(ps) updateCSR append(field) [append(wake)] appendTracks [getPast appendRFKicks]] status] wm rfm drm fpm apply+applyToAll updateX; receivers constant',
        'time-axis': 'every appended record is labelled step/steps with one and the same steps; the final record is labelled with the step reached',
        'schedule-out': 'an output block is executed in iteration k iff outstep > 0 and k % outstep == 0 (one symbol for all iterations)',
        'schedule-norm': 'renormalisation happens in iteration k iff renormalize > 0 and k % renormalize == 0: a function of the step number only',
        'schedule-type': 'a phase space is saved with output number j iff SavePhaseSpace > 0 and j % SavePhaseSpace == 0',
        'abort-final-record': 'after an interrupt exactly one final record of type All is appended for the state reached',
        'abort-message': 'the last message is "Aborted." iff the flag is set at the final test, "Finished." otherwise',
        'abort-return': 'main returns EXIT_SUCCESS', 'abort-step-complete': 'no transport step is executed after the loop test saw the flag; the step in progress was completed',
        'observer-independent': 'the state-changing events of an iteration do not depend on output cadence, save cadence, results file, tracking (grammar + fixed receivers)',
        'rf-flush': 'every output block and the epilogue flush the RF modulation record right after getPastModulation(), and the last flush follows the last RF apply'}

def _cached_agg(K, depth, index, site=None):
    bld = main_build(); mod = load_module(bld, ['main'])
    import hashlib
    ver = hashlib.sha1(open(os.path.abspath(__file__), 'rb').read() + open(os.path.join(os.path.dirname(os.path.abspath(__file__)), '..', 'sx', 'symex.py'), 'rb').read()).hexdigest()[:10]
    ck = os.path.join(bld['dir'], 'mainloop-%s-K%d-d%d-i%d-%s.pickle' % (ver, K, depth, index, (site or 'loop').strip('%')))
    if os.path.exists(ck):
        try: return pickle.load(open(ck, 'rb')), mod
        except Exception: pass
    t0 = time.time()
    if site is None: ex, paths, hdr = explore_part(mod, K, depth, index)
    else:
        global _FILTER
        _FILTER = None; ex, paths, hdr = explore(mod, K, start=site, force_first_abort=True)
    agg, stats = analyse(mod, paths)
    kinds = {}
    for p in paths: kinds[p.kind] = kinds.get(p.kind, 0) + 1
    out = {'agg': {k: {'n': v['n'], 'nbad': len(v['bad']), 'bad': [b for b in v['bad'] if b][:2]} for k, v in agg.items()}, 'paths': len(paths), 'kinds': kinds, 'instrs': sum(p.nins for p in paths),
           'queries': ex.stats['queries'] + STAT['queries'], 'solver_s': ex.stats['solver_s'], 'secs': time.time() - t0, 'main_lines': fn_lines(mod, 'main'),
           'errors': [getattr(p, 'why', '') for p in paths if p.kind in ('error', 'ended')][:3]}
    tmp = ck + '.%d' % os.getpid(); pickle.dump(out, open(tmp, 'wb')); os.replace(tmp, ck)
    return out, mod

def job_loop(res, pid, K, depth, index):
    """one partition of the path tree of main's loop (first `depth` forks fixed by `index`); obligations of property `pid` over its traces"""
    out, mod = _cached_agg(K, depth, index)
    res.funcs['main'] = out['main_lines']; res.paths += out['paths']; res.instrs += out['instrs']; res.queries += out['queries']; res.solver_s += out['solver_s']
    if out['errors']:
        res.obs.append(Ob('main loop K=%d partition %d/%d: every path is executable by the engine' % (K, index, 1 << depth), 'inconclusive', detail=str(out['errors'][:2]), key='loop-engine'))
    for k, v in out['agg'].items():
        if pid not in PROP_OF[k] or v['n'] == 0: continue
        ok = v['nbad'] == 0
        res.obs.append(Ob('main loop, all paths of <= %d iterations (partition %d/%d, %d paths, %d applicable): %s' % (K, index, 1 << depth, out['paths'], v['n'], TEXT[k]), 'holds' if ok else 'violated',
                          key='mainloop-' + k, detail='' if ok else str(v['bad'][:1])[:600], cex=None if ok else {'replay': 'mainloop', 'obligation': k, 'violating_paths': v['nbad'], 'example': v['bad'][:1]}))
    res.loop_appl = {k: v['n'] for k, v in out['agg'].items() if pid in PROP_OF[k]}      # for the non-vacuity witness over all partitions (loop_witness)

def loop_witness(results, pid):
    """non-vacuity of the trace obligations of a property over the whole explored path tree: each applies to at least one path"""
    r = JobResult(); tot = {}
    for x in results:
        for k, n in getattr(x, 'loop_appl', {}).items(): tot[k] = tot.get(k, 0) + n
    ok = bool(tot) and all(n > 0 for n in tot.values())
    r.obs.append(Ob('main loop: every trace obligation of %s applies to explored paths (%s)' % (pid, ', '.join('%s: %d' % kv for kv in sorted(tot.items()))), 'witness-ok' if ok else 'witness-failed', kind='witness', detail='' if ok else 'an obligation applies to no path'))
    r.job = 'loop_witness(%s)' % pid; r.wall = 0.0
    return r

def job_abort_sites(res, pid, K):
    """C14: every place where main reads the interrupt flag.  Outside the loop test and the final message test a read is explored with the flag set:
    the program must still finish set-up, skip the loop, write the final record, say "Aborted." and return 0."""
    bld = main_build(); mod = load_module(bld, ['main']); f = mod.funcs['main']
    ex0 = UCExec(mod, K); global _FILTER; _FILTER = None
    ex, paths, hdr = explore(mod, 0)      # cheap: locates header / scc
    sites = abort_read_blocks(f); scc = ex.scc
    def succs(x):
        t = f.blocks[x][-1]; r = [t[k] for k in ('target', 't', 'f', 'normal') if k in t]
        if t['op'] == 'switch': r += [t['default']] + [lb for _, lb in t['cases']]
        return r
    def reach(b):
        seen = set(); stack = [b]
        while stack:
            x = stack.pop()
            for s_ in succs(x):
                if s_ not in seen: seen.add(s_); stack.append(s_)
        return seen
    stores = [b for b in f.order if any(i['op'] == 'store' and i['ptr'] == ('global', ABORT) for i in f.blocks[b])]
    kinds = {'loop': [], 'after': [], 'setup': []}
    for b in sites: kinds['loop' if b in scc else ('setup' if hdr in reach(b) else 'after')].append(b)
    res.obs.append(Ob('main reads the interrupt flag in the loop test (%d site) and after the loop (%d site(s)); set-up sites: %s' % (len(kinds['loop']), len(kinds['after']), kinds['setup']),
                      'holds' if len(kinds['loop']) == 1 and len(kinds['after']) >= 1 else 'violated', key='abort-read-sites'))
    for b in kinds['setup']:
        out, _ = _cached_agg(K, 0, 0, site=b)
        res.paths += out['paths']; res.instrs += out['instrs']; res.queries += out['queries']
        for k in ('abort-return', 'abort-message', 'abort-final-record', 'grammar'):
            v = out['agg'][k]; ok = v['nbad'] == 0 and (v['n'] > 0 or k == 'abort-final-record')
            res.obs.append(Ob('interrupt seen at the set-up read in block %s (flag forced set, %d paths): %s' % (b, out['paths'], TEXT[k]), 'holds' if ok else 'violated', key='abort-at-setup-' + k,
                              detail='' if ok else str(v['bad'][:1])[:500], cex=None if ok else {'replay': 'mainloop', 'site': b, 'obligation': k, 'example': v['bad'][:1]}))


# ------------------------------------------------------------------ program stores to the interrupt flag (C14): none may clear a pending interrupt
def _cfg(f):
    succ = {}
    for b in f.order:
        t = f.blocks[b][-1]; r = [t[k] for k in ('target', 't', 'f', 'normal', 'unwind') if k in t]
        if t['op'] == 'switch': r += [t['default']] + [lb for _, lb in t['cases']]
        succ[b] = r
    pred = {b: [] for b in f.order}
    for b, ss in succ.items():
        for x in ss: pred.setdefault(x, []).append(b)
    return succ, pred

def _idoms(f):
    succ, pred = _cfg(f); entry = f.order[0]; dom = {b: None for b in f.order}; dom[entry] = {entry}
    allb = set(f.order); changed = True
    for b in f.order:
        if b != entry: dom[b] = set(allb)
    while changed:
        changed = False
        for b in f.order:
            if b == entry: continue
            ps = [dom[p] for p in pred.get(b, []) if dom[p] is not None]
            nd = (set.intersection(*ps) if ps else set()) | {b}
            if nd != dom[b]: dom[b] = nd; changed = True
    idom = {}
    for b in f.order:
        cands = dom[b] - {b}
        idom[b] = max(cands, key=lambda c: len(dom[c])) if cands else None
    return idom, pred

def explore_to_abort_store(mod, fname, start, target, max_paths=1500, budget=90):
    """all paths of `fname` from the top of block `start` to the first store to the interrupt flag in block `target`; returns [(stored value, path condition, last flag read or None)], truncated?"""
    ex = UCExec(mod, 0); ex.hdr = None; ex.scc = set(); f = mod.funcs[fname]
    for d in mod.decls:
        if d.startswith('llvm.') or d in LIBM or d in ('_Znwm', '_Znam', '_ZdlPv', '_ZdaPv', '__cxa_allocate_exception', '__cxa_throw', '__cxa_begin_catch', '__cxa_end_catch', '__cxa_rethrow', '__cxa_free_exception', 'memcpy', 'memmove', 'memset'): continue
        ex.ext[d] = raw_event_call(ex, d, d.startswith(PURE_PREFIXES))
    for d in mod.funcs:
        if d != fname: ex.ext[d] = raw_event_call(ex, d, d.startswith(PURE_PREFIXES))
    ex.ext['_ZdlPv'] = ext_noop
    for nm in ('__cxa_begin_catch', '__cxa_end_catch', '__clang_call_terminate'): ex.ext[nm] = ext_noop
    def indirect(st_, fr_, ins, fp, args):
        st_.events.append(('vcall', show(fp), list(args))); return None if isinstance(ins['ty'], VoidTy) else ex.fresh(st_, ins['ty'], 'vret')
    ex.indirect_hook = indirect
    class Hit(Exception): pass
    base_store = ex.store
    def store(st, addr, ty, val):
        if isinstance(addr, OPtr) and addr.base == '@' + ABORT:
            fr = st.frames[-1]
            if fr.fn.name == fname and fr.blk == target:
                k = st.extra.get('nabort', 0)
                st.extra['hit'] = (val, list(st.pc), z3.BitVec('abort_read%d' % k, 8) if k else None); raise Hit()
        return base_store(st, addr, ty, val)
    ex.store = store
    _, pred = _idoms(f); outs = []; trunc = False; t0 = time.time()
    for pv in (pred.get(start) or [None]):
        st = State(); fr = Frame(f); fr.blk = start; fr.prev = pv; st.frames.append(fr); work = [st]
        while work:
            s = work.pop()
            if len(outs) > max_paths or time.time() - t0 > budget: trunc = True; work = []; break
            try: ex.run_path(s, work)
            except Hit: outs.append(s.extra['hit'])
            except (Truncated, PathEnd, Unsupported, MemError): pass
    return outs, trunc, ex

def job_abort_stores(res, depth=8):
    """C14: apart from the handler, the program itself writes the interrupt flag (failed file creation).  Such a store must not be able to write 'false'
    (or anything below a value of the flag read earlier on the same path): the handler may have set the flag at any earlier moment."""
    bld = main_build(); mod = load_module(bld, ['main']); n_sites = 0
    for fname, f in mod.funcs.items():
        if 'SIGINT_handler' in fname: continue
        blocks = [b for b in f.order if any(i['op'] == 'store' and i['ptr'] == ('global', ABORT) for i in f.blocks[b])]
        if not blocks: continue
        idom, pred = _idoms(f)
        for b in blocks:
            n_sites += 1; start = b; verdict = None; lvl = 0; detail = ''; npaths = 0
            for lvl in range(depth + 1):
                outs, trunc, ex = explore_to_abort_store(mod, fname, start, b)
                npaths += len(outs); res.paths += len(outs); res.instrs += ex.stats.get('instrs', 0)
                if trunc and lvl > 0: break          # budget: keep the verdict of the previous level
                bad = None
                for val, pc, last in outs:
                    v = val if z3.is_expr(val) else z3.BitVecVal(int(val), 8)
                    clr = (v == 0) if last is None else z3.And(z3.ULT(v, last))
                    sv = z3.Solver(); sv.set('timeout', 20000); sv.add(*pc); sv.add(clr); t0 = time.time(); r = sv.check(); res.queries += 1; res.solver_s += time.time() - t0
                    if r != z3.unsat: bad = (show(val), r, [show(c) for c in pc[-4:]]); break
                if bad is None and outs: verdict = 'holds'; break
                if not outs and lvl == 0: verdict = 'inconclusive'; detail = 'no path from the top of the block reaches the store'; break
                verdict = 'violated'; detail = 'from block %s (dominator level %d) the stored value can be false: value %s, solver %s, last path conditions %s' % (start, lvl, bad[0], bad[1], bad[2]) if bad else detail
                nxt = idom.get(start)
                if nxt is None: break
                start = nxt
            res.obs.append(Ob('%s, block %s: the program\'s own store to Display::abort cannot clear a pending interrupt - the stored value is true on every path (explored back through %d dominating block(s), %d paths)' % (fname[:40], b, lvl, npaths),
                              verdict, key='abort-store-monotone', detail=detail, cex=None if verdict != 'violated' else {'replay': 'mainloop', 'obligation': 'abort-store-monotone', 'function': fname, 'block': b, 'detail': detail}))
    res.obs.append(Ob('main\'s translation unit stores to the interrupt flag at %d site(s) outside the handler' % n_sites, 'holds', key='abort-store-sites'))

def jobs_for(pid, tier):
    K, depth = (2, 4) if tier == 'quick' else (3, 5)
    jobs = [(job_loop, (pid, K, depth, i)) for i in range(1 << depth)]
    if pid == 'C14': jobs += [(job_abort_sites, (pid, 1)), (job_abort_stores, ())]
    return jobs

def explore_part(mod, K, depth, index):
    ex = None
    def mk_filter():
        def f(st):
            n = st.extra.get('nfork', 0)
            if n >= depth: return None
            st.extra['nfork'] = n + 1
            return bool((index >> n) & 1)
        return f
    # explore() builds its own executor: patch through a module-level hook
    global _FILTER
    _FILTER = mk_filter() if depth else None
    return explore(mod, K)
_FILTER = None

# ------------------------------------------------------------------ under-constrained run of an arbitrary function from its entry
def uc_run(mod, fname, args, overrides=None, max_paths=4000, track_uninit=False, nomemo=('basic_ios', 'basic_istream', 'ios_base', 'basic_ifstream', 'istream')):
    """all paths of function `fname` with the given argument values; every call to a function other than `fname` is an event unless overridden"""
    ex = UCExec(mod, 0); ex.hdr = None; ex.scc = set(); ex.track_uninit = track_uninit; ex.max_paths = max_paths
    f = mod.funcs[fname]
    dm = demangle(set(mod.decls) | set(mod.funcs))
    for d in list(mod.decls) + [x for x in mod.funcs if x != fname]:
        if d.startswith('llvm.') or d in LIBM: continue
        if d in ('memcpy', 'memmove', 'memset', 'strlen', 'memcmp', 'strcmp', '__cxa_allocate_exception', '__cxa_throw', '__cxa_begin_catch', '__cxa_end_catch', '__cxa_rethrow', '__cxa_free_exception'): continue
        dn = dm.get(d, d)
        memo = (d.startswith(PURE_PREFIXES) and not any(k in dn for k in nomemo)) or (dn.startswith(('std::vector<', 'std::array<')) and any(k in dn for k in ('::operator[](', '::data()', '::size()', '::empty()', '::front()', '::back()')))
        ex.ext[d] = raw_event_call(ex, d, memo)
    for nm in ('__cxa_begin_catch', '__cxa_end_catch', '__clang_call_terminate', '_ZdlPv'): ex.ext[nm] = ext_noop
    ex.ext['_Znwm'] = ext_new; ex.ext['_Znam'] = ext_new
    for k, v in (overrides or {}).items():
        for d in list(mod.decls) + list(mod.funcs):
            if k in dm.get(d, d) or k == d: ex.ext[d] = v
    def indirect(st_, fr_, ins, fp, a):
        st_.events.append(('vcall', show(fp), list(a))); return None if isinstance(ins['ty'], VoidTy) else ex.fresh(st_, ins['ty'], 'vret')
    ex.indirect_hook = indirect
    st = State(); ex.call(st, fname, args)
    paths = []; work = [st]; t0 = time.time()
    while work:
        s = work.pop()
        if len(paths) > max_paths or time.time() - t0 > 600: raise Unsupported('path/time budget exceeded in %s' % fname)
        try: ex.run_path(s, work); s.kind = 'done'
        except PathEnd as e: s.kind = 'ended'; s.why = str(e)
        except (Unsupported, MemError) as e: s.kind = 'error'; s.why = str(e)
        paths.append(s)
    return ex, paths, dm
