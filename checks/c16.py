"""C16 - impedance models are well-formed, passive, correctly scaled; the factory returns the sum of the selected contributions."""
import sys, os
sys.path.insert(0, os.path.dirname(os.path.abspath(__file__)))
from maps_common import *

IMP_TUS = ['src/Z/Impedance.cpp', 'src/Z/FreeSpaceCSR.cpp', 'src/Z/ParallelPlatesCSR.cpp', 'src/Z/ResistiveWall.cpp', 'src/Z/CollimatorImpedance.cpp', 'src/Z/ConstImpedance.cpp',
           'src/Z/ImpedanceFactory.cpp', 'src/IO/Display.cpp', 'src/HelperFunctions.cpp']
IMP_MODS = ['harness', 'Impedance', 'FreeSpaceCSR', 'ParallelPlatesCSR', 'ResistiveWall', 'CollimatorImpedance', 'ConstImpedance', 'ImpedanceFactory']
PP_CALC = '_ZN4vfps17ParallelPlatesCSR15__calcImpedanceEmffd'
C_LIGHT = Fraction(2.99792458e8); Z0 = Fraction(376.730313461); PI = Fraction(math.pi)
def imp_build(): return B.build('h_imp.cpp', IMP_TUS)

def apps_of(terms, names):
    out = {}; seen = set(); stack = list(terms)
    while stack:
        t = stack.pop()
        if t.get_id() in seen: continue
        seen.add(t.get_id())
        if z3.is_app(t) and t.decl().name() in names: out[t.get_id()] = t
        stack.extend(t.children())
    return list(out.values())

def libm_axioms(terms):
    ax = []
    for a in apps_of(terms, ('uf_pow', 'uf_sqrt', 'uf_log', 'uf_cbrt')):
        nm = a.decl().name()
        if nm in ('uf_pow', 'uf_sqrt'): ax.append(a >= 0)
        if nm == 'uf_pow': ax.append(z3.Implies(a.arg(0) > 0, a > 0))
        if nm == 'uf_log': ax += [z3.Implies(a.arg(0) > 1, a > 0), z3.Implies(a.arg(0) == 1, a == 0)]
    return ax

def read_z(ex, st, ptr, n): return [(ex.dom.z(ex.load(st, ptr + 8 * i, F32)), ex.dom.z(ex.load(st, ptr + 8 * i + 4, F32))) for i in range(n)]

def shape_obligations(res, name, n, z, size, pc, upper_from, extra_ax=()):
    """length n, zeros above half the length, non-negative real part"""
    res.obs.append(Ob('%s n=%d: returns exactly %d samples (got %s)' % (name, n, n, size), 'holds' if size == n else 'violated', key='%s-length' % name))
    if size != n: return
    prove(res, '%s n=%d: samples %d..%d are exactly zero (negative-frequency half)' % (name, n, upper_from, n - 1), pc, z3.Or(*([c != 0 for k in range(upper_from, n) for c in z[k]] or [z3.BoolVal(False)])), key='%s-upper-zero' % name)
    terms = [c for zz in z for c in zz]
    prove(res, '%s n=%d: real part >= 0 at every sample for all parameters (pow, sqrt >= 0; log x > 0 for x > 1)' % (name, n), list(pc) + libm_axioms(terms) + list(extra_ax), z3.Or(*[zz[0] < 0 for zz in z]), key='%s-passive' % name)

def job_models(res, n):
    bld = imp_build(); mod = load_module(bld, IMP_MODS)
    snap, R, pre = take_snapshot(bld, 'n%d' % n, [n])
    validate(res, mod, snap, pre)
    ex = Exec(mod, snap, RealDom()); st = State()
    frev, fmax, L, s, xi, b = [z3.Real(x) for x in ('frev', 'fmax', 'L', 's', 'xi', 'b')]
    st.pc += [frev > 1000, fmax > frev, L > 0, s > 0, xi >= -1, b > 0]
    upow = ex.dom.uf('uf_pow', 2); usq = ex.dom.uf('uf_sqrt', 1); ulog = ex.dom.uf('uf_log', 1)
    # ---- free space CSR
    s1 = ex.run1(st.fork(), 'e_freespace', [n, frev, fmax]); v = s1.retval
    size = ex.run1(s1, 'e_vsize', [v]).retval; z = read_z(ex, s1, ex.run1(s1, 'e_vdata', [v]).retval, min(size, n)); account(res, ex, mod, [s1])
    shape_obligations(res, 'free-space CSR', n, z, size, s1.pc, n // 2 + 1)
    if size == n:
        delta = fmax / frev / (n - 1); third = Fraction(f32(1.0 / 3.0))
        bad = []
        for i in range(n // 2 + 1):
            p = upow(Fraction(i) * delta, third) if i else z3.RealVal(0)       # pow(0, 1/3) = 0
            bad += [z[i][0] != Fraction(f32(306.3)) * p, z[i][1] != Fraction(f32(176.9)) * p]
        prove(res, 'free-space CSR n=%d: sample i == (306.3 + 176.9i) * pow(i*f_max/f_rev/(n-1), 1/3): cube-root growth, inductive sign of the reactance' % n, s1.pc, z3.Or(*bad), key='freespace-formula',
              cex_fn=lambda m: {'replay': 'none', 'frev': mval(m, frev), 'fmax': mval(m, fmax)})
    # ---- resistive wall
    s2 = ex.run1(st.fork(), 'e_reswall', [n, frev, fmax, L, s, xi, b]); v = s2.retval
    size = ex.run1(s2, 'e_vsize', [v]).retval; z = read_z(ex, s2, ex.run1(s2, 'e_vdata', [v]).retval, min(size, n)); account(res, ex, mod, [s2])
    shape_obligations(res, 'resistive wall', n, z, size, s2.pc, n // 2 + 1)
    if size == n:
        Z1 = usq(Z0 * (1 + xi) * frev / s / PI / C_LIGHT) * L / 2 / b; delta = fmax / frev / (Fraction(n) - 1)
        bad = []
        for i in range(n // 2 + 1):
            r = usq(Fraction(i) * delta) if i else z3.RealVal(0)                # sqrt(0) = 0
            bad += [z[i][0] != Z1 * r, z[i][1] != -Z1 * r]
        prove(res, 'resistive wall n=%d: sample i == sqrt(Z0*mu_r*f0/(s*pi*c))*L/(2b) * sqrt(i*delta) * (1 - i): square-root growth, capacitive-side sign opposite to free space' % n, s2.pc, z3.Or(*bad), key='reswall-formula')
        witness(res, 'resistive wall depends on conductivity and radius', [], z3.BoolVal(occurs(z[1][0], s) and occurs(z[1][0], b)))
    # ---- constant / collimator
    zr, zi = z3.Real('zr'), z3.Real('zi')
    s3 = ex.run1(st.fork(), 'e_const', [n, zr, zi]); v = s3.retval
    size = ex.run1(s3, 'e_vsize', [v]).retval; z = read_z(ex, s3, ex.run1(s3, 'e_vdata', [v]).retval, min(size, n)); account(res, ex, mod, [s3])
    shape_obligations(res, 'constant impedance', n, z, size, list(s3.pc) + [zr >= 0], n // 2)
    if size == n: prove(res, 'constant impedance n=%d: samples 0..%d equal Z' % (n, n // 2 - 1), s3.pc, z3.Or(*([c for k in range(n // 2) for c in (z[k][0] != zr, z[k][1] != zi)] or [z3.BoolVal(False)])), key='const-formula')
    outer, inner = z3.Real('outer'), z3.Real('inner')
    s4 = st.fork(); s4.pc += [inner > 0, outer > inner]
    s4 = ex.run1(s4, 'e_collimator', [n, fmax, outer, inner]); obj = s4.retval
    size = ex.run1(s4, 'e_isize', [obj]).retval; z = read_z(ex, s4, ex.run1(s4, 'e_idata', [obj]).retval, min(size, n)); account(res, ex, mod, [s4])
    shape_obligations(res, 'collimator', n, z, size, s4.pc, n // 2)
    if size == n and n >= 2:
        R0 = Fraction(376.730313461 / math.pi) * ulog(outer / inner)          # Z0/pi is folded in double by the compiler
        prove(res, 'collimator n=%d: a constant, purely real, positive resistance Z0/pi*log(outer/inner) on samples 0..%d' % (n, n // 2 - 1), list(s4.pc) + [ulog(outer / inner) > 0],
              z3.Or(*[c for k in range(n // 2) for c in (z[k][0] != R0, z[k][1] != 0, z[k][0] <= 0)]), key='collimator-formula')

def pp_stub(n, store):
    """ParallelPlatesCSR::__calcImpedance replaced by: an arbitrary vector of the requested length whose upper half is zero (its own obligations are not claimed)"""
    def f(ex, st, fr, args, ins):
        sret, nn = args[0], args[1]
        a = ex.malloc(st, 8 * nn)
        for i in range(nn):
            if i <= nn // 2:
                re, im = z3.Real('pp_re%d' % i), z3.Real('pp_im%d' % i); st.sym[a + 8 * i] = (4, 'f', re); st.sym[a + 8 * i + 4] = (4, 'f', im); store.append((re, im))
            else: store.append((z3.RealVal(0), z3.RealVal(0)))
        ex.store(st, sret, IntTy(64), a); ex.store(st, sret + 8, IntTy(64), a + 8 * nn); ex.store(st, sret + 16, IntTy(64), a + 8 * nn)
        return None
    return f

def job_factory(res, n, gap_sign, use_csr, wall, coll):
    """makeImpedance for one combination of switches, all physical parameters symbolic: result == sum of the selected models, nullptr iff nothing selected"""
    bld = imp_build(); mod = load_module(bld, IMP_MODS)
    snap, R, pre = take_snapshot(bld, 'n%d' % n, [n])
    pp = []
    ex = Exec(mod, snap, RealDom(), {PP_CALC: pp_stub(n, pp)}); st = State()
    fmax, Rb, frev, g, s, xi, cr = [z3.Real(x) for x in ('fmax', 'R_bend', 'frev', 'gapabs', 's', 'xi', 'coll')]
    st.pc += [fmax > 1e6, Rb > 0, frev > 1000, g > 0]
    gap = g if gap_sign > 0 else (-g if gap_sign < 0 else Fraction(0))
    if wall: st.pc += [s > 0, xi >= -1]; sv, xv = s, xi
    else: sv, xv = Fraction(0), Fraction(0)
    if coll: st.pc += [cr > 0, cr < g / 2]; cv = cr
    else: cv = Fraction(0)
    desc0 = 'factory n=%d gap%s0 csr=%s wall=%s collimator=%s' % (n, '>' if gap_sign > 0 else '<' if gap_sign < 0 else '=', use_csr, wall, coll)
    try:
        sts = run_paths(ex, st, 'e_make', [n, fmax, Rb, frev, gap, int(use_csr), sv, xv, cv, R['empty']]); account(res, ex, mod, sts)
    except Unsupported as e:
        if 'division by zero' not in str(e): raise
        # "every sample finite": a model evaluated with a divisor that is exactly zero (e.g. a beam pipe of radius 0) yields inf/NaN samples
        res.obs.append(Ob('%s: every division the factory executes has a non-zero divisor (every sample finite)' % desc0, 'violated', key='factory-finite', detail=str(e),
                          cex={'replay': 'make-finite', 'n': n, 'gap_sign': gap_sign, 'use_csr': use_csr, 'wall': wall, 'coll': coll})); return
    selected = gap_sign != 0 and (use_csr or wall or coll)
    for sx in sts:
        obj = sx.retval
        desc = 'factory n=%d gap%s0 csr=%s wall=%s collimator=%s' % (n, '>' if gap_sign > 0 else '<' if gap_sign < 0 else '=', use_csr, wall, coll)
        if not selected:
            res.obs.append(Ob('%s: nothing selected -> returns nullptr (got %s)' % (desc, hex(obj) if isinstance(obj, int) else obj), 'holds' if obj == 0 else 'violated', key='factory-null')); continue
        if obj == 0:
            res.obs.append(Ob('%s: a contribution is selected but the factory returned nullptr' % desc, 'violated', key='factory-null', cex={'replay': 'make', 'n': n, 'gap_sign': gap_sign, 'use_csr': use_csr, 'wall': wall, 'coll': coll})); continue
        size = ex.run1(sx, 'e_isize', [obj]).retval; nf = ex.run1(sx, 'e_infreqs', [obj]).retval
        z = read_z(ex, sx, ex.run1(sx, 'e_idata', [obj]).retval, min(size, n))
        # expected: sum of the individually built models with the parameters the statement names
        want = [(z3.RealVal(0), z3.RealVal(0))] * n
        def add(w, v): return [(a[0] + b[0], a[1] + b[1]) for a, b in zip(w, v)]
        f0 = C_LIGHT / (Fraction(2 * math.pi) * Rb); s2 = sx
        if use_csr:
            if gap_sign > 0: want = add(want, pp)
            else:
                s2 = ex.run1(s2, 'e_freespace', [n, f0, fmax]); want = add(want, read_z(ex, s2, ex.run1(s2, 'e_vdata', [s2.retval]).retval, n))
        if wall:
            s2 = ex.run1(s2, 'e_reswall', [n, frev, fmax, C_LIGHT / frev, s, xi, g / 2]); want = add(want, read_z(ex, s2, ex.run1(s2, 'e_vdata', [s2.retval]).retval, n))
        if coll:
            s2 = ex.run1(s2, 'e_collimator', [n, fmax, g / 2, cr]); want = add(want, read_z(ex, s2, ex.run1(s2, 'e_idata', [s2.retval]).retval, n))
        def cex(m): return {'replay': 'make', 'n': n, 'gap_sign': gap_sign, 'use_csr': use_csr, 'wall': wall, 'coll': coll, 'params': {str(v): mval(m, v) for v in (fmax, Rb, frev, g, s, xi, cr)}}
        ok = (size == n and nf == n)
        prove(res, '%s: result has %d samples and equals the sum of the selected contributions cell by cell (beam pipe radius |gap|/2), all parameters' % (desc, n), s2.pc,
              z3.Or(z3.BoolVal(not ok), *[c for a, b in zip(z, want) for c in (a[0] != b[0], a[1] != b[1])]), key='factory-sum', cex_fn=cex)

def job_parallel_plates_shape(res, n, g):
    """ParallelPlatesCSR::__calcImpedance from IR, the four Airy functions of boost::math as arbitrary finite values (one fresh symbol per call): the *shape* of the result -
    n samples, sample 0 and every sample above n/2 exactly zero - for even and odd n.  (This is what the factory runs assume of the stubbed model; the values themselves,
    i.e. the free-space and cutoff limits, are not decided.)"""
    bld = imp_build(); mod = load_module(bld, IMP_MODS)
    snap, R, pre = take_snapshot(bld, 'n%d' % n, [n])
    ex = Exec(mod, snap, RealDom()); cnt = [0]
    def airy(ex_, st, fr, a, ins):
        cnt[0] += 1; v = z3.Real('airy%d' % cnt[0]); st.pc += [v >= -1000000, v <= 1000000]; st.ranges['airy%d' % cnt[0]] = (Fraction(-1000000), Fraction(1000000)); return v      # finite and far from the overflow tests of the narrowing cast
    for pfx in ('_ZN5boost4math13airy_ai_prime', '_ZN5boost4math13airy_bi_prime', '_ZN5boost4math7airy_ai', '_ZN5boost4math7airy_bi',
                '_ZN5boost4math6detail17airy_ai_prime_imp', '_ZN5boost4math6detail17airy_bi_prime_imp', '_ZN5boost4math6detail11airy_ai_imp', '_ZN5boost4math6detail11airy_bi_imp'): ex.ext_prefix.append((pfx, airy))
    sts = run_paths(ex, State(), 'e_parplates', [n, Fraction(f32(2.7e6)), Fraction(f32(1e12)), Fraction(g)]); account(res, ex, mod, sts)
    def shape(s1, nn, tag):
        v = s1.retval; size = ex.run1(s1, 'e_vsize', [v]).retval
        res.obs.append(Ob('ParallelPlatesCSR n=%d gap %g%s: returns exactly %d samples (got %s)' % (nn, g, tag, nn, size), 'holds' if size == nn else 'violated', key='parallel-plates-length',
                          cex=None if size == nn else {'replay': 'pp-shape', 'n': nn, 'g': g, 'first_n': n if tag else 0}))
        if size != nn: return
        z = read_z(ex, s1, ex.run1(s1, 'e_vdata', [v]).retval, nn)
        zero = [0] + list(range(nn // 2 + 1, nn))
        prove(res, 'ParallelPlatesCSR n=%d gap %g%s: sample 0 and samples %d..%d (negative-frequency half) are exactly zero whatever the Airy functions return' % (nn, g, tag, nn // 2 + 1, nn - 1), s1.pc,
              z3.Or(*[c != 0 for k in zero for c in z[k]]), key='parallel-plates-upper-zero', cex_fn=lambda m: {'replay': 'pp-shape', 'n': nn, 'g': g, 'first_n': n if tag else 0})
        return z
    for s1 in sts:
        z = shape(s1, n, '')
        if z is not None: witness(res, 'ParallelPlatesCSR n=%d: sample 1 depends on the Airy values (%d calls)' % (n, cnt[0]), s1.pc, z3.BoolVal(cnt[0] > 0 and not z3.is_rational_value(z3.simplify(z[1][0]))))
        # a second request in the same process, same machine parameters, another sample count (main asks for the wake grid and then for the radiation grid): judged on its own
        s1.frames = []
        n2 = n - 3 if n >= 8 else n + 3
        for s2 in run_paths(ex, s1, 'e_parplates', [n2, Fraction(f32(2.7e6)), Fraction(f32(1e12)), Fraction(g)]): shape(s2, n2, ' (second request of the process, after one for %d samples)' % n)

def job_parallel_plates_modes(res, P):
    """the parallel-plates model sums over the odd plate modes that propagate at the sample's frequency f: p = 1, 3, 5, ... with p*c/(2g) <= f - every one of them, each once (with too few modes the
    model does not tend to free space for wide gaps).  One positive-frequency sample (n = 3), f chosen so that 2 g f / c = P; the Airy functions are recorded (argument) and return arbitrary finite values."""
    bld = imp_build(); mod = load_module(bld, IMP_MODS)
    snap, R, pre = take_snapshot(bld, 'n%d' % 3, [3])
    ex = Exec(mod, snap, RealDom()); us = []; cnt = [0]
    def airy(ex_, st, fr, a, ins):
        cnt[0] += 1; us.append(a[0] if not z3.is_expr(a[0]) else None)
        v = z3.Real('airy%d' % cnt[0]); st.pc += [v >= -1000000, v <= 1000000]; st.ranges['airy%d' % cnt[0]] = (Fraction(-1000000), Fraction(1000000)); return v
    for pfx in ('_ZN5boost4math13airy_ai_prime', '_ZN5boost4math13airy_bi_prime', '_ZN5boost4math7airy_ai', '_ZN5boost4math7airy_bi',
                '_ZN5boost4math6detail17airy_ai_prime_imp', '_ZN5boost4math6detail17airy_bi_prime_imp', '_ZN5boost4math6detail11airy_ai_imp', '_ZN5boost4math6detail11airy_bi_imp'): ex.ext_prefix.append((pfx, airy))
    g = 0.004; c = 299792458.0; f = P * c / (2 * g); fmax = 2 * f      # n = 3: the one sample below n/2 sits at f_max/2
    sts = run_paths(ex, State(), 'e_parplates', [3, Fraction(f32(2.7e6)), Fraction(f32(fmax)), Fraction(f32(g))]); account(res, ex, mod, sts)
    Peff = 2 * f32(g) * (f32(fmax) / 2) / c      # with the float parameters actually passed
    want = [p for p in range(1, int(math.floor(Peff)) + 1, 2)]
    vals = sorted({float(u) for u in us if u is not None})
    ok = None not in us and len(sts) == 1
    ratios = [math.sqrt(v / vals[0]) for v in vals] if vals else []
    okm = ok and len(vals) == len(want) and all(abs(r - w) < 1e-3 * w for r, w in zip(ratios, want))
    res.obs.append(Ob('ParallelPlatesCSR, sample at 2 g f / c = %.3f: the mode sum runs over the odd plate modes %s and no others (Airy arguments seen: %d distinct, as multiples of the first: %s)' % (Peff, want, len(vals), [round(r, 3) for r in ratios]),
                      'holds' if okm else 'violated', key='parallel-plates-modes', cex=None if okm else {'replay': 'structural', 'P': Peff, 'modes_wanted': want, 'mode_ratios_seen': [round(r, 3) for r in ratios]}))

READ_DATA = '_ZN4vfps9Impedance8readDataENSt7__cxx1112basic_stringIcSt11char_traitsIcESaIcEEE'
def job_factory_file(res, n, L, gap_sign, wall):
    """makeImpedance with an impedance table (file of L samples, each an arbitrary complex number) alone or on top of analytic contributions:
    the returned object holds exactly n samples and says so (nFreqs() == size() == n: everything that later indexes it up to nFreqs() stays inside), cell i == analytic_i + table_i (0 beyond the table)"""
    bld = imp_build(); mod = load_module(bld, IMP_MODS)
    snap, R, pre = take_snapshot(bld, 'n%d' % n, [n])
    T = [(z3.Real('tab_re%d' % i), z3.Real('tab_im%d' % i)) for i in range(L)]
    def read_data(ex, st, fr, a, ins):
        buf = ex.malloc(st, max(8 * L, 1)) if L else 0
        for i, (re_, im_) in enumerate(T): st.sym[buf + 8 * i] = (4, 'f', re_); st.sym[buf + 8 * i + 4] = (4, 'f', im_)
        for k, v in enumerate((buf, buf + 8 * L, buf + 8 * L)): ex.store(st, a[0] + 8 * k, IntTy(64), v)
        return None
    pp = []
    ex = Exec(mod, snap, RealDom(), {PP_CALC: pp_stub(n, pp), READ_DATA: read_data}); st = State()
    fmax, Rb, frev, g, s, xi = [z3.Real(x) for x in ('fmax', 'R_bend', 'frev', 'gapabs', 's', 'xi')]
    st.pc += [fmax > 1e6, Rb > 0, frev > 1000, g > 0]
    gap = g if gap_sign > 0 else (-g if gap_sign < 0 else Fraction(0))
    if wall: st.pc += [s > 0, xi >= -1]; sv, xv = s, xi
    else: sv, xv = Fraction(0), Fraction(0)
    sts = run_paths(ex, st, 'e_make', [n, fmax, Rb, frev, gap, 0, sv, xv, Fraction(0), R['fname']]); account(res, ex, mod, sts)
    desc = 'factory n=%d with an impedance table of %d samples, gap%s0, wall=%s' % (n, L, '>' if gap_sign > 0 else '<' if gap_sign < 0 else '=', wall)
    for sx in sts:
        obj = sx.retval
        if obj == 0:
            res.obs.append(Ob('%s: a table is given but the factory returned nullptr' % desc, 'violated', key='factory-file', cex={'replay': 'make-file', 'n': n, 'L': L, 'gap_sign': gap_sign, 'wall': wall})); continue
        size = ex.run1(sx, 'e_isize', [obj]).retval; nf = ex.run1(sx, 'e_infreqs', [obj]).retval
        okn = (size == n and nf == n)
        res.obs.append(Ob('%s: the result holds %d samples and reports %d (size() == nFreqs() == n; got size %s, nFreqs %s) - readers that index up to nFreqs() stay inside' % (desc, n, n, size, nf), 'holds' if okn else 'violated', key='factory-file-size',
                          cex=None if okn else {'replay': 'make-file', 'n': n, 'L': L, 'gap_sign': gap_sign, 'wall': wall}))
        if not okn: continue
        z = read_z(ex, sx, ex.run1(sx, 'e_idata', [obj]).retval, n)
        want = [(z3.RealVal(0), z3.RealVal(0))] * n; s2 = sx
        if wall and gap_sign != 0:
            s2 = ex.run1(s2, 'e_reswall', [n, frev, fmax, C_LIGHT / frev, s, xi, g / 2]); rw = read_z(ex, s2, ex.run1(s2, 'e_vdata', [s2.retval]).retval, n)
            want = [(a[0] + b[0], a[1] + b[1]) for a, b in zip(want, rw)]
        want = [(w[0] + (T[i][0] if i < L else 0), w[1] + (T[i][1] if i < L else 0)) for i, w in enumerate(want)]
        prove(res, '%s: cell i == selected analytic contribution + table sample i (nothing beyond the table), all table values and parameters' % desc, s2.pc,
              z3.Or(*[c for a, b in zip(z, want) for c in (a[0] != b[0], a[1] != b[1])]), key='factory-file',
              cex_fn=lambda m: {'replay': 'make-file', 'n': n, 'L': L, 'gap_sign': gap_sign, 'wall': wall})
    witness(res, '%s: result depends on the table' % desc, sts[0].pc, z3.BoolVal(L == 0 or any(o.verdict == 'holds' for o in res.obs)))

def job_add(res, n):
    bld = imp_build(); mod = load_module(bld, IMP_MODS)
    snap, R, pre = take_snapshot(bld, 'n%d' % n, [n])
    ex = Exec(mod, snap, RealDom()); st = State()
    s = ex.run1(st, 'e_const', [n, Fraction(0), Fraction(0)]); va = s.retval; s = ex.run1(s, 'e_const', [n, Fraction(0), Fraction(0)]); vb = s.retval
    pa = ex.run1(s, 'e_vdata', [va]).retval; pb = ex.run1(s, 'e_vdata', [vb]).retval
    A = sym_reals(ex, s, pa, ['a%d' % i for i in range(2 * n)]); Bv = sym_reals(ex, s, pb, ['b%d' % i for i in range(2 * n)])
    s = ex.run1(s, 'e_new_imp', [va, Fraction(f32(1e12))]); ia = s.retval; s = ex.run1(s, 'e_new_imp', [vb, Fraction(f32(1e12))]); ib = s.retval
    s = ex.run1(s, 'e_add', [ia, ib]); account(res, ex, mod, [s])
    got = get_reals(ex, s, ex.run1(s, 'e_idata', [ia]).retval, 2 * n); rhs = get_reals(ex, s, ex.run1(s, 'e_idata', [ib]).retval, 2 * n)
    prove(res, 'Impedance::operator+= n=%d: element-wise complex sum of all %d samples, right-hand side unchanged' % (n, n), s.pc, z3.Or(*([g != a + b for g, a, b in zip(got, A, Bv)] + [r != b for r, b in zip(rhs, Bv)])), key='impedance-add')

def replayer(bld):
    def rp(path, c):
        if c.get('replay') == 'make-finite':
            g = 0.032
            spec = {'n': c['n'], 'fmax': 1e12, 'R_bend': 5.559, 'frev': 2.7e6, 'gap': g * (1 if c['gap_sign'] > 0 else -1 if c['gap_sign'] < 0 else 0), 'use_csr': int(c['use_csr']), 's': 3.5e7 if c['wall'] else 0.0, 'xi': 0.0, 'coll': 0.004 if c['coll'] else 0.0}
            o = native_run(bld, spec, 'c16'); mk = o.get('make') or []
            bad = [v for v in mk if v != v or v in (float('inf'), float('-inf'))]
            return (bool(bad), 'native factory result has %d non-finite values among %d' % (len(bad), len(mk)))
        if c.get('replay') == 'pp-shape':
            spec = {'n': c['n'], 'fmax': 1e12, 'R_bend': 5.559, 'frev': 2.7e6, 'gap': c['g'], 'use_csr': 1, 's': 0.0, 'xi': 0.0, 'coll': 0.0, 'pp_direct': 1}
            if c.get('first_n'): spec['first_n'] = c['first_n']
            o = native_run(bld, spec, 'c16')
            n = c['n']; mk = o.get('pp') or []
            nz = [k for k in [0] + list(range(n // 2 + 1, n)) if 2 * k + 1 < len(mk) and (mk[2 * k] != 0 or mk[2 * k + 1] != 0)]
            return (bool(nz) or len(mk) != 2 * n, 'native parallel-plates impedance%s: %d samples for %d requested, non-zero samples in the negative-frequency half at %s' % (' (second request of the process)' if c.get('first_n') else '', len(mk) // 2, n, nz))
        if c.get('replay') == 'make-file':
            n = c['n']; L = c['L']; tab = [float(v) for i in range(L) for v in (0.5 + i, -0.25 * i)]
            spec = {'n': n, 'fmax': 1e12, 'R_bend': 5.559, 'frev': 2.7e6, 'gap': 0.032 * (1 if c['gap_sign'] > 0 else -1 if c['gap_sign'] < 0 else 0), 'use_csr': 0, 's': 3.5e7 if c['wall'] else 0.0, 'xi': 0.0, 'coll': 0.0}
            if L: spec['table'] = tab
            o = native_run(bld, spec, 'c16')
            if not o.get('make'): return (L > 0, 'native factory returned nullptr')
            sz = o.get('sizes', [0, 0])
            if int(sz[0]) != n or int(sz[1]) != n: return (True, 'native factory result: size() = %d, nFreqs() = %d, requested %d' % (sz[0], sz[1], n))
            want = [0.0] * (2 * n)
            if c['wall'] and c['gap_sign']: want = [a + b for a, b in zip(want, o['rw'])]
            for i in range(min(L, n)): want[2 * i] += tab[2 * i]; want[2 * i + 1] += tab[2 * i + 1]
            dev = max(abs(a - b) for a, b in zip(o['make'], want)); sc = max(abs(v) for v in want) + 1e-30
            return (dev > 1e-4 * sc, 'native factory output differs from analytic + table by %.3g (scale %.3g)' % (dev, sc))
        if c.get('replay') != 'make': return (True, 'formula identity of the real model code: %s' % str(c)[:200])
        n = c['n']; P = c.get('params', {}); g = abs(float(P.get('gapabs', 0.032))) or 0.032
        spec = {'n': n, 'fmax': float(P.get('fmax', 1e12)), 'R_bend': float(P.get('R_bend', 5.559)), 'frev': float(P.get('frev', 2.7e6)), 'gap': g * (1 if c['gap_sign'] > 0 else -1 if c['gap_sign'] < 0 else 0),
                'use_csr': int(c['use_csr']), 's': float(P.get('s', 3.5e7)) if c['wall'] else 0.0, 'xi': float(P.get('xi', 0)) if c['wall'] else 0.0, 'coll': min(float(P.get('coll', g / 4)), g / 2.1) if c['coll'] else 0.0}
        if c['gap_sign'] > 0 and c['use_csr']: return (True, 'parallel-plates contribution is stubbed: not replayed natively')
        o = native_run(bld, spec, 'c16')
        if not o.get('make'): return (True, 'native factory returned nullptr although a contribution is selected')
        want = [0.0] * (2 * n)
        if c['use_csr']: want = [a + b for a, b in zip(want, o['fs'])]
        if c['wall']: want = [a + b for a, b in zip(want, o['rw'])]
        if c['coll']:
            r0 = 376.730313461 / math.pi * math.log((g / 2) / spec['coll'])
            for k in range(n // 2): want[2 * k] += r0
        dev = max(abs(a - b) for a, b in zip(o['make'], want)); sc = max(abs(v) for v in want) + 1e-30
        return (dev > 1e-4 * sc, 'native factory output differs from the sum of the selected models by %.3g (scale %.3g)' % (dev, sc))
    return rp
def get_replayer(): return replayer(imp_build())

def main(tier):
    chk = Check('C16', tier, '4/C16')
    bld = imp_build()
    ns = (2, 3, 8, 9) if tier == 'quick' else (2, 3, 4, 5, 8, 9, 16, 17)
    jobs = [(job_models, (n,)) for n in ns] + [(job_add, (n,)) for n in (3, 8)]
    combos = [(gs, csr, w, c) for gs in (1, -1, 0) for csr in (True, False) for w in (True, False) for c in (True, False)]
    jobs += [(job_factory, (n, gs, csr, w, c)) for n in ((8,) if tier == 'quick' else (8, 9, 3)) for (gs, csr, w, c) in combos]
    jobs += [(job_parallel_plates_modes, (P,)) for P in ((1.5, 3.4, 5.2) if tier == 'quick' else (0.6, 1.5, 2.5, 3.4, 4.7, 5.2, 7.3))]
    jobs += [(job_parallel_plates_shape, (n, 0.032)) for n in ((8, 9, 5) if tier == 'quick' else (8, 9, 5, 7, 16, 17, 3))]
    import c14 as _c14
    jobs += [(_c14.job_process_state, ())]      # a model's samples must not depend on an earlier request of the process (caches)
    jobs += [(job_factory_file, (n, L, gs, w)) for n, L in ((8, 3), (8, 8), (5, 9), (8, 0)) for gs, w in ((0, False), (-1, True), (-1, False))]      # impedance table alone / on top of analytic contributions; shorter, equal, longer, empty
    chk.bounds = {'sample counts': list(ns), 'factory': 'every combination of gap <,=,> 0, use_csr, wall (s>0, xi>=-1), collimator (0<r<|gap|/2) without impedance file; with a table of 0/3/8/9 arbitrary samples alone and on top of the wall model; all physical parameters symbolic positive reals'}
    chk.assumptions = ['powf/sqrt/log are uninterpreted functions with pow,sqrt >= 0 and log x > 0 for x > 1 (same symbol in code and specification): the cube-root/square-root laws are statements about the exponent/function used',
                       'ParallelPlatesCSR::__calcImpedance (Airy-function series in boost::math behind exceptions) is replaced by an arbitrary vector with zero upper half inside the factory runs; its limits (free space for wide gaps, suppression below cutoff) are NOT decided',
                       'causality / one-sidedness of the impulse response and impedances read from files (C17) are not decided', 'n = 1 (division by n-1 = 0) is outside the domain', 'floats as reals']
    chk.stubs = ['Display::printText no-op', 'ParallelPlatesCSR::__calcImpedance: arbitrary vector, zero above n/2', 'std::string members (_M_create, _M_append, ...) modelled on the libstdc++ layout', 'operator new/delete']
    chk.replayer = replayer(bld)
    chk.add(run_jobs(jobs, budget=600))
    chk.finish()

if __name__ == '__main__':
    main(sys.argv[1] if len(sys.argv) > 1 else 'quick')
