"""C09 - normalisation restores each bunch's charge share; moments are the true moments; a copy reports the same."""
import sys, os
sys.path.insert(0, os.path.dirname(os.path.abspath(__file__)))
from maps_common import *

PS_TUS = ['src/PS/PhaseSpace.cpp', 'src/IO/Display.cpp', 'src/HelperFunctions.cpp']
PS_MODS = ['harness', 'PhaseSpace']
def ps_build(): return B.build('h_ps.cpp', PS_TUS)
def ps_world(bld, n, nb, pat, q=(-6, 6), p=(-6, 6)):
    a = [n, nb, pat, q[0], q[1], p[0], p[1]]
    return take_snapshot(bld, 'p' + '_'.join(str(x) for x in a), a)

def fills(nb, pat):
    f = [f32(1.0 / nb)] * nb
    if pat == 1 and nb >= 2: f = [f32(0.3 / (nb - 1))] * nb; f[0] = f32(0.7)
    if pat == 2 and nb >= 3: f = [0.0] * nb; f[0] = f32(0.6); f[nb - 1] = f32(0.4)
    return [Fraction(x) for x in f]

def simpson(n, h):
    h03 = f32(f32(h) / f32(3)); w = [h03]; dc = 1.0
    for x in range(1, n - 1): w.append(f32(h03 * f32(3 + dc))); dc = -dc
    return w + [h03]

def job_normalize(res, n, nb, pat, sparse=False):
    bld = ps_build(); mod = load_module(bld, PS_MODS)
    snap, R, pre = ps_world(bld, n, nb, pat)
    if not sparse: validate(res, mod, snap, pre)      # (translator validation is done on the small grids; the large ones would only repeat it at 60 times the cost)
    ex = Exec(mod, snap, RealDom()); ex.max_ins = 400_000_000; st = State(); ps = R['ps']
    if sparse:      # a grid larger than the default one, zero except symbolic cells on a few lines (see job_projections)
        lines = sorted({v for v in (0, 1, n // 2, 128, 255, 256, 257, n - 2, n - 1) if 0 <= v < n})
        ex.write_bytes(st, R['data'], bytes(4 * nb * n * n)); D = [z3.RealVal(0)] * (nb * n * n)
        for b in range(nb):
            for x in lines:
                for y in lines:
                    i = (b * n + x) * n + y; v = z3.Real('d%d' % i); st.pc.append(v >= 0); st.sym[R['data'] + 4 * i] = (4, 'f', v); D[i] = v
    else: D = sym_reals(ex, st, R['data'], ['d%d' % i for i in range(nb * n * n)], 0, None)
    fs = fills(nb, pat)
    ws = [float(ex.load(st, R['ws'] + 4 * i, F32)) for i in range(n)]
    d0 = f32(f32(12.0) / f32(n - 1)); want_ws = simpson(n, d0)      # cell size of the default axis [-6, 6] (the harness publishes it with six decimals only)
    okw = all(abs(a - b) <= 1e-6 * abs(b) for a, b in zip(ws, want_ws))
    res.obs.append(Ob('n=%d: Simpson weights are h/3*(1,4,2,...,4,1) with h = cell size (%s)' % (n, ws), 'holds' if okw else 'violated', key='simpson-weights', cex=None if okw else {'got': ws, 'want': want_ws}))
    for f in ('e_updx', 'e_integrate'): st = ex.run1(st, f, [ps])
    fbefore = get_reals(ex, st, R['filling'], nb)
    wsq = [Fraction(w) for w in ws]
    # the measured charge of bunch b is the Simpson double sum over that bunch's own cells
    prove(res, 'n=%d nb=%d: integrate() after updateXProjection(): filling[b] == sum_x sum_y w_x w_y data[b][x][y], integral == sum_b filling[b]' % (n, nb), st.pc,
          z3.Or(*([fbefore[b] != sum([wsq[x] * wsq[y] * D[b * n * n + x * n + y] for x in range(n) for y in range(n) if not z3.is_rational_value(D[b * n * n + x * n + y])], z3.RealVal(0)) for b in range(nb)] +
                  [ex.dom.z(ex.load(st, R['integral'], F32)) != sum(fbefore[1:], fbefore[0])])), key='integrate-formula')
    nz = [fbefore[b] > 0 for b in range(nb)]
    st.pc += nz
    # normalize() may branch on the data (e.g. a shortcut when the charge is already right): every path is followed and must meet the same obligations
    finals = []
    for s_n in run_paths(ex, st, 'e_normalize', [ps]):
        for s_x in run_paths(ex, s_n, 'e_updx', [ps]): finals += run_paths(ex, s_x, 'e_integrate', [ps])
    account(res, ex, mod, finals)
    for k, st in enumerate(finals):
        ptag = '' if len(finals) == 1 else ' [path %d of %d through normalize()]' % (k + 1, len(finals))
        fa = get_reals(ex, st, R['filling'], nb); integ = ex.dom.z(ex.load(st, R['integral'], F32))
        def cex(m, fa=fa): return {'replay': 'normalize', 'n': n, 'nb': nb, 'pattern': pat, 'data': [mval(m, v) if not z3.is_rational_value(v) else 0.0 for v in D], 'filling_after': [mval(m, v) for v in fa]}
        for b in range(nb):
            prove(res, 'n=%d nb=%d pattern %s: after renormalisation bunch %d integrates to exactly its share %s (arbitrary non-negative data with non-zero charge)%s' % (n, nb, [float(x) for x in fs], b, float(fs[b]), ptag),
                  st.pc, fa[b] != fs[b], key='normalize-share', cex_fn=cex, timeout_ms=120000)
        prove(res, 'n=%d nb=%d pattern %s: total integral after renormalisation == sum of the shares%s' % (n, nb, [float(x) for x in fs], ptag), st.pc, integ != sum(fs), key='normalize-total', cex_fn=cex, timeout_ms=120000)
        dat = get_reals(ex, st, R['data'], nb * n * n)
        for b in range(nb):
            if fs[b] == 0: prove(res, 'empty bucket %d: every cell is zero after renormalisation%s' % (b, ptag), st.pc, z3.Or(*[v != 0 for v in dat[b * n * n:(b + 1) * n * n] if not (z3.is_rational_value(v) and v.as_fraction() == 0)] or [z3.BoolVal(False)]), key='normalize-empty')
    witness(res, 'normalisation result depends on the data (n=%d)' % n, finals[0].pc, z3.BoolVal(any(occurs(get_reals(ex, f_, R['data'], 1)[0], D[0]) and occurs(get_reals(ex, f_, R['data'], 1)[0], D[1]) for f_ in finals)))

def job_normalize_again(res, n, nb, pat):
    """a later renormalisation: the buckets with share 0 are already exactly empty (they were cleared by the first one), the filled ones hold arbitrary data.
    Every bunch must again integrate to its share and the empty buckets must stay exactly zero (no 0/0)."""
    bld = ps_build(); mod = load_module(bld, PS_MODS)
    snap, R, pre = ps_world(bld, n, nb, pat)
    ex = Exec(mod, snap, RealDom()); st = State(); ps = R['ps']; fs = fills(nb, pat)
    D = []
    for b in range(nb):
        for i in range(n * n):
            a = R['data'] + 4 * (b * n * n + i)
            if fs[b] == 0: ex.write_bytes(st, a, bytes(4)); st.sym.pop(a, None); D.append(z3.RealVal(0))
            else:
                v = z3.Real('d%d' % (b * n * n + i)); st.sym[a] = (4, 'f', v); st.pc.append(v >= 0); D.append(v)
    def cex(m): return {'replay': 'normalize', 'n': n, 'nb': nb, 'pattern': pat, 'data': [mval(m, v) for v in D]}
    try:
        for f in ('e_updx', 'e_integrate'): st = ex.run1(st, f, [ps])
        fbefore = get_reals(ex, st, R['filling'], nb)
        st.pc += [fbefore[b] > 0 for b in range(nb) if fs[b] != 0]
        finals = []
        for s_n in run_paths(ex, st, 'e_normalize', [ps]):
            for s_x in run_paths(ex, s_n, 'e_updx', [ps]): finals += run_paths(ex, s_x, 'e_integrate', [ps])
    except Unsupported as e:
        if 'division by zero' not in str(e): raise
        s0 = z3.Solver(); s0.add(*st.pc); m = s0.model() if s0.check() == z3.sat else None
        res.obs.append(Ob('n=%d nb=%d pattern %s, empty buckets already empty: renormalisation divides 0 by 0 (the measured charge of an empty bucket) - the bucket does not stay zero' % (n, nb, [float(x) for x in fs]), 'violated', key='normalize-empty-again',
                          cex=cex(m) if m is not None else None, detail=str(e))); return
    account(res, ex, mod, finals)
    for k, s1 in enumerate(finals):
        fa = get_reals(ex, s1, R['filling'], nb); dat = get_reals(ex, s1, R['data'], nb * n * n)
        for b in range(nb):
            if fs[b] == 0: prove(res, 'n=%d nb=%d pattern %s: an already empty bucket %d stays exactly zero under a further renormalisation (every cell, its charge)' % (n, nb, [float(x) for x in fs], b), s1.pc,
                                 z3.Or(fa[b] != 0, *[v != 0 for v in dat[b * n * n:(b + 1) * n * n]]), key='normalize-empty-again', cex_fn=cex)
            else: prove(res, 'n=%d nb=%d pattern %s: with the empty buckets already empty, bunch %d integrates to its share %s after renormalisation' % (n, nb, [float(x) for x in fs], b, float(fs[b])), s1.pc, fa[b] != fs[b], key='normalize-share', cex_fn=cex, timeout_ms=120000)
    witness(res, 'later renormalisation n=%d: paths explored' % n, finals[0].pc, z3.BoolVal(True))

def job_moments(res, n, nb, pat, axis, q, p, sparse=False):
    """average/variance with symbolic projections and measured charges: first and second moments of that bunch's projection, independent of other bunches"""
    bld = ps_build(); mod = load_module(bld, PS_MODS)
    snap, R, pre = ps_world(bld, n, nb, pat, q, p)
    ex = Exec(mod, snap, RealDom()); st = State(); ps = R['ps']
    if sparse:      # a grid larger than the default one: the profiles are zero except on lines around 0, the middle, multiples of 128 and the end
        lines = {v for v in (0, 1, n // 2, 127, 128, 255, 256, 257, 511, 512, 513, n - 2, n - 1) if 0 <= v < n}
        ex.write_bytes(st, R['proj'], bytes(4 * 2 * nb * n)); PR = []
        for i in range(2 * nb * n):
            if i % n in lines:
                v = z3.Real('pr%d' % i); st.pc.append(v >= 0); st.sym[R['proj'] + 4 * i] = (4, 'f', v); PR.append(v)
            else: PR.append(z3.RealVal(0))
    else: PR = sym_reals(ex, st, R['proj'], ['pr%d' % i for i in range(2 * nb * n)], 0, None)
    FL = sym_reals(ex, st, R['filling'], ['fill%d' % b for b in range(nb)], None, None)
    for v in FL: st.pc.append(v > 0)
    st = ex.run1(st, 'e_variance', [ps, axis]); account(res, ex, mod, [st])
    mom = get_reals(ex, st, R['moment'], 2 * 4 * nb); rms = get_reals(ex, st, R['rms'], 2 * nb)
    co = get_reals(ex, st, R['axis%d_data' % axis], n)
    delta = Fraction(f32(f32(f32((q, p)[axis][1]) - f32((q, p)[axis][0])) / f32(n - 1)))
    fs = fills(nb, pat); usq = ex.dom.uf('uf_sqrt', 1); bad = []
    for b in range(nb):
        pr = PR[axis * nb * n + b * n: axis * nb * n + (b + 1) * n]
        if fs[b] > 0:
            nzl = [i for i in range(n) if not z3.is_rational_value(pr[i])]
            mean = delta * sum([pr[i] * co[i] for i in nzl], z3.RealVal(0)) / FL[b]
            var = delta * sum([pr[i] * (co[i] - mean) * (co[i] - mean) for i in nzl], z3.RealVal(0)) / FL[b]
        else: mean = var = z3.RealVal(0)
        m0 = mom[axis * 4 * nb + 0 * nb + b]; m1 = mom[axis * 4 * nb + 1 * nb + b]; r = rms[axis * nb + b]
        def cex(m, b=b): return {'replay': 'moments', 'n': n, 'nb': nb, 'pattern': pat, 'axis': axis, 'bunch': b, 'proj': [mval(m, v) for v in PR], 'filling': [mval(m, v) for v in FL], 'mean': mval(m, m0), 'var': mval(m, m1)}
        prove(res, ('sparse profile, ' if sparse else '') + 'n=%d nb=%d axis %d bunch %d (share %s): mean == delta*sum proj*coord / charge, variance == delta*sum proj*(coord-mean)^2 / charge, rms == sqrt(variance)' % (n, nb, axis, b, float(fs[b])),
              st.pc, z3.Or(m0 != mean, m1 != var, r != (usq(m1) if fs[b] > 0 else z3.RealVal(0))), key='moment-formulas', cex_fn=cex, timeout_ms=120000)
        others = [v for bb in range(nb) if bb != b for v in PR[axis * nb * n + bb * n: axis * nb * n + (bb + 1) * n]] + [FL[bb] for bb in range(nb) if bb != b] + PR[(1 - axis) * nb * n:(2 - axis) * nb * n]
        dep = any(occurs(t, o) for t in (m0, m1) for o in others)
        res.obs.append(Ob('axis %d bunch %d: reported moments mention no other bunch\'s projection or charge and not the other axis' % (axis, b), 'violated' if dep else 'holds', key='moment-independence'))

def job_projections(res, n, nb, sparse=False):
    """both projections and the charges are the weighted sums of the grid they belong to: projection[0][b][x] == sum_y w_y d[b][x][y], projection[1][b][y] == sum_x w_x d[b][x][y],
    filling[b] == sum_x w_x projection[0][b][x].  sparse: a grid larger than the default one (block sizes, tails of blocked loops), every cell zero except symbolic cells on a set of lines
    around 0, the middle, multiples of 128 and the end"""
    bld = ps_build(); mod = load_module(bld, PS_MODS)
    snap, R, pre = ps_world(bld, n, nb, 0)
    ex = Exec(mod, snap, RealDom()); ex.max_ins = 400_000_000; st = State(); ps = R['ps']
    if sparse:
        ex.write_bytes(st, R['data'], bytes(4 * nb * n * n))
        lines = sorted({v for v in (0, 1, 2, n // 2, 127, 128, 129, 255, 256, 257, 383, 384, 511, 512, 513, n - 3, n - 2, n - 1) if 0 <= v < n})
        cells = [(b, x, y) for b in range(nb) for x in lines for y in lines]
    else:
        cells = [(b, x, y) for b in range(nb) for x in range(n) for y in range(n)]
    D = {}
    for b, x, y in cells:
        v = z3.Real('d%d_%d_%d' % (b, x, y)); st.pc.append(v >= 0); st.sym[R['data'] + 4 * ((b * n + x) * n + y)] = (4, 'f', v); D[(b, x, y)] = v
    for f in ('e_updx', 'e_updy', 'e_integrate'): st = ex.run1(st, f, [ps])
    account(res, ex, mod, [st])
    ws = [Fraction(float(ex.load(st, R['ws'] + 4 * i, F32))) for i in range(n)]
    pr = get_reals(ex, st, R['proj'], 2 * nb * n); fl = get_reals(ex, st, R['filling'], nb)
    def d(b, x, y): return D.get((b, x, y), z3.RealVal(0))
    xs = sorted({c[1] for c in cells}); ys = sorted({c[2] for c in cells})
    badx = []; bady = []
    for b in range(nb):
        for x in range(n):
            want = sum([ws[y] * d(b, x, y) for y in ys if (b, x, y) in D], z3.RealVal(0)); got = ex.dom.z(pr[b * n + x])
            if x in xs: badx.append(got != want)
            elif not (z3.is_rational_value(z3.simplify(got)) and z3.simplify(got).as_fraction() == 0): badx.append(z3.BoolVal(True))
        for y in range(n):
            want = sum([ws[x] * d(b, x, y) for x in xs if (b, x, y) in D], z3.RealVal(0)); got = ex.dom.z(pr[nb * n + b * n + y])
            if y in ys: bady.append(got != want)
            elif not (z3.is_rational_value(z3.simplify(got)) and z3.simplify(got).as_fraction() == 0): bady.append(z3.BoolVal(True))
    tag = 'n=%d nb=%d%s' % (n, nb, ' (sparse: symbolic cells on lines %s, zero elsewhere)' % xs if sparse else '')
    def cex(m): return {'replay': 'projections', 'n': n, 'nb': nb, 'pattern': 0, 'cells': [[b, x, y, mval(m, v)] for (b, x, y), v in D.items()]}
    prove(res, '%s: position profile[b][x] == sum_y w_y data[b][x][y] on every line' % tag, st.pc, z3.Or(*badx), key='projection-x', cex_fn=cex, timeout_ms=120000)
    prove(res, '%s: energy profile[b][y] == sum_x w_x data[b][x][y] on every line' % tag, st.pc, z3.Or(*bady), key='projection-y', cex_fn=cex, timeout_ms=120000)
    prove(res, '%s: charge[b] == sum_x w_x profile[b][x]' % tag, st.pc, z3.Or(*[fl[b] != sum([ws[x] * ex.dom.z(pr[b * n + x]) for x in xs], z3.RealVal(0)) for b in range(nb)]), key='integrate-formula', cex_fn=cex, timeout_ms=120000)
    witness(res, 'the energy profile depends on the data (%s)' % tag, [], z3.BoolVal(occurs(ex.dom.z(pr[nb * n + ys[-1]]), D[(0, xs[0], ys[-1])])))

def job_copy(res, n, nb, pat):
    bld = ps_build(); mod = load_module(bld, PS_MODS)
    snap, R, pre = ps_world(bld, n, nb, pat)
    ex = Exec(mod, snap, RealDom(round_concrete=True)); st = State(); ps = R['ps']      # constants computed by the constructor (Simpson weights) are rounded like the native ones
    D = sym_reals(ex, st, R['data'], ['d%d' % i for i in range(nb * n * n)], 0, 1)
    for f in ('e_updx', 'e_updy', 'e_integrate'): st = ex.run1(st, f, [ps])
    st = ex.run1(st, 'e_copy', [ps]); cp = st.retval; account(res, ex, mod, [st])
    def grab(obj):
        d = get_reals(ex, st, ex.run1(st, 'e_data', [obj]).retval, nb * n * n); pr = get_reals(ex, st, ex.run1(st, 'e_proj', [obj]).retval, 2 * nb * n)
        fl = get_reals(ex, st, ex.run1(st, 'e_filling', [obj]).retval, nb); ig = get_reals(ex, st, ex.run1(st, 'e_integral', [obj]).retval, 1)
        return d, pr, fl, ig
    o = grab(ps); c = grab(cp)
    for name, a, b in zip(('data', 'both projections', 'bunch charges', 'integral'), o, c):
        prove(res, 'copy constructor n=%d nb=%d: %s of the copy == those of the (refreshed) original, all %d values, arbitrary data' % (n, nb, name, len(a)), st.pc, z3.Or(*[x != y for x, y in zip(a, b)]), key='copy-' + name.split()[0],
              cex_fn=lambda m: {'replay': 'copy', 'n': n, 'nb': nb, 'pattern': pat, 'data': [mval(m, v) for v in D]})
    # same moments after the same variance calls
    s2 = st
    for obj in (ps, cp):
        for ax in (0, 1): s2 = ex.run1(s2, 'e_variance', [obj, ax])
    mo = get_reals(ex, s2, ex.run1(s2, 'e_moment', [ps]).retval, 8 * nb); mc = get_reals(ex, s2, ex.run1(s2, 'e_moment', [cp]).retval, 8 * nb)
    use = [i for i in range(8 * nb) if (i // nb) % 4 in (0, 1)]
    for i in use:
        prove(res, 'copy constructor n=%d nb=%d: moment cell %d (mean/variance) of the copy == original\'s' % (n, nb, i), s2.pc, mo[i] != mc[i], key='copy-moments', timeout_ms=60000)
    witness(res, 'copy data are the symbolic data', [], z3.BoolVal(occurs(c[0][3], D[3])))

def replayer(bld):
    def rp(path, c):
        w = c.get('replay'); n, nb, pat = c['n'], c['nb'], c['pattern']
        if w == 'normalize':
            o = native_run(bld, {'n': n, 'nb': nb, 'pattern': pat, 'data': [float(v) for v in c['data']], 'ops': ['x', 'i', 'n', 'x', 'i']}, 'c09')
            fs = [float(x) for x in fills(nb, pat)]; dev = max((abs(a - b) if a == a else float('inf')) for a, b in zip(o['filling'], fs))
            return (dev > 1e-5, 'native: filling after renormalisation %s vs shares %s' % (o['filling'], fs))
        if w == 'projections':
            data = [0.0] * (nb * n * n)
            for b, x, y, v in c['cells']: data[(b * n + x) * n + y] = max(float(v), 0.0) or 0.5
            o = native_run(bld, {'n': n, 'nb': nb, 'pattern': pat, 'data': data, 'ops': ['x', 'y', 'i'], 'want_proj': 1}, 'c09')
            import numpy as _np
            a = _np.array(data, dtype=_np.float64).reshape(nb, n, n); wsn = _np.array(o['ws'], dtype=_np.float64); pr = _np.array(o['proj']).reshape(2, nb, n)
            ex_ = abs(pr[0] - a @ wsn).max(); ey_ = abs(pr[1] - _np.einsum('bxy,x->by', a, wsn)).max(); sc = max(1e-30, abs(pr).max())
            return (max(ex_, ey_) > 1e-4 * sc, 'native n=%d: largest deviation of the position profile from sum_y w_y data: %.3g, of the energy profile from sum_x w_x data: %.3g (scale %.3g)' % (n, ex_, ey_, sc))
        return (True, 'formula identity of the real kernels: %s' % str(c)[:160])
    return rp
def get_replayer(): return replayer(ps_build())

def main(tier):
    chk = Check('C09', tier, '4/C09')
    bld = ps_build()
    if tier == 'quick':
        norm = [(5, 2, 1), (4, 3, 2), (5, 1, 0)]; moms = [(6, 3, 2, ax, (-6, 6), (-6, 6)) for ax in (0, 1)] + [(5, 2, 1, ax, (-5, 7), (-6.5, 5.5)) for ax in (0, 1)]; cps = [(4, 2, 1), (4, 3, 2)]
    else:
        norm = [(n, nb, pat) for n in (4, 5, 6) for nb, pat in ((1, 0), (2, 0), (2, 1), (3, 2), (3, 1))]
        moms = [(n, nb, pat, ax, q, p) for n in (5, 6, 8) for nb, pat in ((1, 0), (2, 1), (3, 2)) for ax in (0, 1) for q, p in (((-6, 6), (-6, 6)), ((-5, 7), (-6.5, 5.5)))]
        cps = [(n, nb, pat) for n in (4, 5) for nb, pat in ((1, 0), (2, 1), (3, 2))]
    projs = [(5, 2), (4, 3), (260, 1, True)] if tier == 'quick' else [(5, 2), (6, 3), (8, 1), (260, 1, True), (258, 2, True), (515, 1, True)]
    jobs = [(job_projections, a) for a in projs] + [(job_normalize, a) for a in norm] + ([] if tier == 'quick' else [(job_normalize, (260, 1, 0, True)), (job_normalize, (258, 2, 1, True))]) + [(job_normalize_again, a) for a in norm if a[2] == 2] + [(job_moments, a) for a in moms] + [(job_moments, (260, 1, 0, ax, (-6, 6), (-6, 6), True)) for ax in (0, 1)] + [(job_copy, a) for a in cps]
    chk.bounds = {'projections (n, bunches[, sparse])': projs, 'normalisation (n, bunches, pattern)': norm, 'moments': moms, 'copy': cps, 'data': 'every cell a non-negative real symbol; projections and charges independent symbols in the moment obligations'}
    chk.assumptions = ['floats as reals; sqrtf uninterpreted (rms == sqrt(variance) structurally)', 'equal extents of both axes (as main builds the grid); with unequal extents the shared Simpson weights (cell size of axis 0) scale the energy moments - outside the documented domain',
                       'the Gaussian clause (a Gaussian of given mean/width reports them up to discretisation error) is not decided: it needs exp and a quadrature error bound; the exact moment formulas on arbitrary data are', 'OpenCL path outside']
    chk.stubs = ['operator new/delete', 'pow(x,2)=x*x', 'sqrtf uninterpreted']
    chk.replayer = replayer(bld)
    chk.add(run_jobs(jobs, budget=900))
    chk.finish()

if __name__ == '__main__':
    main(sys.argv[1] if len(sys.argv) > 1 else 'quick')
