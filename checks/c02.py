"""C02 - whole-cell shifts are lossless; fractional shifts reproduce polynomials; weights sum to one."""
import sys, os
sys.path.insert(0, os.path.dirname(os.path.abspath(__file__)))
from maps_common import *

NODES = {1: [0], 2: [0, 1], 3: [-1, 0, 1], 4: [-1, 0, 1, 2]}

def job_weights(res, it):
    """calcCoefficiants(ic, f, it) for a symbolic f in [0,1): partition of unity and polynomial reproduction of every degree < it (reals)."""
    bld = maps_build(); mod = load_module(bld, MAPS_MODS)
    snap, R, pre = maps_world(bld, 8, 1, it)
    validate(res, mod, snap, pre)
    ex = Exec(mod, snap, RealDom()); st = State()
    f = z3.Real('f'); st.pc += [f >= 0, f < 1]
    s = ex.run1(st, 'e_coeff', [R['ic'], f, it]); account(res, ex, mod, [s])
    w = get_reals(ex, s, R['ic'], it)
    tol = z3.RealVal('1/10000000') if it == 4 else z3.RealVal(0)
    for d in range(it):
        lhs = sum([w[j] * (Fraction(NODES[it][j]) ** d) for j in range(it)], z3.RealVal(0))
        rhs = f ** d if d > 0 else z3.RealVal(1)
        prove(res, 'weights it=%d: sum_j w_j(f)*node_j^%d == f^%d for every real f in [0,1) (tol %s)' % (it, d, d, tol), s.pc, z3.Or(lhs - rhs > tol, lhs - rhs < -tol),
              key='weights-moment-%d' % d, cex_fn=lambda m, d=d: {'replay': 'coeff', 'it': it, 'f': mval(m, f), 'degree': d})
    if it >= 2:
        f2 = z3.Real('f2'); witness(res, 'weights it=%d depend on f' % it, list(s.pc) + [f2 >= 0, f2 < 1], z3.Or(*[z3.substitute(x, (f, f2)) != x for x in w]))
    # f = 0 exactly (IEEE, concrete): one unit weight, all others (signed) zero
    exc = Exec(mod, snap, ConcreteDom()); sc = exc.run1(State(), 'e_coeff', [R['ic'], np.float32(0), it])
    wz = [float(exc.load(sc, R['ic'] + 4 * j, F32)) for j in range(it)]
    ok = sorted(abs(x) for x in wz) == [0.0] * (it - 1) + [1.0] and wz[NODES[it].index(0)] == 1.0
    res.obs.append(Ob('weights it=%d at f=0 (IEEE): unit weight on node 0, zeros elsewhere: %s' % (it, wz), 'holds' if ok else 'violated', key='weights-f0',
                      cex=None if ok else {'replay': 'coeff', 'it': it, 'f': 0.0, 'weights': wz}))

def job_weights_fp(res, it):
    """every single-precision f in [0,1): the float weights sum to 1 within 3e-6 and collapse at 0 - decided in the z3 IEEE theory for it<=2,
    and by a relative-error enclosure (each float op = exact*(1+e), |e|<=2^-24) for it = 3, 4"""
    bld = maps_build(); mod = load_module(bld, MAPS_MODS)
    snap, R, pre = maps_world(bld, 8, 1, it)
    if it <= 2:
        ex = Exec(mod, snap, FPDom()); st = State()
        f = z3.FP('f', z3.Float32()); st.pc += [z3.fpGEQ(f, z3.FPVal(0.0, z3.Float32())), z3.fpLT(f, z3.FPVal(1.0, z3.Float32()))]
        s = ex.run1(st, 'e_coeff', [R['ic'], f, it]); account(res, ex, mod, [s])
        w = [ex.dom.z(ex.load(s, R['ic'] + 4 * j, F32)) for j in range(it)]
        tot = w[0]
        for x in w[1:]: tot = z3.fpAdd(z3.RNE(), tot, x)
        one = z3.FPVal(1.0, z3.Float32()); tol = z3.FPVal(3e-6, z3.Float32())
        prove(res, 'weights it=%d: for EVERY float f in [0,1) the float weights sum to 1 within 3e-6 (IEEE theory)' % it, s.pc,
              z3.Not(z3.fpLEQ(z3.fpAbs(z3.fpSub(z3.RNE(), tot, one)), tol)), key='weights-float-sum', cex_fn=lambda m: {'replay': 'coeff', 'it': it, 'f': mval(m, f)}, timeout_ms=400000)
        return
    ex = Exec(mod, snap, EpsDom()); st = State()
    f = z3.Real('f'); st.pc += [f >= 0, f < 1]
    s = ex.run1(st, 'e_coeff', [R['ic'], f, it]); account(res, ex, mod, [s])
    w = get_reals(ex, s, R['ic'], it)
    exr = Exec(mod, snap, RealDom()); sr = exr.run1(State(), 'e_coeff', [R['ic'], f, it]); wr = get_reals(exr, sr, R['ic'], it)
    eps = ex.dom.constraints()
    for j in range(it):
        # per-weight lemma |fl(w_j) - w_j| <= 5e-7 ; composes to |sum fl(w) - 1| <= 4*5e-7 + 1e-7 + 3 additions*2^-24*2 < 3e-6
        prove(res, 'weights it=%d: |fl(w_%d(f)) - w_%d(f)| <= 5e-7 for every f in [0,1) under the (1+e) rounding model (%d error terms)' % (it, j, j, len(eps)),
              list(s.pc) + eps, z3.Or(w[j] - wr[j] > z3.RealVal('5/10000000'), w[j] - wr[j] < -z3.RealVal('5/10000000')), key='weights-float-enclosure',
              cex_fn=lambda m, j=j: {'replay': 'coeff', 'it': it, 'f': mval(m, f), 'weight': j}, timeout_ms=400000)

PRE = 0.37
def job_shift(res, n, nb, it, axis, b, r, hist=False):
    """whole-cell shift of row r of bunch b by every k that fits: output bit pattern == input shifted by k, zeros flow in (z3 IEEE theory).
    hist: the same map object has kicked before with a fractional displacement on every row (whatever that left in the table must not show)."""
    bld = maps_build(); mod = load_module(bld, MAPS_MODS)
    snap, R, pre = maps_world(bld, n, nb, it)
    km = 'kmy' if axis else 'kmx'; off = 'offy' if axis else 'offx'
    def cell(base, i): return R[base] + 4 * (b * n * n + (r * n + i if axis else i * n + r))
    F32s = z3.Float32()
    for k in range(-(n - 1), n):
        ex = Exec(mod, snap, FPDom()); st = State()
        ob = b if axis else 0; offdata = R[off + '_data']
        if hist:
            for j in range(nb * n): ex.write_bytes(st, offdata + 4 * j, struct.pack('<f', PRE + 0.01 * (j % 5)))
            st = ex.run1(st, 'e_km_swap_apply', [R[km], R[off]]); st.frames = []
            offdata = vec_data_ptr(ex, st, R[off])          # swapOffset exchanged the vectors: the caller's vector now owns the map's former buffer
            for j in range(nb * n): ex.write_bytes(st, offdata + 4 * j, bytes(4))
        ex.write_bytes(st, offdata + 4 * (ob * n + r), struct.pack('<f', float(k)))
        ds = []
        for i in range(n):
            v = z3.FP('d%d' % i, F32s); ds.append(v); st.sym[cell('data_in', i)] = (4, 'f', v)
            st.pc += [z3.Not(z3.fpIsNaN(v)), z3.Not(z3.fpIsInf(v))]
        s = ex.run1(st, 'e_km_swap_apply', [R[km], R[off]]); account(res, ex, mod, [s])
        bad = []
        # the kick map represents a row by the source of the grid-centre cell: a displacement "fits" when that source is inside the grid
        inrange = 0 <= n // 2 + k < n
        for i in range(n):
            o = ex.load(s, cell('data_out', i), F32)
            src = i + k
            if ex.dom.is_conc(o):
                if float(o) != 0.0 or (0 <= src < n and inrange): bad.append(z3.BoolVal(True))     # a constant cannot equal an arbitrary input
                continue
            if 0 <= src < n:
                d = ds[src]
                same = z3.Or(z3.fpToIEEEBV(o) == z3.fpToIEEEBV(d), z3.And(z3.fpIsZero(d), z3.fpIsZero(o)))
                if not inrange: same = z3.Or(same, z3.fpIsZero(o))
                bad.append(z3.Not(same))
            else:
                bad.append(z3.Not(z3.fpIsZero(o)))
        def cex(m, k=k): return {'replay': 'shift', 'n': n, 'nb': nb, 'it': it, 'axis': axis, 'bunch': b, 'row': r, 'k': k, 'row_data': [mval(m, v) for v in ds], 'hist': hist}
        prove(res, 'whole-cell shift%s n=%d it=%d %s-kick bunch %d row %d k=%+d: out[i] is bit-identical to in[i%+d], zeros flow in (all finite floats)%s' % (' after an earlier fractional kick of the same map' if hist else '', n, it, 'y' if axis else 'x', b, r, k, k, '' if inrange else ' [beyond the map\'s range: each cell is the shifted value or zero]'),
              s.pc, z3.Or(*bad), key='whole-cell-shift', cex_fn=cex, timeout_ms=400000)

def job_ramp_fp(res, n, axis, r, it=2):
    """single precision, EVERY float displacement o of row r with |o| <= 2: the table row KickMap::updateSM builds for linear interpolation names the two cells around the source position
    n/2 + o and splits by its fractional part - index of the first node + weight of the second == n/2 + o within 1e-5 (integer part and fraction come from the same rounded number).  z3 IEEE theory."""
    bld = maps_build(); mod = load_module(bld, MAPS_MODS)
    snap, R, pre = maps_world(bld, n, 1, it)
    km = 'kmy' if axis else 'kmx'; off = 'offy' if axis else 'offx'
    F32s = z3.Float32()
    ex = Exec(mod, snap, FPDom()); st = State()
    o = z3.FP('o', F32s); st.pc += [z3.fpGEQ(o, z3.FPVal(-2.0, F32s)), z3.fpLEQ(o, z3.FPVal(2.0, F32s))]
    for j in range(n): ex.write_bytes(st, R[off + '_data'] + 4 * j, bytes(4))
    st.sym[R[off + '_data'] + 4 * r] = (4, 'f', o)
    sts = run_paths(ex, st, 'e_km_swap', [R[km], R[off]]); account(res, ex, mod, sts)
    tol = z3.FPVal(1e-5, F32s); nob = 0
    for s in sts:
        hp = ex.run1(s, 'e_hinfo', [R[km]]).retval
        i0 = ex.load(s, hp + 8 * (r * it), IntTy(32)); i1 = ex.load(s, hp + 8 * (r * it + 1), IntTy(32))
        w0 = ex.dom.z(ex.load(s, hp + 8 * (r * it) + 4, F32)); w1 = ex.dom.z(ex.load(s, hp + 8 * (r * it + 1) + 4, F32))
        if not (isinstance(i0, int) and isinstance(i1, int)): raise Unsupported('symbolic table index')
        pos = z3.fpAdd(z3.RNE(), z3.FPVal(float(i0), F32s), w1); want = z3.fpAdd(z3.RNE(), z3.FPVal(float(n // 2), F32s), o)
        def cex(m): return {'replay': 'ramp', 'n': n, 'it': it, 'axis': axis, 'row': r, 'off': mval(m, o)}
        prove(res, 'table row for linear interpolation, %s-kick n=%d row %d, EVERY float displacement in [-2,2] (case %s): nodes %d,%d are neighbours, first index + second weight == n/2 + displacement within 1e-5, weights sum to 1 within 1e-6' % ('y' if axis else 'x', n, r, [str(c)[:50] for c in s.pc[2:3]], i0, i1),
              s.pc, z3.Or(z3.BoolVal(i1 != i0 + 1), z3.Not(z3.fpLEQ(z3.fpAbs(z3.fpSub(z3.RNE(), pos, want)), tol)), z3.Not(z3.fpLEQ(z3.fpAbs(z3.fpSub(z3.RNE(), z3.fpAdd(z3.RNE(), w0, w1), z3.FPVal(1.0, F32s))), z3.FPVal(1e-6, F32s)))),
              key='ramp-float', cex_fn=cex, timeout_ms=400000); nob += 1
    witness(res, 'table obligations exist for several integer parts (n=%d axis=%d)' % (n, axis), [], z3.BoolVal(nob >= 4))

def job_poly(res, n, it, axis, r, kmax):
    """fractional shift off = k + f of a polynomial row of degree < it with symbolic coefficients: interior outputs equal p(y + off)"""
    bld = maps_build(); mod = load_module(bld, MAPS_MODS)
    nb = 1; b = 0
    snap, R, pre = maps_world(bld, n, nb, it)
    km = 'kmy' if axis else 'kmx'; off = 'offy' if axis else 'offx'
    ex = Exec(mod, snap, RealDom()); st = State()
    o = z3.Real('off'); st.pc += [o >= -kmax, o <= kmax]; st.ranges['off'] = (Fraction(-kmax), Fraction(kmax))
    st.sym[R[off + '_data'] + 4 * r] = (4, 'f', o)
    cs = [z3.Real('c%d' % d) for d in range(it)]
    for c in cs: st.pc += [c >= -1, c <= 1]
    def p(y): return sum([cs[d] * (y ** d if d else 1) for d in range(it)], z3.RealVal(0))
    def cell(base, i): return R[base] + 4 * ((r * n + i) if axis else (i * n + r))
    for i in range(n): st.sym[cell('data_in', i)] = (4, 'f', p(z3.RealVal(i)))
    sts = run_paths(ex, st, 'e_km_swap_apply', [R[km], R[off]]); account(res, ex, mod, sts)
    tol = z3.RealVal(str(Fraction(1, 10**6) * n ** 3)) if it == 4 else z3.RealVal(0)
    for s in sts:
        bad = []; kcase = [str(c) for c in s.pc if 'off' in str(c)][-1:]
        for i in range(kmax + 2, n - kmax - 2):
            out = ex.dom.z(ex.load(s, cell('data_out', i), F32)); e = out - p(i + o)
            bad.append(z3.Or(e > tol, e < -tol))
        def cex(m): return {'replay': 'poly', 'n': n, 'it': it, 'axis': axis, 'row': r, 'off': mval(m, o), 'coeffs': [mval(m, c) for c in cs], 'kmax': kmax}
        prove(res, 'polynomial reproduction n=%d it=%d %s-kick row %d case %s: out[y] == p(y+off) for all interior y, all coefficients in [-1,1] (tol %s)' % (n, it, 'y' if axis else 'x', r, kcase, tol),
              s.pc, z3.Or(*bad), key='poly-reproduction', cex_fn=cex, timeout_ms=400000)
    if it >= 2:
        s = sts[0]; o2 = z3.Real('off_alt'); i = n // 2; out = ex.dom.z(ex.load(s, cell('data_out', i), F32))
        witness(res, 'polynomial row output depends on off (n=%d it=%d)' % (n, it), list(s.pc) + [z3.substitute(c, (o, o2)) for c in s.pc if 'off' in str(c)], z3.substitute(out, (o, o2)) != out)

def replayer(bld):
    def rp(path, c):
        what = c['replay']
        if what == 'coeff':
            return (True, 'weight identity is a statement about calcCoefficiants itself; model f=%s' % c.get('f'))
        n = c['n']; it = c['it']; axis = c['axis']
        if what == 'shift':
            nb, b, r, k = c['nb'], c['bunch'], c['row'], c['k']
            data = [0.0] * (nb * n * n)
            vals = [float(v) if not isinstance(v, str) else 1.0 for v in c['row_data']]
            for i, v in enumerate(vals): data[b * n * n + (r * n + i if axis else i * n + r)] = v
            off = [0.0] * (nb * n); off[(b if axis else 0) * n + r] = float(k)
            spec = {'what': 'kick', 'n': n, 'nb': nb, 'it': it, 'seed': 7, 'axis': axis, 'data': data, 'off': off}
            if c.get('hist'): spec['pre_off'] = [PRE + 0.01 * (j % 5) for j in range(nb * n)]
            o = native_run(bld, spec, 'c02')
            bad = 0
            for i in range(n):
                got = o['out'][b * n * n + (r * n + i if axis else i * n + r)]; src = i + k
                want = f32(vals[src]) if 0 <= src < n else 0.0
                if not (0 <= n // 2 + k < n) and got == 0.0: continue
                if struct.pack('<f', got) != struct.pack('<f', want) and not (got == 0.0 and want == 0.0): bad += 1
            return (bad > 0, 'native whole-cell shift k=%d: %d of %d cells differ from the shifted input' % (k, bad, n))
        if what == 'poly':
            r = c['row']; cs = [float(x) for x in c['coeffs']]; offv = float(c['off']); kmax = c['kmax']
            pv = lambda y: sum(cs[d] * y ** d for d in range(len(cs)))
            data = [0.0] * (n * n)
            for i in range(n): data[(r * n + i) if axis else (i * n + r)] = pv(i)
            off = [0.0] * n; off[r] = offv
            o = native_run(bld, {'what': 'kick', 'n': n, 'nb': 1, 'it': it, 'seed': 7, 'axis': axis, 'data': data, 'off': off}, 'c02')
            dev = 0.0; offf = f32(offv)
            for i in range(kmax + 2, n - kmax - 2):
                got = o['out'][(r * n + i) if axis else (i * n + r)]; dev = max(dev, abs(got - pv(i + offf)))
            lim = 2e-5 * max(1.0, sum(abs(x) for x in cs)) * n ** 3
            return (dev > lim, 'native polynomial row: max |out - p(y+off)| = %.3g (limit %.3g)' % (dev, lim))
        if what == 'ramp':
            r = c['row']; offv = f32(float(c['off'])); data = [0.0] * (n * n)
            for i in range(n): data[(r * n + i) if axis else (i * n + r)] = float(i)
            off = [0.0] * n; off[r] = offv
            o = native_run(bld, {'what': 'kick', 'n': n, 'nb': 1, 'it': it, 'seed': 7, 'axis': axis, 'data': data, 'off': off}, 'c02')
            dev = max(abs(o['out'][(r * n + i) if axis else (i * n + r)] - (i + offv)) for i in range(3, n - 3))
            return (dev > 1e-3, 'native: a linear ramp displaced by %.9g comes out as out[i] = i + displacement up to %.3g on the interior cells' % (offv, dev))
        return (False, 'unknown replay kind')
    return rp

def get_replayer(): return replayer(maps_build())

def main(tier):
    chk = Check('C02', tier, '4/C02')
    bld = maps_build()
    jobs = [(job_weights, (it,)) for it in (1, 2, 3, 4)] + [(job_weights_fp, (it,)) for it in (1, 2, 3, 4)]
    jobs += [(job_ramp_fp, a) for a in (((10, 1, 4), (10, 0, 4), (9, 1, 2)) if tier == 'quick' else [(n, ax, r) for n in (9, 10) for ax in (0, 1) for r in range(n)])]
    if tier == 'quick':
        jobs += [(job_shift, (n, nb, it, axis, (nb - 1) if axis else 0, r)) for n, nb in ((6, 2), (5, 1)) for it in (1, 2, 3, 4) for axis in (0, 1) for r in (0, 3)]
        jobs += [(job_shift, (n, nb, it, axis, (nb - 1) if axis else 0, r, True)) for n, nb in ((6, 2), (5, 1)) for it in (2, 4) for axis in (0, 1) for r in (3,)]
        jobs += [(job_poly, (n, it, axis, r, 1)) for n in (10, 11) for it in (1, 2, 3, 4) for axis in (0, 1) for r in (0, 5)]
    else:
        jobs += [(job_shift, (n, nb, it, axis, b, r)) for n, nb in ((6, 2), (9, 1)) for it in (1, 2, 3, 4) for axis in (0, 1) for b in range(nb) for r in range(n)]
        jobs += [(job_shift, (n, nb, it, axis, b, r, True)) for n, nb in ((6, 2), (9, 1)) for it in (1, 2, 3, 4) for axis in (0, 1) for b in range(nb) for r in (0, n // 2, n - 1)]
        jobs += [(job_poly, (n, it, axis, r, 2)) for n in (10, 12) for it in (1, 2, 3, 4) for axis in (0, 1) for r in range(n)]
    import c14 as _c14
    jobs += [(_c14.job_process_state, ())]      # bit-exactness presupposes the default floating-point environment and no hidden process-wide state
    chk.bounds = {'weights': 'every real f in [0,1) (exact reals); every float f for it<=2 in the IEEE theory; (1+e)-enclosure per weight for it=3,4; f=0 concrete IEEE',
                  'whole-cell shifts': 'grids 6 and 5 (quick) / 6,9 (thorough), every k with |k| < n, both axes, it=1..4, one row at a time with all n cells arbitrary finite floats (z3 FP theory, bit patterns compared; sign of zero not distinguished)',
                  'table rows (float)': 'linear interpolation, grids 9/10, every float displacement in [-2,2] of one row: index + weight == source position (IEEE theory)',
                  'polynomials': 'grids 10, 11 (quick) / 10,12, |off| <= 1 (2), symbolic coefficients in [-1,1], degree < it, interior cells'}
    chk.assumptions = ['llvm.fmuladd evaluated unfused (LangRef allows either; with 0/1 weights both give the same bits)', 'NaN/inf data and displacements beyond 2^24 cells are outside the claim',
                       'RotationMap::genHInfo (2-D weights) is not encoded: outside the claim of this check']
    chk.stubs = ['operator new/delete', 'modff exact']
    chk.replayer = replayer(bld)
    chk.add(run_jobs(jobs, budget=900 if tier == 'quick' else 3000))
    chk.finish()

if __name__ == '__main__':
    main(sys.argv[1] if len(sys.argv) > 1 else 'quick')
