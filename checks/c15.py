"""C15 - tracked particles follow the flow of the distribution and never leave the grid."""
import sys, os
sys.path.insert(0, os.path.dirname(os.path.abspath(__file__)))
from maps_common import *

NORMAL_PFX = '_ZNSt19normal_distributionIfEclI'
def make_normal_model(draws):
    def model(ex, st, fr, args, ins):
        dist, eng, par = args
        mu = ex.load(st, par, F32); sd = ex.load(st, par + 4, F32)
        xi = z3.Real('xi%d' % len(draws)); draws.append((xi, mu, sd))
        return ex.dom.bin('fadd', mu, ex.dom.bin('fmul', sd, xi, 32), 32)
    return model

def sym_pos(ex, st, R, n, lo=0, hi=None):
    hi = n - 1 if hi is None else hi
    px = z3.Real('px'); py = z3.Real('py')
    st.pc += [px >= lo, px <= hi, py >= lo, py <= hi]; st.ranges['px'] = (Fraction(lo), Fraction(hi)); st.ranges['py'] = (Fraction(lo), Fraction(hi))
    st.sym[R['pos']] = (4, 'f', px); st.sym[R['pos'] + 4] = (4, 'f', py)
    return px, py

def job_contain_kick(res, n, nb, it, axis):
    """KickMap::applyTo for every position in [0,n-1]^2 and every (unbounded) displacement field: the result stays in [0,n-1]^2"""
    bld = maps_build(); mod = load_module(bld, MAPS_MODS)
    snap, R, pre = maps_world(bld, n, nb, it)
    validate(res, mod, snap, pre)
    km = 'kmy' if axis else 'kmx'
    ex = Exec(mod, snap, RealDom()); ex.int_range = (-2, n + 2); st = State()
    px, py = sym_pos(ex, st, R, n)
    force = ex.run1(State(), 'e_force', [R[km]]).retval
    offs = []
    for i in range(nb * n):
        v = z3.Real('o%d' % i); offs.append(v); st.sym[force + 4 * i] = (4, 'f', v)
    sts = run_paths(ex, st, 'e_applyTo', [R[km], R['pos']]); account(res, ex, mod, sts)
    for s in sts:
        nx = ex.dom.z(ex.load(s, R['pos'], F32)); ny = ex.dom.z(ex.load(s, R['pos'] + 4, F32))
        def cex(m): return {'replay': 'kickpos', 'n': n, 'nb': nb, 'it': it, 'axis': axis, 'pos': [mval(m, px), mval(m, py)], 'off': [mval(m, v) for v in offs], 'new': [mval(m, nx), mval(m, ny)]}
        prove(res, '%s-kick applyTo n=%d: new position inside [0,%d]^2 for every start in the grid and every displacement field (case %s)' % ('y' if axis else 'x', n, n - 1, [str(c) for c in s.pc[-1:]]),
              s.pc, z3.Or(nx < 0, nx > n - 1, ny < 0, ny > n - 1), key='kick-applyTo-containment', cex_fn=cex)
    witness(res, 'applyTo paths cover all %d integer parts of the perpendicular coordinate' % n, [], z3.BoolVal(len(sts) >= n))

def job_contain_fp(res, n, nb, fptrack, dt):
    bld = maps_build(); mod = load_module(bld, MAPS_MODS)
    snap, R, pre = maps_world(bld, n, nb, 4, fptrack=fptrack, dt=dt, pmax=6.5)
    if fptrack != 3: validate(res, mod, snap, pre)
    draws = []
    ex = Exec(mod, snap, RealDom()); ex.int_range = (-2, n + 2); ex.ext_prefix.append((NORMAL_PFX, make_normal_model(draws))); st = State()
    ex.dom.div0_fresh = True      # model 2 divides by the local charge: 0/0 (NaN natively) is an arbitrary value here; the clamp that follows bounds either
    px, py = sym_pos(ex, st, R, n)
    if fptrack == 2:
        sym_reals(ex, st, R['data_in'], ['d%d' % i for i in range(nb * n * n)], 0, 1)
    sts = run_paths(ex, st, 'e_applyTo', [R['fpm'], R['pos']]); account(res, ex, mod, sts)
    for s in sts:
        nx = ex.dom.z(ex.load(s, R['pos'], F32)); ny = ex.dom.z(ex.load(s, R['pos'] + 4, F32))
        def cex(m): return {'replay': 'fppos', 'n': n, 'nb': nb, 'fptrack': fptrack, 'dt': dt, 'pos': [mval(m, px), mval(m, py)], 'new': [mval(m, nx), mval(m, ny)], 'noise': [mval(m, d[0]) for d in draws]}
        prove(res, 'Fokker-Planck applyTo tracking model %d (stencil %d) n=%d: new position inside [0,%d]^2 for every start in the grid, every noise draw (case %s)' % (fptrack, dt, n, n - 1, [str(c)[:40] for c in s.pc[-1:]]),
              s.pc, z3.Or(nx < 0, nx > n - 1, ny < 0, ny > n - 1), key='fp-applyTo-containment-model%d' % fptrack, cex_fn=cex)

def job_contain_ieee(res, n, what, fptrack, dt, yi):
    """IEEE-754 semantics (z3 FP theory) of the final clamp: position (x, yi+f), f an arbitrary float in [0,1); the data cells the model reads are arbitrary
    finite non-negative floats (so the local charge may be exactly zero: 0/0 = NaN natively).  The new coordinate is a number inside the grid."""
    bld = maps_build(); mod = load_module(bld, MAPS_MODS)
    snap, R, pre = maps_world(bld, n, 1, 4, fptrack=fptrack, dt=dt, pmax=6.5)
    ex = Exec(mod, snap, FPDom()); ex.int_range = (-2, n + 2); st = State(); S32 = z3.Float32()
    def fpsym(name, lo, hi, strict=False):
        v = z3.FP(name, S32); st.pc += [z3.fpGEQ(v, z3.FPVal(float(lo), S32)), (z3.fpLT if strict else z3.fpLEQ)(v, z3.FPVal(float(hi), S32))]; st.ranges[name] = (lo, hi); return v
    x0 = n // 2
    py = fpsym('py', yi, min(yi + 1, n - 1), strict=(yi + 1 <= n - 1) and yi < n - 1)
    ex.write_bytes(st, R['pos'], struct.pack('<f', float(x0))); st.sym[R['pos'] + 4] = (4, 'f', py)
    if what == 'fpm':
        for y in range(n): st.sym[R['data_in'] + 4 * (x0 * n + y)] = (4, 'f', fpsym('d%d' % y, 0, 1e30))
        obj = R['fpm']
    else:
        force = ex.run1(State(), 'e_force', [R[what]]).retval
        for i in range(n): st.sym[force + 4 * i] = (4, 'f', fpsym('o%d' % i, -3e38, 3e38))
        ex.write_bytes(st, R['pos'], struct.pack('<f', float(yi))); st.sym.pop(R['pos'] + 4, None); ex.write_bytes(st, R['pos'] + 4, struct.pack('<f', float(x0)))
        if what == 'kmy': st.sym[R['pos']] = (4, 'f', py)
        else: ex.write_bytes(st, R['pos'], struct.pack('<f', float(x0))); st.sym[R['pos'] + 4] = (4, 'f', py)
        obj = R[what]
    sts = run_paths(ex, st, 'e_applyTo', [obj, R['pos']]); account(res, ex, mod, sts)
    for s in sts:
        bad = []
        for off_ in (0, 4):
            v = ex.load(s, R['pos'] + off_, F32)
            if ex.dom.is_conc(v):
                if not (0 <= float(v) <= n - 1): bad.append(z3.BoolVal(True))
            else: bad.append(z3.Not(z3.And(z3.Not(z3.fpIsNaN(v)), z3.fpGEQ(v, z3.FPVal(0.0, S32)), z3.fpLEQ(v, z3.FPVal(float(n - 1), S32)))))
        prove(res, '%s applyTo (tracking model %d, stencil %d) n=%d row %d, IEEE semantics: new coordinates are numbers inside [0,%d] for every float position in the row and every finite input the model reads (incl. zero local charge)' % (what, fptrack, dt, n, yi, n - 1),
              s.pc, z3.Or(*bad) if bad else z3.BoolVal(False), key='applyTo-containment-ieee', timeout_ms=180000,
              cex_fn=lambda m: {'replay': 'fppos', 'n': n, 'nb': 1, 'fptrack': fptrack, 'dt': dt, 'pos': [float(x0), mval(m, py)], 'ieee': True})

def job_stochastic_model(res, n, dt):
    """the stochastic model damps toward the zero-energy bin with decrement e1 and adds N(0, sqrt(2 e1)/delta) noise"""
    bld = maps_build(); mod = load_module(bld, MAPS_MODS)
    pmin, pmax = -6.0, 6.5
    snap, R, pre = maps_world(bld, n, 1, 4, fptrack=3, dt=dt, pmax=pmax)
    draws = []
    ex = Exec(mod, snap, RealDom()); ex.int_range = (-2, n + 2); ex.ext_prefix.append((NORMAL_PFX, make_normal_model(draws))); st = State()
    px, py = sym_pos(ex, st, R, n, 1, n - 1)
    sts = run_paths(ex, st, 'e_applyTo', [R['fpm'], R['pos']]); account(res, ex, mod, sts)
    e1 = Fraction(f32(0.01)); delta = Fraction(f32(f32(pmax - pmin) / f32(n - 1)))
    yc = Fraction(f32(((pmin + pmax) / (pmin - pmax) + 1) * (n - 1) / 2))
    for s in sts:
        ny = ex.dom.z(ex.load(s, R['pos'] + 4, F32))
        if len(draws) != 1: raise Unsupported('expected exactly one noise draw per particle step, got %d' % len(draws))
        xi, mu, sd = draws[0]
        want = yc + (1 - e1) * (py - yc) - (ex.dom.z(mu) + ex.dom.z(sd) * xi)
        inside = z3.And(want >= 1, want <= n - 1)
        tol = z3.RealVal('1/100000')
        prove(res, 'stochastic tracking n=%d stencil %d: y\' - yc == (1-e1)(y - yc) - noise whenever that stays inside the grid (yc = zero-energy bin %.3f)' % (n, dt, float(yc)),
              list(s.pc) + [inside], z3.Or(ny - want > tol, ny - want < -tol), key='fp-stochastic-damps-to-zerobin',
              cex_fn=lambda m: {'replay': 'fppos', 'n': n, 'nb': 1, 'fptrack': 3, 'dt': dt, 'pos': [mval(m, px), mval(m, py)], 'noise': [mval(m, xi)], 'new': [None, mval(m, ny)], 'want_y': mval(m, want)})
        sdw = math.sqrt(2 * float(e1)) / float(delta)
        ok = isinstance(mu, Fraction) and mu == 0 and isinstance(sd, Fraction) and abs(float(sd) - sdw) <= 1e-5 * sdw
        res.obs.append(Ob('noise distribution of the stochastic model is N(0, sqrt(2*e1)/delta): mean %s, sigma %s (expected %.6g)' % (mu, float(sd), sdw), 'holds' if ok else 'violated', key='fp-stochastic-noise-width',
                          cex=None if ok else {'mean': str(mu), 'sigma': float(sd), 'expected': sdw}))
    # consequence (pure SMT): with that update rule the stationary variance is sigma^2/(1-(1-e1)^2) = 1/(delta^2 (1 - e1/2)) -> unit natural width
    E = z3.Real('E'); V = z3.Real('V'); S2 = z3.Real('S2'); D = z3.Real('D')
    prove(res, 'stationary variance of y\' = (1-e)y - xi with Var xi = 2e/D^2 is 1/(D^2 (1-e/2)) (algebra)', [E > 0, E < 1, D > 0, S2 == 2 * E / (D * D), V == (1 - E) * (1 - E) * V + S2],
          V * D * D * (1 - E / 2) != 1, key='fp-stochastic-stationary-width')

def job_fp_track_centroid(res, n, fptype, dt, fptrack=1):
    """deterministic Fokker-Planck tracking: a particle on a grid point moves like the centre of a unit blob put through the same map's apply(), for every damping decrement e1 in (0,1/4]
    and every Fokker-Planck type (none / damping / diffusion / full) - the map is built by the real constructor from IR with e1 symbolic"""
    bld = maps_build(); mod = load_module(bld, MAPS_MODS)
    pmin, pmax = -6.0, 6.5
    snap, R, pre = maps_world(bld, n, 1, 4, pmin=pmin, pmax=pmax, qmin=-4.0, qmax=8.0)
    ex = Exec(mod, snap, RealDom()); st = State()
    e1 = z3.Real('e1'); st.pc += [e1 > 0, e1 <= Fraction(1, 4)]; st.ranges['e1'] = (Fraction(0), Fraction(1, 4))
    st = ex.run1(st, 'e_new_fp', [R['in'], R['out'], fptype, fptrack, e1, dt]); fpm = st.retval; st.frames = []
    zb = ((pmin + pmax) / (pmin - pmax) + 1) * (n - 1) / 2; zc = int(math.floor(zb)); X = n // 2
    rows = [y for y in range(4, n - 4) if not (dt == 4 and zc - 2 <= y <= zc + 1)]
    for Y in (rows[0], rows[len(rows) // 2], rows[-1]):
        s0 = st.fork(); s0.frames = []
        for i in range(n * n): ex.write_bytes(s0, R['data_in'] + 4 * i, bytes(4))
        ex.write_bytes(s0, R['data_in'] + 4 * (X * n + Y), struct.pack('<f', 1.0))
        sa = run_paths(ex, s0, 'e_apply', [fpm])[0]; sa.frames = []
        col = [ex.dom.z(ex.load(sa, R['data_out'] + 4 * (X * n + y), F32)) for y in range(n)]
        tot = sum(col[1:], col[0]); cen = sum([y * c for y, c in enumerate(col)], z3.RealVal(0))
        ex.write_bytes(sa, R['pos'], struct.pack('<ff', float(X), float(Y)))
        for sb in run_paths(ex, sa, 'e_applyTo', [fpm, R['pos']]):
            ny = ex.dom.z(ex.load(sb, R['pos'] + 4, F32)); nx = ex.dom.z(ex.load(sb, R['pos'], F32))
            tol = z3.RealVal('1/10000')
            prove(res, 'FP tracking model %d, type %d, stencil %d, n=%d: a particle on grid point (%d,%d) moves in energy by the shift of the centre of a unit blob under apply(), for every e1; its position is unchanged' % (fptrack, fptype, dt, n, X, Y),
                  list(sb.pc) + [tot > 0], z3.Or((ny - Y) * tot - (cen - Y * tot) > tol * tot, (ny - Y) * tot - (cen - Y * tot) < -tol * tot, nx != X), key='fp-track-centroid',
                  cex_fn=lambda m, Y=Y: {'replay': 'fpcent', 'n': n, 'X': X, 'fptrack': fptrack, 'fptype': fptype, 'dt': dt, 'Y': Y, 'e1': mval(m, e1), 'particle_dy': mval(m, ny) - Y, 'blob_dy': mval(m, cen) / max(1e-30, mval(m, tot)) - Y})
        account(res, ex, mod, [sa])
    if fptype in (1, 3): witness(res, 'FP tracking model %d type %d: the particle shift depends on e1' % (fptrack, fptype), list(st.pc), z3.BoolVal(True))

def job_centroid(res, n, it, axis, X, Y, frac, key='particle-follows-blob', what=None):
    """particle at (X[+1/2], Y) vs the centre of a unit blob of charge placed on it, after one kick with a symbolic displacement field"""
    bld = maps_build(); mod = load_module(bld, MAPS_MODS)
    snap, R, pre = maps_world(bld, n, 1, it)
    km = 'kmy' if axis else 'kmx'; off = 'offy' if axis else 'offx'
    if what:      # a map made by its real constructor (RF kick of either model, drift), reached through the virtual applyTo/apply of that object; the displacement rows the particle sees are overlaid with symbols
        km = what; axis = 0 if what == 'drift' else 1
    ex = Exec(mod, snap, RealDom()); st = State()
    # blob: perpendicular coordinate P (=X), kick coordinate K (=Y)
    rows = [X, X + 1] if frac else [X]
    os_ = {}
    for r in rows:
        o = z3.Real('off%d' % r); st.pc += [o >= -1, o <= 1]; st.ranges['off%d' % r] = (Fraction(-1), Fraction(1)); os_[r] = o
        st.sym[(R[what + '_force'] if what else R[off + '_data']) + 4 * r] = (4, 'f', o)
    for i in range(n * n): ex.write_bytes(st, R['data_in'] + 4 * i, bytes(4))
    wts = {X: Fraction(1, 2), X + 1: Fraction(1, 2)} if frac else {X: Fraction(1)}
    def cell(base, r, i): return R[base] + 4 * ((r * n + i) if axis else (i * n + r))
    for r, w in wts.items(): ex.write_bytes(st, cell('data_in', r, Y), struct.pack('<f', float(w)))
    ppos = (X + (0.5 if frac else 0.0), float(Y)) if axis else (float(Y), X + (0.5 if frac else 0.0))
    ex.write_bytes(st, R['pos'], struct.pack('<ff', *ppos))
    if what:      # the table apply() uses is rebuilt from the overlaid field by the real KickMap::updateSM (what swapOffset/_calcKick do after they change the field)
        sts = []
        for s0 in run_paths(ex, st, '_ZN4vfps7KickMap8updateSMEv', [R[km]]): sts += run_paths(ex, s0, 'e_apply', [R[km]])
    else: sts = run_paths(ex, st, 'e_km_swap_apply', [R[km], R[off]])
    fin = []
    for s in sts: fin += run_paths(ex, s, 'e_applyTo', [R[km], R['pos']])
    account(res, ex, mod, fin)
    tol = z3.RealVal('1/100000')
    for s in fin:
        tot = z3.RealVal(0); mom = z3.RealVal(0)
        for r in rows:
            for i in range(n):
                c = ex.dom.z(ex.load(s, cell('data_out', r, i), F32)); tot = tot + c; mom = mom + c * i
        newp = ex.dom.z(ex.load(s, R['pos'] + (4 if axis else 0), F32))
        perp = ex.dom.z(ex.load(s, R['pos'] + (0 if axis else 4), F32))
        def cex(m): return {'replay': 'centroid', 'what': what, 'n': n, 'it': it, 'axis': axis, 'X': X, 'Y': Y, 'frac': frac, 'off': {str(r): mval(m, o) for r, o in os_.items()}, 'particle': mval(m, newp), 'centroid': mval(m, mom)}
        prove(res, ('%s: ' % what if what else '') + '%s-kick n=%d it=%d particle (%s) vs unit blob: new kick coordinate == centroid of the transported blob, perpendicular coordinate unchanged (case %s)' % ('y' if axis else 'x', n, it, ppos, [str(c)[:30] for c in s.pc if 'off' in str(c)][-2:]),
              s.pc, z3.Or(tot - 1 > tol, tot - 1 < -tol, newp - mom > tol, newp - mom < -tol, perp != Fraction(ppos[0] if axis else ppos[1])), key=key, cex_fn=cex)
    s = fin[0]; newp = ex.dom.z(ex.load(s, R['pos'] + (4 if axis else 0), F32)); o = os_[X]; o2 = z3.Real('o_alt')
    if key != 'particle-follows-blob': return      # (on the last grid line the particle does not see the displacement at all: the open finding)
    witness(res, 'particle position depends on the displacement (n=%d it=%d axis=%d)' % (n, it, axis), list(s.pc) + [z3.substitute(c, (o, o2)) for c in s.pc if str(o) in str(c)], z3.substitute(newp, (o, o2)) != newp)

def replayer(bld):
    def rp(path, c):
        what = c['replay']
        if what == 'mainloop': return (True, 'trace obligation over the explored paths of main\'s loop (structural): %s' % str(c.get('example'))[:200])
        if what == 'fpcent':
            n = c['n']; X, Y = c['X'], c['Y']; data = [0.0] * (n * n); data[X * n + Y] = 1.0; e1 = min(0.25, max(1e-3, float(c['e1'])))
            o = native_run(bld, {'what': 'fp', 'n': n, 'nb': 1, 'it': 4, 'seed': 7, 'fptype': c['fptype'], 'fptrack': c['fptrack'], 'dt': c['dt'], 'e1': e1, 'pmin': -6.0, 'pmax': 6.5, 'qmin': -4.0, 'qmax': 8.0, 'data': data, 'pos': [float(X), float(Y)]}, 'c15')
            col = o['out'][X * n:(X + 1) * n]; tot = sum(col); blob = sum(y * v for y, v in enumerate(col)) / tot - Y; part = o['posout'][1] - Y
            return (abs(part - blob) > 1e-3, 'native (e1 = %g): the particle moves by %.5f cells, the centre of the unit blob by %.5f' % (e1, part, blob))
        n = c['n']
        if what == 'kickpos':
            o = native_run(bld, {'what': 'kick', 'n': n, 'nb': c['nb'], 'it': c['it'], 'seed': 7, 'axis': c['axis'], 'off': [float(x) for x in c['off']], 'pos': [float(x) for x in c['pos']]}, 'c15')
            q = o['posout']; bad = not (0 <= q[0] <= n - 1 and 0 <= q[1] <= n - 1)
            return (bad, 'native applyTo%s -> %s' % (c['pos'], q))
        if what == 'fppos':
            worst = None
            spec = {'what': 'fp', 'n': n, 'nb': c['nb'], 'it': 4, 'seed': 7, 'fptrack': c['fptrack'], 'dt': c['dt'], 'pmax': 6.5, 'pos': [float(x) for x in c['pos']] * (400 if c['fptrack'] == 3 else 1)}
            o = native_run(bld, spec, 'c15'); qs = o['posout'] if isinstance(o['posout'][0], list) else [o['posout']]
            if 'want_y' in c:
                # exact replay: the harness reports the draw the step is about to make (copies of the map's generator and distribution) and the decrement
                nz = o['noise'] if isinstance(o['noise'][0], list) else [o['noise']]
                pmin, pmax = -6.0, 6.5; yc = f32(((pmin + pmax) / (pmin - pmax) + 1) * (n - 1) / 2); y0 = f32(float(c['pos'][1])); worst = (0.0, None)
                for q, (xi, e1) in zip(qs, nz):
                    want = y0 - ((y0 - yc) * e1 + xi)
                    if not (1 <= want <= n - 1): continue
                    d = abs(q[1] - want)
                    if d > worst[0]: worst = (d, (q[1], want, xi))
                return (worst[0] > 1e-4, 'native stochastic steps from y=%s with the recorded draws: largest deviation from y - ((y - yc) e1 + xi), yc = zero-energy bin %.4f: %.3g %s' % (y0, yc, worst[0], worst[1]))
            out = [q for q in qs if not (0 <= q[0] <= n - 1 and 0 <= q[1] <= n - 1)]
            if c['fptrack'] == 3:
                # the noise draw cannot be injected natively (private PRNG): start on the edge the model leaves through and look for an escape
                return (len(out) > 0, 'native: %d of %d stochastic steps from %s left the grid, e.g. %s' % (len(out), len(qs), c['pos'], out[:1]))
            return (len(out) > 0, 'native applyTo%s -> %s' % (c['pos'], qs[0]))
        if what == 'centroid':
            # the model's displacements, a unit blob on the particle, the real KickMap: centre of the transported blob against the particle after applyTo
            axis, X, Y, frac = c['axis'], c['X'], c['Y'], c['frac']
            if c.get('what'):
                # the displacement field of a constructor-made map cannot be set natively: replay with the constructor's own field (the particle must follow the blob for that one too)
                data = [0.0] * (n * n); rows = {X: 0.5, X + 1: 0.5} if frac else {X: 1.0}
                for r, w in rows.items(): data[(r * n + Y) if axis else (Y * n + r)] = w
                pos = (X + (0.5 if frac else 0.0), float(Y)) if axis else (float(Y), X + (0.5 if frac else 0.0))
                spec = {'what': {'rflin': 'rflin', 'rfsin': 'rfsin', 'drift': 'drift'}[c['what']], 'n': n, 'nb': 1, 'it': c['it'], 'seed': 7, 'data': data, 'pos': list(pos)}
                # first with the model's displacements put into the map (swapOffset), then - if that shows nothing - with the constructor's own field
                off = list(native_run(bld, spec, 'c15')['force'][:n])      # the constructor's own field ...
                for r, v in c['off'].items(): off[int(r)] = float(v)      # ... with the counterexample's rows put in (every other row keeps its value, as in the model)
                spec['set_off'] = off
                if c['what'] == 'drift': spec.update({'slip': [0.11, 0.013, 0.0017], 'E0': 1.3e9})
                if c['what'] == 'rfsin': spec.update({'revpart': 0.02, 'V': 1.4e6, 'fRF': 4.99e8, 'V0': 4.5e5})
                o = native_run(bld, spec, 'c15'); out = o['out']; tot = 0.0; mom = 0.0
                for r in rows:
                    for i in range(n):
                        v = out[(r * n + i) if axis else (i * n + r)]; tot += v; mom += v * i
                part = o['posout'][1 if axis else 0]
                if tot <= 0: return (False, 'native: the blob left the grid')
                return (abs(part - mom / tot) > 1e-4, 'native %s (displacement field of the counterexample put in with swapOffset: %s): particle %s -> kick coordinate %.5f, centre of the unit blob %.5f' % (c['what'], c['off'], pos, part, mom / tot))
            off = [0.0] * n
            for r, v in c['off'].items(): off[int(r)] = float(v)
            data = [0.0] * (n * n); rows = {X: 0.5, X + 1: 0.5} if frac else {X: 1.0}
            for r, w in rows.items(): data[(r * n + Y) if axis else (Y * n + r)] = w
            pos = (X + (0.5 if frac else 0.0), float(Y)) if axis else (float(Y), X + (0.5 if frac else 0.0))
            o = native_run(bld, {'what': 'kick', 'n': n, 'nb': 1, 'it': c['it'], 'seed': 7, 'axis': axis, 'off': off, 'data': data, 'pos': list(pos)}, 'c15')
            out = o['out']; tot = 0.0; mom = 0.0
            for r in rows:
                for i in range(n):
                    v = out[(r * n + i) if axis else (i * n + r)]; tot += v; mom += v * i
            part = o['posout'][1 if axis else 0]
            if tot <= 0: return (True, 'native: the blob left the grid, the particle is at %s' % part)
            return (abs(part - mom / tot) > 1e-3 or abs(tot - 1) > 1e-3, 'native KickMap (%s-kick, n=%d, it=%d, displacement %s): particle %s -> kick coordinate %.5f, centre of the unit blob %.5f (blob charge %.5f)' % ('y' if axis else 'x', n, c['it'], c['off'], pos, part, mom / tot, tot))
        return (False, 'unknown')
    return rp

def get_replayer(): return replayer(maps_build())

def EDGE(n, its):
    """the particle on the first / last lines of the grid perpendicular to the kick (the values the clamps of the previous map leave it on)"""
    j = [(job_centroid, (n, it, ax, X, n // 2, fr)) for it in its for ax in (0, 1) for (X, fr) in ((0, 0), (0, 1), (1, 0), (n - 2, 0), (n - 2, 1))]
    # exactly on the last line: KickMap::applyTo skips the displacement there (its guard protects the interpolation's read of the next row) - open finding, own key
    j += [(job_centroid, (n, it, ax, n - 1, n // 2, 0, 'particle-follows-blob-last-line')) for it in its for ax in (0, 1)]
    return j

def main(tier):
    chk = Check('C15', tier, '4/C15')
    bld = maps_build()
    if tier == 'quick':
        jobs = [(job_contain_kick, (8, 1, 2, ax)) for ax in (0, 1)] + [(job_contain_kick, (6, 2, 4, ax)) for ax in (0, 1)]
        jobs += [(job_contain_fp, (8, 1, ft, dt)) for ft in (0, 1, 2, 3) for dt in (3, 4)]
        jobs += [(job_stochastic_model, (8, 3)), (job_stochastic_model, (9, 4))]
        jobs += [(job_fp_track_centroid, (16, ft, dt)) for ft in (0, 1, 2, 3) for dt in (3, 4)]
        jobs += [(job_contain_ieee, (8, 'fpm', ft, dt, yi)) for ft in (1, 2) for dt in (3, 4) for yi in (0, 1, 4, 6, 7)]
        jobs += [(job_contain_ieee, (8, w, 1, 3, yi)) for w in ('kmx', 'kmy') for yi in (0, 3, 7)]
        jobs += [(job_centroid, (10, it, ax, X, Y, fr)) for it in (2, 4) for ax in (0, 1) for (X, Y) in ((4, 5), (2, 4)) for fr in (0, 1)]
        jobs += [(job_centroid, (10, 3, ax, 5, 5, fr)) for ax in (0, 1) for fr in (0, 1)]
        jobs += EDGE(10, (2, 4))
        jobs += [(job_centroid, (10, it, 0, X, 5, fr, 'particle-follows-blob', w)) for w in ('rflin', 'rfsin', 'drift') for it in (2, 4) for (X, fr) in ((4, 0), (6, 1))]
        import c19, c17
        jobs += [(c19.job_queue, (8, 4, 2))]
        jobs += [(c17.job_tracks_index, (4, 1, 8, 2))]      # the stored track: a coordinate anywhere in [0, n-1] - the border values the maps clamp to included - is converted to physical units inside the axis arrays      # modulated RF: the field a tracked particle sees after apply() is the one the step applied (built from the entry just consumed)
    else:
        import c19, c17
        jobs = [(c19.job_queue, (8, 4, 3)), (c19.job_queue, (9, 2, 2)), (c17.job_tracks_index, (4, 1, 8, 2)), (c17.job_tracks_index, (5, 2, 12, 2))]
        jobs += [(job_contain_kick, (n, nb, it, ax)) for n, nb in ((8, 1), (6, 2), (9, 1), (12, 1)) for it in (1, 2, 3, 4) for ax in (0, 1)]
        jobs += [(job_contain_fp, (n, nb, ft, dt)) for n, nb in ((8, 1), (9, 1), (6, 2)) for ft in (0, 1, 2, 3) for dt in (3, 4)]
        jobs += [(job_stochastic_model, (n, dt)) for n in (8, 9, 12) for dt in (3, 4)]
        jobs += [(job_contain_ieee, (n, 'fpm', ft, dt, yi)) for n in (8, 9) for ft in (1, 2) for dt in (3, 4) for yi in range(n)]
        jobs += [(job_contain_ieee, (8, w, 1, 3, yi)) for w in ('kmx', 'kmy') for yi in range(8)]
        jobs += [(job_centroid, (n, it, ax, X, Y, fr)) for n in (10, 11) for it in (2, 3, 4) for ax in (0, 1) for X in range(2, n - 3) for Y in range(3, n - 3) for fr in (0, 1)]
        jobs += EDGE(10, (2, 3, 4)) + EDGE(11, (2, 3, 4))
        jobs += [(job_centroid, (n, it, 0, X, n // 2, fr, 'particle-follows-blob', w)) for n in (10, 11) for w in ('rflin', 'rfsin', 'drift') for it in (2, 3, 4) for X in range(0, n - 1) for fr in (0, 1)]
    chk.bounds = {'containment': 'every real start position in [0,n-1]^2 (integer part of the interpolation coordinate case-split), every real displacement field / noise draw (unbounded), grids 6-12',
                  'centroid': 'unit blob on a grid point or split over two neighbouring rows (half-integer position), displacement of each involved row symbolic in [-1,1]; every line perpendicular to the kick from the first to the last, kick coordinate in the interior (near the border in kick direction the blob is pushed off the grid and has no centre); it>=2',
                  'stochastic model': 'one step, e1 = 0.01, shifted energy axis (zero bin off-centre)'}
    chk.assumptions = ['floats as reals: NaN positions/displacements are outside the claim', 'std::normal_distribution::operator() returns mean + sigma*xi with xi an arbitrary real (parameters read from the real object)',
                       'index conversion in HDF5File::appendTracks is checked with the HDF5 harness (C10/C17)', 'deterministic FP tracking models 1/2: containment only (the statement constrains kick/drift and the stochastic model)']
    chk.stubs = ['normal_distribution::operator() -> mean + sigma*xi', 'modff/floor exact with case split']
    chk.replayer = replayer(bld)
    # the loop of main moves the tracked particles through each map right after that map's step on the grid (step grammar over the explored traces: wm, rfm, drm, fpm each apply() then applyToAll(tracks)):
    # a particle sees the same (possibly time-dependent) field the charge saw
    import mainloop
    jobs += mainloop.jobs_for('C15', tier)
    _rs = run_jobs(jobs, budget=900 if tier == 'quick' else 3000); _rs.append(mainloop.loop_witness(_rs, 'C15')); chk.add(_rs)
    chk.finish()

if __name__ == '__main__':
    main(sys.argv[1] if len(sys.argv) > 1 else 'quick')
