"""C17 - no configuration or input file makes the program touch memory it does not own (decided for the units listed, within their bounds)."""
import sys, os
sys.path.insert(0, os.path.dirname(os.path.abspath(__file__)))
from maps_common import *
import mainloop, c16, c10, field_common
from mainloop import OPtr, uc_run, show
from h5rec import H5Recorder

# ------------------------------------------------------------------ M2: kick amplitudes up to beyond the grid
def job_kick_beyond(res, n, nb, it, axis, r):
    """row r gets a displacement anywhere in [-2n, 2n] (every integer part explored, fraction real); every table and grid access of updateSM, apply and applyTo
    is checked against the allocation table by the executor"""
    bld = maps_build(); mod = load_module(bld, MAPS_MODS)
    snap, R, pre = maps_world(bld, n, nb, it)
    km = 'kmy' if axis else 'kmx'; off = 'offy' if axis else 'offx'
    ex = Exec(mod, snap, RealDom()); ex.int_range = (-3 * n, 3 * n); st = State()
    o = z3.Real('off'); st.pc += [o >= -2 * n, o <= 2 * n]; st.ranges['off'] = (Fraction(-2 * n), Fraction(2 * n))
    st.sym[R[off + '_data'] + 4 * ((nb - 1 if axis else 0) * n + r)] = (4, 'f', o)
    px = z3.Real('px'); py = z3.Real('py'); st.pc += [px >= 0, px <= n - 1, py >= 0, py <= n - 1]; st.ranges.update({'px': (Fraction(0), Fraction(n - 1)), 'py': (Fraction(0), Fraction(n - 1))})
    st.sym[R['pos']] = (4, 'f', px); st.sym[R['pos'] + 4] = (4, 'f', py)
    ex.call(st, 'e_km_swap_apply', [R[km], R[off]])
    fin = []; ub = set()
    for s in ex.run(st):
        if hasattr(s, 'error'):
            fin.append((s, s.error)); continue
        ex.call(s, 'e_applyTo', [R[km], R['pos']])
        for s2 in ex.run(s): fin.append((s2, getattr(s2, 'error', None)))
    account(res, ex, mod, [s for s, e in fin])
    for s, e in fin:
        for u in s.extra.get('ub', []): ub.add(u)
        if e is not None and not isinstance(e, MemError): raise e
    bad = [(s, e) for s, e in fin if isinstance(e, MemError)]
    def cexf(s):
        sol = z3.Solver(); [sol.add(c) for c in s.pc]; sol.check(); m = sol.model()
        return {'replay': 'kick-beyond', 'n': n, 'nb': nb, 'it': it, 'axis': axis, 'row': r, 'off': mval(m, o), 'pos': [mval(m, px), mval(m, py)]}
    res.obs.append(Ob('%s-kick n=%d nb=%d it=%d row %d: displacement anywhere in [-2n,2n] and a particle anywhere on the grid: every access of updateSM/apply/applyTo stays inside its allocation (%d paths)' % ('y' if axis else 'x', n, nb, it, r, len(fin)),
                      'holds' if not bad else 'violated', key='kick-beyond-grid', detail=str(bad[0][1]) if bad else '', cex=cexf(bad[0][0]) if bad else None))
    if ub: res.log.append('language-level UB reported separately (not a memory access): %s' % sorted(ub)[:3])
    res.extra_ub = sorted(ub)

# ------------------------------------------------------------------ M3: impedance tables shorter / longer than the internal frequency grid
def job_impedance_add(res, n1, n2):
    bld = c16.imp_build(); mod = load_module(bld, c16.IMP_MODS)
    snap, R, pre = take_snapshot(bld, 'n8', [8])
    ex = Exec(mod, snap, RealDom()); st = State()
    s = ex.run1(st, 'e_const', [n1, Fraction(1), Fraction(0)]); va = s.retval; s = ex.run1(s, 'e_const', [n2, Fraction(2), Fraction(1)]); vb = s.retval
    s = ex.run1(s, 'e_new_imp', [va, Fraction(f32(1e12))]); ia = s.retval; s = ex.run1(s, 'e_new_imp', [vb, Fraction(f32(1e12))]); ib = s.retval
    ex.call(s, 'e_add', [ia, ib]); out = list(ex.run(s)); account(res, ex, mod, out)
    err = [getattr(x, 'error', None) for x in out if isinstance(getattr(x, 'error', None), MemError)]
    for x in out:
        if hasattr(x, 'error') and not isinstance(x.error, MemError): raise x.error
    res.obs.append(Ob('Impedance::operator+= with %d internal samples and a table of %d samples: every read of the table stays inside it' % (n1, n2), 'holds' if not err else 'violated', key='impedance-add-lengths',
                      detail=str(err[0]) if err else '', cex={'replay': 'impadd', 'n1': n1, 'n2': n2} if err else None))

# ------------------------------------------------------------------ text input files (under-constrained runs of the real loaders)
FACT_TUS = ['src/PS/PhaseSpaceFactory.cpp', 'src/Z/Impedance.cpp', 'src/IO/HDF5File.cpp']
def loaders_build(): return B.build(None, FACT_TUS, hdf5=1, noinline_tus=FACT_TUS, link=False)

def ifstream_ctor(ex, st, fr, args, ins):
    vt = ex.malloc(st, 64); ex.store(st, vt + 8, IntTy(64), 256)      # libstdc++: virtual-base offset of basic_ios in basic_ifstream (slot vptr-24)
    ex.store(st, args[0], IntTy(64), vt + 32); st.events.append(('ifstream-ctor', [args[0]], None)); return None

def extract_model(kind):
    """operator>> on one stream with the sticky fail state of [istream.formatted.arithmetic]: if the stream has already failed the target is left untouched;
    otherwise the extraction stores an arbitrary value, or fails while parsing (stores 0, sets failbit), or fails in the sentry at end of input (target untouched)"""
    def f(ex, st, fr, args, ins):
        tgt = args[1]; k = len(st.events)
        if st.extra.get('stream_failed'):
            st.events.append(('extract-fail', [], None)); return args[0]
        v = z3.Real('in%d' % k) if kind == 'f' else z3.BitVec('in%d' % k, 64)
        ty = FloatTy(32) if kind == 'f' else IntTy(64)
        def ok(o): ex.store(o, tgt, ty, v); o.events.append(('extract-ok', [], None))
        def parsefail(o): ex.store(o, tgt, ty, Fraction(0) if kind == 'f' else 0); o.extra['stream_failed'] = True; o.events.append(('extract-parse-fail', [], None))
        def eof(o): o.extra['stream_failed'] = True; o.events.append(('extract-fail', [], None))
        return Forks([([], args[0], ok), ([], args[0], parsefail), ([], args[0], eof)])
    return f

def good_model(maxit):
    def f(ex, st, fr, args, ins):
        if st.extra.get('stream_failed'): return 0
        k = st.extra['ngood'] = st.extra.get('ngood', 0) + 1
        return 0 if k > maxit else z3.BitVec('good%d' % k, 1)
    return f
def bool_model(maxit):
    def f(ex, st, fr, args, ins):       # basic_ios::operator bool() == !fail()
        k = st.extra['nbool'] = st.extra.get('nbool', 0) + 1
        if k > maxit: st.extra['stream_failed'] = True
        return 0 if st.extra.get('stream_failed') else 1
    return f
def clear_model(ex, st, fr, args, ins): st.extra['stream_failed'] = False; return None

def lround_model(ex, st, fr, args, ins):
    r = z3.BitVec('lround%d' % len(st.events), 64); st.events.append(('lround', [args[0]], r)); return r

def uninit_obs(res, what, paths, key):
    bad = [p for p in paths if p.extra.get('uninit_reads')]
    ex_ = None
    if bad:
        p = bad[0]; ex_ = {'replay': 'uninit', 'function': what, 'reads': [(f[:40], hex(a), n) for f, a, n in p.extra['uninit_reads'][:3]], 'events': [e[0] if isinstance(e[0], str) and len(e[0]) < 20 else '' for e in p.events if e[0] in ('extract-ok', 'extract-fail', 'extract-parse-fail')]}
    res.obs.append(Ob('%s: no local variable is read before it has been written, on any path (%d paths; extraction may fail at any point)' % (what, len(paths)), 'holds' if not bad else 'violated', key=key, cex=ex_,
                      detail='' if not bad else '%d paths read uninitialised stack bytes, e.g. after %s' % (len(bad), ex_['events'])))

def job_txt_loader(res, maxit):
    bld = loaders_build(); mod = load_module(bld, ['PhaseSpaceFactory'])
    fn = find_fn(mod, 'makePSFromTXT'); res.funcs[fn] = fn_lines(mod, fn)
    ps_size = z3.BitVec('ps_size', 64)
    args = [OPtr('sret'), OPtr('fname'), ps_size] + [z3.Real(x) for x in ('qmin', 'qmax', 'pmin', 'pmax')] + [0] + [z3.Real(x) for x in ('charge', 'current', 'qscale', 'pscale')]
    over = {'std::basic_ifstream<char, std::char_traits<char> >::basic_ifstream()': ifstream_ctor, 'std::basic_istream<char, std::char_traits<char> >::operator>>(float&)': extract_model('f'),
            'lroundf': lround_model, 'std::basic_ios<char, std::char_traits<char> >::good() const': good_model(maxit),
            'std::basic_ios<char, std::char_traits<char> >::operator bool() const': bool_model(maxit + 1), 'std::basic_ios<char, std::char_traits<char> >::clear(': clear_model}
    ex, paths, dm = uc_run(mod, fn, args, over, track_uninit=True)
    res.paths += len(paths); res.instrs += sum(p.nins for p in paths); res.queries += ex.stats['queries']
    errs = [p for p in paths if p.kind != 'done']
    if errs: raise Unsupported('makePSFromTXT: %d paths not executable: %s' % (len(errs), getattr(errs[0], 'why', '')))
    nidx = 0; bad = None
    for p in paths:
        for e in p.events:
            d = dm.get(e[0], e[0]) if isinstance(e[0], str) else ''
            if 'sub_array' in d and 'operator[](long)' in d:
                idx = e[1][-1]; nidx += 1
                if isinstance(idx, int): ok = 0 <= sgn(idx, 64)
                else:
                    s = z3.Solver(); [s.add(c) for c in p.pc]; s.add(ps_size > 0, ps_size < (1 << 31)); s.add(z3.Or(idx < 0, idx >= ps_size)); r = s.check(); res.queries += 1
                    ok = r == z3.unsat
                    if not ok and bad is None:
                        m = s.model() if r == z3.sat else None
                        bad = {'replay': 'txt-index', 'index': show(idx)[:120], 'model': {str(d_): str(m[d_]) for d_ in (m.decls() if m else [])[:6]} if m else str(r)}
    res.obs.append(Ob('makePSFromTXT: every index passed to the grid\'s operator[] lies in [0, grid size) for arbitrary file contents (lround result an arbitrary 64-bit integer; %d index events on %d paths)' % (nidx, len(paths)),
                      'holds' if bad is None and nidx > 0 else 'violated', key='txt-loader-index', cex=bad))
    uninit_obs(res, 'makePSFromTXT (up to %d particles, extraction may fail at any point)' % maxit, paths, 'txt-loader-uninit')
    # the loader creates the grid with the size main passes in (main's route check for start files relies on it)
    okset = 0
    for p in paths:
        for e in p.events:
            d = dm.get(e[0], e[0]) if isinstance(e[0], str) else ''
            if 'PhaseSpace::setSize' in d and z3.is_expr(e[1][0]):
                sv = z3.Solver(); [sv.add(c) for c in p.pc]; sv.add(ps_size >= 0, ps_size < (1 << 32)); sv.add(z3.ZeroExt(32, e[1][0]) != ps_size if e[1][0].size() == 32 else e[1][0] != ps_size); res.queries += 1
                if sv.check() == z3.unsat: okset += 1
    res.obs.append(Ob('makePSFromTXT: the static grid size is set to the size argument on every path (%d of %d paths)' % (okset, len(paths)), 'holds' if okset == len(paths) else 'violated', key='txt-loader-setsize'))

def job_impedance_reader(res, maxit):
    bld = loaders_build(); mod = load_module(bld, ['Impedance'])
    fn = find_fn(mod, 'Impedance', 'readData'); res.funcs[fn] = fn_lines(mod, fn)
    over = {'std::basic_ifstream<char, std::char_traits<char> >::basic_ifstream(': ifstream_ctor, 'std::basic_istream<char, std::char_traits<char> >::operator>>(float&)': extract_model('f'),
            'std::basic_istream<char, std::char_traits<char> >::operator>>(unsigned long&)': extract_model('i'), 'std::basic_ios<char, std::char_traits<char> >::good() const': good_model(maxit),
            'std::basic_ios<char, std::char_traits<char> >::operator bool() const': bool_model(maxit + 1)}
    ex, paths, dm = uc_run(mod, fn, [OPtr('sret'), OPtr('fname')], over, track_uninit=True)
    res.paths += len(paths); res.instrs += sum(p.nins for p in paths)
    errs = [p for p in paths if p.kind != 'done']
    if errs: raise Unsupported('readData: %d paths not executable: %s' % (len(errs), getattr(errs[0], 'why', '')))
    uninit_obs(res, 'Impedance::readData (up to %d lines, extraction may fail at any point, empty file included)' % maxit, paths, 'impedance-reader-uninit')

def job_h5_reader(res):
    """HDF5File::readPhaseSpace with the library calls returning arbitrary rank and extents: no division by zero, no use of an unset size, data read only into a grid of matching size"""
    bld = loaders_build(); mod = load_module(bld, ['HDF5File'])
    fn = find_fn(mod, 'HDF5File', 'readPhaseSpace'); res.funcs[fn] = fn_lines(mod, fn)
    dims = [z3.BitVec('dim%d' % i, 64) for i in range(4)]; rank = z3.BitVec('rank', 32)
    def ndims(ex, st, fr, args, ins): st.events.append(('ndims', [], rank)); return rank
    def getdims(ex, st, fr, args, ins):
        rk = st.extra.get('rank_c')
        for i in range(4): ex.store(st, args[1] + 8 * i, IntTy(64), dims[i]) if isinstance(args[1], int) else None
        st.events.append(('getdims', [args[1]], None)); return 0
    npts = z3.BitVec('npoints', 64)
    def selnp(ex, st, fr, args, ins): return npts
    def dsread(ex, st, fr, args, ins): st.events.append(('H5read', [args[1]], None)); return None
    over = {'H5::DataSpace::getSimpleExtentNdims() const': ndims, 'H5::DataSpace::getSimpleExtentDims(': getdims, 'H5::DataSpace::getSelectNpoints() const': selnp, 'H5::DataSet::read(void*': dsread}
    args = [OPtr('sret'), OPtr('fname')] + [z3.Real(x) for x in ('qmin', 'qmax', 'pmin', 'pmax')] + [0] + [z3.Real(x) for x in ('Qb', 'Ib', 'bl', 'dE')] + [z3.BitVec('use_step', 64)]
    ex, paths, dm = uc_run(mod, fn, args, over, track_uninit=True, max_paths=3000)
    res.paths += len(paths); res.instrs += sum(p.nins for p in paths); res.queries += ex.stats['queries']
    memerr = [p for p in paths if p.kind == 'error' and 'division' in getattr(p, 'why', '')]
    other = [p for p in paths if p.kind == 'error' and 'division' not in getattr(p, 'why', '')]
    if other: raise Unsupported('readPhaseSpace: paths not executable: %s' % getattr(other[0], 'why', ''))
    res.obs.append(Ob('HDF5File::readPhaseSpace: the record index (dims[0] + use_step) %% dims[0] is never computed with dims[0] == 0 (a results file without a stored phase space)', 'holds' if not memerr else 'violated', key='h5-reader-empty-dataset',
                      detail=getattr(memerr[0], 'why', '') if memerr else '', cex={'replay': 'h5-empty', 'why': getattr(memerr[0], 'why', '')} if memerr else None))
    ok_paths = [p for p in paths if p.kind in ('done', 'ended')]
    uninit_obs(res, 'HDF5File::readPhaseSpace (arbitrary dataset rank and extents)', ok_paths, 'h5-reader-uninit')

def job_tracks_index(res, n, nb, N, npart):
    """appendTracks with particle coordinates anywhere in the range the tracking guarantees (C15): the axis lookups stay inside the axis arrays"""
    bld = c10.h5_build(); mod = load_module(bld, c10.H5_MODS)
    snap, R, pre = c10.h5_world(bld, n, nb, N, npart)
    rec, ex, st, S, h5 = c10.construct(res, mod, snap, R, n, nb, N, npart)
    ex.int_range = (-2, n + 2)
    ps_ = []
    for i in range(npart):
        x = z3.Real('tx%d' % i); y = z3.Real('ty%d' % i); st.pc += [x >= 0, x <= n - 1, y >= 0, y <= n - 1]; st.ranges.update({'tx%d' % i: (Fraction(0), Fraction(n - 1)), 'ty%d' % i: (Fraction(0), Fraction(n - 1))})
        st.sym[R['tracks_data'] + 8 * i] = (4, 'f', x); st.sym[R['tracks_data'] + 8 * i + 4] = (4, 'f', y)
    ex.call(st, 'e_append_tracks', [h5, R['tracks']]); out = list(ex.run(st)); account(res, ex, mod, out)
    err = [x.error for x in out if isinstance(getattr(x, 'error', None), MemError)]
    for x in out:
        if hasattr(x, 'error') and not isinstance(x.error, MemError): raise x.error
    res.obs.append(Ob('HDF5File::appendTracks n=%d, %d particles anywhere in [0,n-1]^2: grid-to-physical conversion reads only inside the axis arrays (%d paths)' % (n, npart, len(out)), 'holds' if not err else 'violated', key='tracks-index',
                      detail=str(err[0]) if err else ''))



def job_track_coords(res, n, qr, pr):
    """tracking file: main converts every coordinate pair it reads with PhaseSpace::x / y before it is used as a grid position.  For EVERY float (NaN and infinities
    included) the result is a number inside [0, n-1] (IEEE-754 theory; axis extents of the world are concrete)."""
    import c09
    bld = c09.ps_build(); mod = load_module(bld, c09.PS_MODS)
    snap, R, pre = c09.ps_world(bld, n, 1, 1, q=qr, p=pr)
    for fn in ('e_x', 'e_y'):
        ex = Exec(mod, snap, FPDom()); st = State(); q = z3.FP('coord', z3.Float32())
        sts = run_paths(ex, st, fn, [R['ps'], q]); account(res, ex, mod, sts)
        for s1 in sts:
            r = s1.retval
            if ex.dom.is_conc(r): bad = z3.BoolVal(not (0 <= float(r) <= n - 1))
            else: bad = z3.Or(z3.fpIsNaN(r), z3.fpLT(r, z3.FPVal(0.0, z3.Float32())), z3.fpGT(r, z3.FPVal(float(n - 1), z3.Float32())))
            prove(res, 'PhaseSpace::%s (grid %d, axis %s): every float - NaN, infinities, far outside the grid - is mapped to a number in [0, %d]' % (fn[2:], n, qr if fn == 'e_x' else pr, n - 1), s1.pc, bad, key='track-coords-in-grid',
                  cex_fn=lambda m, fn=fn: {'replay': 'coords', 'fn': fn, 'coord': mval(m, q)})
        witness(res, 'PhaseSpace::%s depends on its argument' % fn[2:], sts[0].pc, z3.Not(z3.fpEQ(sts[0].retval, z3.FPVal(0.0, z3.Float32()))) if not ex.dom.is_conc(sts[0].retval) else z3.BoolVal(False))

def job_upper_power_of_two(res):
    """summary used by the set-up slice, from the real IR of vfps::upper_power_of_two in bit-vector arithmetic: v <= r < 2v and r a power of two for 1 <= v <= 2^62"""
    import mainsetup as ms
    bld = ms.setup_build(); mod = load_module(bld, ms.SETUP_MODS)
    fn = find_fn(mod, 'upper_power_of_two'); ex = Exec(mod, Snapshot(), RealDom()); st = State(); v = z3.BitVec('v', 64); st.pc += [z3.UGE(v, 1), z3.ULE(v, 1 << 62)]
    res.funcs[fn] = fn_lines(mod, fn)
    for s1 in run_paths(ex, st, fn, [v]):      # (an implementation with a case split forks: every path meets the obligation)
      r = s1.retval; res.paths += 1; res.instrs += s1.nins
      if isinstance(r, int): r = z3.BitVecVal(r, 64)
      prove(res, 'upper_power_of_two(v) for every 1 <= v <= 2^62: v <= r < 2v and r is a power of two (64-bit bit-vector semantics of the real code)', s1.pc, z3.Or(z3.ULT(r, v), z3.UGE(r, 2 * v), (r & (r - 1)) != 0), key='pow2-summary')
    witness(res, 'upper_power_of_two is not the identity', s1.pc, r != v)

def job_field_precondition(res, n):
    """what the constructed ElectricField needs from main: on small concrete worlds around the boundary, padBunchProfiles/wakePotential/updateCSR stay inside their buffers
    exactly when (largest bucket)*spacing + grid width <= padded length (the executor's allocation table decides, not a formula)"""
    bld = field_common.field_build(); mod = load_module(bld, field_common.FIELD_MODS); agree = 0; bad = []
    for bk in ((0,), (1, 0), (2, 0), (2,), (3, 1)):
        for sp in (n, n + 1, n + 2):
            need = max(bk) * sp + n
            for N in sorted({need - 1, need, need + 1, n}):     # near the boundary and far from it (a far overrun lands in another object: caught by the inbounds check on the address computation)
                if N < n: continue
                snap, R, pre, plans, calib = field_common.field_world(bld, n, N, sp, bk)
                for fnm in ('e_pad', 'e_wake'):
                    ex = Exec(mod, snap, RealDom(), {'fftwf_execute': field_common.UFFFT(plans)})
                    try: s1 = ex.run1(State(), fnm, [R['field']]); safe = True; res.instrs += s1.nins
                    except MemError: safe = False
                    res.paths += 1
                    if safe == (need <= N): agree += 1
                    else: bad.append((n, N, sp, bk, fnm, safe))
    res.obs.append(Ob('ElectricField (grid %d): %d concrete worlds around the boundary - buffer accesses of padBunchProfiles/wakePotential stay inside the allocations exactly when max(bucket)*spacing + grid <= padded length' % (n, agree + len(bad)),
                      'holds' if not bad else 'inconclusive', key='field-precondition', detail=str(bad[:3])))


def job_h5_ctor_lengths(res, n, nb, N, Nr):
    """HDF5File constructor in the world main builds for a bunch train: the wake impedance has N samples (spaced grid), the radiation field Nr (padded grid), N != Nr.  Every array the
    constructor hands to a write is read within its allocation for the extent of the dataset it is written to (allocation table of the native snapshot; the recorder reads each payload cell)."""
    bld = c10.h5_build(); mod = load_module(bld, c10.H5_MODS)
    snap, R, pre = c10.h5_world(bld, n, nb, N, 1, Nr)
    rec = H5Recorder(); ex = Exec(mod, snap, RealDom()); st = State(); rec.install(ex, st, mod)
    try:
        s1 = ex.run1(st, 'e_new_h5', [R['fname'], R['ps'], R['rdtn'], R['z'], 1, Fraction(1, 1000), Fraction(2700000)]); ok = True; why = ''; res.instrs += s1.nins
    except MemError as e: ok = False; why = str(e)
    res.paths += 1
    res.obs.append(Ob('HDF5File constructor, wake impedance of %d samples and radiation field padded to %d (grid %d, %d bunches): every dataset is written from an array that holds as many values as the dataset' % (N, Nr, n, nb),
                      'holds' if ok else 'violated', key='h5-ctor-lengths', detail=why, cex=None if ok else {'replay': 'structural', 'why': why}))

def job_field_more_buckets(res, n):
    """main after loading a start file: the loaders build a single-bunch phase space whatever the filling pattern says, so the fields are constructed with more listed buckets than the
    phase space has bunches.  padBunchProfiles / wakePotential / updateCSR must stay inside their buffers in that world too (allocation table of the native snapshot)."""
    bld = field_common.field_build(); mod = load_module(bld, field_common.FIELD_MODS)
    for bk, sp, N in (((1, 0), n + 1, 3 * n), ((2, 0, 1), n, 4 * n)):
        snap, R, pre, plans, calib = field_common.field_world(bld, n, N, sp, bk, 10)          # 10: one bunch in the phase space, cutoff off
        for fnm, args in (('e_pad', []), ('e_wake', []), ('e_csr', [Fraction(0)])):
            ex = Exec(mod, snap, RealDom(), {'fftwf_execute': field_common.UFFFT(plans)})
            try: s1 = ex.run1(State(), fnm, [R['field']] + args); ok = True; res.instrs += s1.nins; why = ''
            except MemError as e: ok = False; why = str(e)
            res.paths += 1
            res.obs.append(Ob('ElectricField built for buckets %s while the phase space holds one bunch (start distribution from a file), grid %d, padded length %d: %s stays inside its buffers' % (list(bk), n, N, fnm[2:]), 'holds' if ok else 'violated',
                              key='field-more-buckets', detail=why, cex=None if ok else {'replay': 'structural', 'buckets': list(bk), 'why': why}))

def job_start_grid(res, n):
    """C17 (initial distributions of the wrong size): on every route by which main obtains its first grid - built from the options, or read from a start file by one of the
    loaders - the static grid width every later buffer relies on equals the configured grid size when the fields and maps are built, or main stops before."""
    import mainsetup as ms
    bld = ms.setup_build(); mod = load_module(bld, ms.SETUP_MODS); f = mod.funcs['main']; res.funcs['main'] = fn_lines(mod, 'main')
    sites = [(b, ins['callee'][1]) for b in f.order for ins in f.blocks[b] if ins['op'] in ('call', 'invoke') and ins['callee'][0] == 'global' and ('makePSFrom' in ins['callee'][1] or 'PhaseSpace7setSize' in ins['callee'][1])]
    dm = mainloop.demangle({x for _, x in sites})
    if len(sites) < 2: res.obs.append(Ob('main has a route that builds the grid from the options and at least one loader route', 'inconclusive', detail=str(sites), key='setup-engine')); return
    NX = '@_ZN4vfps10PhaseSpace2nxE'
    for blk, callee in sites:
        route = dm.get(callee, callee).split('(')[0]
        paths, ended, info = ms.explore_setup(mod, n, 1, {'current0'}, True, via=blk)
        res.paths += len(paths) + len(ended); res.instrs += sum(s.nins for s in paths + ended)
        good = [s for s in paths if s.extra.get('via_done')]
        errs = [s.why for s in ended if s.kind == 'error']
        if errs or not good:
            stopped = [s for s in ended if s.kind in ('returned',) and s.extra.get('via_done')]
            if not errs and stopped:
                res.obs.append(Ob('route %s: main returns before any field or map is built' % route, 'holds', key='start-grid-size')); continue
            res.obs.append(Ob('route %s: a path through it reaches the field constructions' % route, 'inconclusive', detail=str(errs[:2]), key='setup-engine')); continue
        for s in good:
            told = None
            for e in s.events:
                if isinstance(e[0], str) and e[0] == callee:
                    ints = [a for a in e[1] if isinstance(a, int) and a < (1 << 32)]
                    told = ints[0] if ints else None
            nx = next((v for k_, v in s.extra.get('lazy', {}).items() if isinstance(k_[0], str) and 'PhaseSpace2nxE' in k_[0] and k_[2] == 4 and z3.is_expr(v)), None)
            if 'setSize' in route or (told is not None and told == n and 'TXT' in route):
                ok = told == n
                res.obs.append(Ob('route %s: the grid is created with the configured size (%s == %d)' % (route, told, n), 'holds' if ok else 'violated', key='start-grid-size', cex=None if ok else {'replay': 'setup', 'route': route, 'told': told, 'n': n})); continue
            if nx is None:
                res.obs.append(Ob('route %s (grid size taken from the file): main compares the resulting grid width with the configured size before it builds fields and maps' % route, 'violated', key='start-grid-size',
                                  detail='PhaseSpace::nx is never read between the loader and the field constructions', cex={'replay': 'setup', 'route': route, 'n': n, 'file_grid': n + 1})); continue
            prove(res, 'route %s (grid size taken from the file): when fields and maps are built the grid width equals the configured size %d' % (route, n), s.pc, z3.BV2Int(nx) != n, key='start-grid-size',
                  cex_fn=lambda m, route=route, nx=nx: {'replay': 'setup', 'route': route, 'n': n, 'file_grid': mval(m, nx)})

def job_padded_lengths(res, n, nb, prefer):
    """C17 mechanism 1: the lengths main computes (src/main.cpp: spacing_bins, padded_bins, spaced_bins, filling pattern) always satisfy what the two ElectricField objects need"""
    import mainsetup as ms
    bld = ms.setup_build(); mod = load_module(bld, ms.SETUP_MODS); res.funcs['main'] = fn_lines(mod, 'main')
    tracked = {'current%d' % i for i in range(nb)}
    for rnd in range(4):
        paths, ended, info = ms.explore_setup(mod, n, nb, tracked, prefer); new = set()
        for s in paths:
            for c in ms.field_calls(mod, s, info): new |= ms.syms_of([c['N'], c['spacing']])
        if new <= tracked: break
        tracked |= new
    res.paths += len(paths) + len(ended); res.instrs += sum(s.nins for s in paths + ended)
    errs = [s.why for s in ended if s.kind == 'error']
    if errs or not paths:
        res.obs.append(Ob('set-up slice n=%d, %d buckets: every path is executable by the engine and reaches the field constructions' % (n, nb), 'inconclusive', detail=str(errs[:2]) + ' reached=%d' % len(paths), key='setup-engine')); return
    seen = set(); nfields = 0
    for s in paths:
        calls = ms.field_calls(mod, s, info)
        sig = (tuple(str(c) for c in s.pc if ms.syms_of(c) & tracked), tuple((str(c['N']), str(c['spacing']), str(c['buckets'])) for c in calls))
        if sig in seen: continue
        seen.add(sig)
        for c in calls:
            nfields += 1
            if c['N'] is None or c['spacing'] is None or (c['buckets'] is None and nb > 0 and not (isinstance(c['spacing'], int) and c['spacing'] == 0)):
                # no bunch at all: main constructs the fields with an empty bucket list
                if c['buckets'] is None and c['N'] is not None: c['buckets'] = []
                else:
                    res.obs.append(Ob('set-up slice: padded length, spacing and bucket list of an ElectricField construction can be traced to their definitions', 'inconclusive', detail=str({k: str(v)[:80] for k, v in c.items()}), key='setup-engine')); continue
            if c['grid'] is not None and c['grid'] != n:
                res.obs.append(Ob('the grid width given to PhaseSpace::setSize is the configured grid size', 'violated' if isinstance(c['grid'], int) else 'inconclusive', detail=str(c['grid']), key='setup-grid')); continue
            N = ms.to_int(c['N']); sp = ms.to_int(c['spacing']); bk = [b for b in (c['buckets'] or []) if isinstance(b, int)]
            if len(bk) != len(c['buckets'] or []): res.obs.append(Ob('bucket numbers are concrete on every path', 'inconclusive', key='setup-engine')); continue
            # the bucket number of a bunch is the position of its entry in the filling pattern, counted from the end (main: "enumeration is inverse to the x coordinate"): entry i of nb -> bucket nb-1-i,
            # for exactly the entries with a positive current on this path
            filled = []; pcs = {str(c_).replace(' ', '') for c_ in s.pc}
            for i in range(nb):
                nm_ = 'current%d' % i
                if ('%s>0' % nm_) in pcs or ('Not(%s<=0)' % nm_) in pcs: filled.append(True); continue
                if ('%s<=0' % nm_) in pcs or ('Not(%s>0)' % nm_) in pcs or ('%s==0' % nm_) in pcs: filled.append(False); continue
                # not decided syntactically: ask the solver about this one symbol only (bounds of current_i among the path's constraints that mention nothing else)
                ci = z3.Real(nm_); so = z3.Solver(); so.set('timeout', 2000); so.add(*[c_ for c_ in s.pc if ms.syms_of(c_) <= {nm_}])
                so.push(); so.add(ci > 0); pos = so.check() == z3.sat; so.pop(); so.push(); so.add(ci <= 0); zer = so.check() == z3.sat; so.pop()
                filled.append(True if (pos and not zer) else False if (zer and not pos) else None)
            if None not in filled and ('buckets-checked', tuple(filled), tuple(bk)) not in seen:
                seen.add(('buckets-checked', tuple(filled), tuple(bk)))
                want_bk = [nb - 1 - i for i in range(nb) if filled[i]]
                okb = bk == want_bk
                res.obs.append(Ob('set-up slice, filling pattern %s: the bunches sit in buckets %s (entry i of the pattern -> bucket %d-i), main hands the fields %s' % (['+' if f_ else '0' for f_ in filled], want_bk, nb - 1, bk),
                                  'holds' if okb else 'violated', key='setup-bucket-numbers', cex=None if okb else {'replay': 'structural', 'pattern': filled, 'buckets': bk, 'expected': want_bk}))
            multi = not (isinstance(c['spacing'], int) and c['spacing'] == 0)
            # documented domain: buckets do not overlap - the bunch spacing, in grid cells and before rounding, is at least the grid width (irrelevant for a single bucket);
            # buffers of 2^31 cells and more are outside (allocation failure)
            raw = info['ex'].intarg.get(str(sp)) if z3.is_const(sp) else None
            dom = [] if not (multi and nb > 1) else ([raw[1] >= n] if raw else [sp >= n])
            assume = list(s.pc) + list(s.extra.get('late', [])) + dom + [N < (1 << 31)]
            need = [b * sp + n for b in bk] if multi else [z3.IntVal(n)]
            goal_neg = z3.Or(*[nd > N for nd in need]) if need else z3.BoolVal(False)
            lifted, ranges = ms.lift_all(assume + [goal_neg]); assume_l, goal_l = lifted[:-1] + ranges, lifted[-1]
            (allf, names) = ms.abstract_nonlinear(assume_l + [goal_l])
            def cex(m, c=c, sp=sp, N=N, bk=bk, s=s): return {'replay': 'setup', 'n': n, 'buckets': bk, 'filling_slots': nb, 'spacing_bins': mval(m, sp), 'padded_length': mval(m, N), 'needs': max([b * mval(m, sp) + n for b in bk] + [n]),
                                                        'ints': {str(d): mval(m, d) for d in m.decls() if False}, 'model': {str(d): str(m[d])[:40] for d in m.decls() if str(d).startswith(('nl', 'round', 'ceil', 'pow2', 'ret__ZNK4vfps14ProgramOptions'))}}
            # prefer a small counterexample (replayable on a concrete ElectricField of the harness): same query with small lengths first
            small = z3.Solver(); small.set('timeout', 20000); [small.add(a_) for a_ in allf]; small.add(ms.abstract_nonlinear(ms.lift_all([sp <= 64, N <= 4096])[0])[0] if False else z3.And(sp <= 64, N <= 4096)); res.queries += 1
            if small.check() == z3.sat:
                m = small.model(); c_ = cex(m)
                res.obs.append(Ob('main n=%d, %d buckets, filled %s, field with %s: the padded length covers the last bucket (bucket*spacing + grid <= length)' % (n, nb, bk, 'bucket spacing' if multi else 'no spacing (radiation)'), 'violated', detail=str(c_)[:300], cex=c_, key='padded-length-covers-buckets')); continue
            prove(res, 'main n=%d, %d buckets, filled %s, field with %s: for every bunch spacing%s, padding and rounding option the padded length covers the last bucket (bucket*spacing + grid <= length)' % (n, nb, bk, 'bucket spacing' if multi else 'no spacing (radiation)', ' >= grid' if multi and nb > 1 else ''),
                  allf[:-1], allf[-1], key='padded-length-covers-buckets', cex_fn=cex, timeout_ms=60000)
    witness(res, 'set-up slice n=%d nb=%d: %d distinct tracked paths, %d field constructions checked (%d guided decisions, %d tracked forks)' % (n, nb, len(seen), nfields, info['stats']['guided'], info['stats']['tracked_forks']), [], z3.BoolVal(nfields >= 2))

def replayer():
    def rp(path, c):
        if c.get('replay') == 'make-file': return c16.replayer(c16.imp_build())(path, c)
        if c.get('replay') == 'setup' and 'padded_length' in c and c['padded_length'] <= 4096 and c['spacing_bins'] <= 64 and c.get('buckets'):
            # the lengths main computes, given to the real ElectricField (native construction in the harness), then padBunchProfiles from its IR under the allocation table
            bld = field_common.field_build(); mod = load_module(bld, field_common.FIELD_MODS)
            snap, R, pre, plans, calib = field_common.field_world(bld, c['n'], int(c['padded_length']), int(c['spacing_bins']), tuple(c['buckets']))
            ex = Exec(mod, snap, RealDom(), {'fftwf_execute': field_common.UFFFT(plans)})
            try: ex.run1(State(), 'e_pad', [R['field']]); return (False, 'ElectricField(grid %d, padded length %d, spacing %d, buckets %s): padBunchProfiles stays inside its buffers' % (c['n'], c['padded_length'], c['spacing_bins'], c['buckets']))
            except MemError as e: return (True, 'ElectricField built natively with the lengths main computes (grid %d, padded length %d, spacing %d, buckets %s): padBunchProfiles %s' % (c['n'], c['padded_length'], c['spacing_bins'], c['buckets'], e))
        return (True, 'out-of-bounds / uninitialised access located by the executor\'s allocation table; no sanitizer build is used for replay: %s' % str(c)[:200])
    return rp

def main(tier):
    chk = Check('C17', tier, '4/C17')
    maps_build(); c16.imp_build(); c10.h5_build(); loaders_build()
    jobs = [(job_kick_beyond, (8, 2, it, ax, r)) for it in (2, 4) for ax in (0, 1) for r in (0, 7)]
    jobs += [(job_impedance_add, a) for a in ((8, 8), (8, 12), (8, 5), (8, 2), (9, 4))]
    jobs += [(job_txt_loader, (2,)), (job_impedance_reader, (2,)), (job_h5_reader, ()), (job_tracks_index, (4, 1, 8, 2))]
    jobs += [(job_field_more_buckets, (4,)), (job_h5_ctor_lengths, (4, 2, 8, 24)), (job_h5_ctor_lengths, (4, 2, 24, 8))]
    import c11
    jobs += [(c11.job_reader, (3,)), (c11.job_reader, (4,)), (c11.job_reader, (4, 2))]      # the loader's contract main relies on: exactly one bunch, grid sized from the file before construction (main sizes every bucket table from the configuration and cross-checks the grid size only)
    jobs += [(job_upper_power_of_two, ()), (job_field_precondition, (4,)), (job_start_grid, (4,)), (job_track_coords, (8, (-6, 6), (-6, 6.5))), (job_track_coords, (9, (-4, 7), (-6, 6)))]
    jobs += [(job_padded_lengths, (n, nb, pf)) for n, nb in ((4, 4), (5, 5), (4, 1), (8, 3)) for pf in (True, False)]
    jobs += [(c16.job_factory_file, (n, L, gs, w)) for n, L in ((8, 3), (8, 0), (5, 9)) for gs, w in ((0, False), (-1, True))]      # impedance built from a table: holds as many samples as it reports (what later readers index by)
    if tier != 'quick':
        jobs += [(job_kick_beyond, (n, nb, it, ax, r)) for n, nb in ((6, 3), (9, 1)) for it in (1, 2, 3, 4) for ax in (0, 1) for r in range(n)]
        jobs += [(job_padded_lengths, (n, nb, pf)) for n, nb in ((16, 6), (9, 7), (32, 4), (33, 5)) for pf in (True, False)] + [(job_field_precondition, (5,)), (job_start_grid, (9,))]
        jobs += [(job_txt_loader, (3,)), (job_impedance_reader, (3,)), (job_tracks_index, (5, 2, 12, 2)), (job_tracks_index, (7, 1, 8, 1))]
    chk.bounds = {'kick maps': 'grids 8 (6, 9), one row with displacement in [-2n, 2n] (all integer parts) + a particle anywhere on the grid', 'impedance tables': 'internal length 8/9 vs table length 1..12',
                  'text loaders': 'under-constrained runs of makePSFromTXT and Impedance::readData: up to 2 (3) loop passes, each extraction may succeed with an arbitrary value or fail', 'HDF5 start file': 'arbitrary rank and extents returned by the library',
                  'set-up arithmetic': 'main from getBunchCurrents to the ElectricField constructions: grid 4,5,8 (thorough: up to 33), 1-5 (7) bucket slots with every filling pattern, every real bunch spacing >= grid, padding, rounding option', 'scope': 'memory safety is decided for these units within these bounds, not for the program as a whole; in addition every load/store of every symbolic run of the other checks is bounds-checked against the allocation table'}
    chk.assumptions = ['allocation-granular checking (like ASan without red zones inside objects); reads of never-written stack bytes are tracked for the loader runs only',
                       'std::istream::operator>> either stores a value or leaves the target untouched (sentry failure at end of input)', 'fptoui of a negative/huge value is language-level UB that no memory checker confirms: listed in the log, not reported as a violation',
                       'boost, HDF5, iostream internals, FFTW, allocation failure, stack overflow are outside', 'padded-length arithmetic of main: double arithmetic is taken as exact real arithmetic (the repaired code takes an integer maximum, so the guarantee does not depend on rounding); buffers of 2^31 cells and more, fp-to-int conversions out of range and allocation failure are outside', 'set-up slice of main: decisions that do not involve the filling pattern, the spacing or the padding are taken one way (once preferring each side), steered to the field constructions; objects main initialised before the slice hold arbitrary values']
    chk.stubs = ['iostream / HDF5 calls in the loader runs: events', 'lround: arbitrary 64-bit result', 'ifstream constructor: libstdc++ virtual-base layout']
    chk.replayer = replayer()
    chk.add(run_jobs(jobs, budget=900 if tier == 'quick' else 3000))
    chk.finish()

if __name__ == '__main__':
    main(sys.argv[1] if len(sys.argv) > 1 else 'quick')
