"""Recorder model of the HDF5 C++ API (libhdf5_cpp) for the symbolic executor.

The library is treated as a correct store: what is passed to write() is what the file holds.  Every H5 object is identified by the
address of the C++ object; createDataSet tags the returned object with the dataset path, copy constructors propagate tags,
extend/selectHyperslab/write/createAttribute().write append records to a log."""
import sys, os
sys.path.insert(0, os.path.join(os.path.dirname(os.path.abspath(__file__)), '..', 'sx'))
from symex import *
import z3

I64 = IntTy(64); I32 = IntTy(32); F32 = FloatTy(32); F64 = FloatTy(64)

def cstr(ex, st, p):
    n = 0
    while ex.read_bytes(st, p + n, 1) != b'\0': n += 1
    return ex.read_bytes(st, p, n).decode()
def stdstr(ex, st, s):
    p = ex.load(st, s, I64); n = ex.load(st, s + 8, I64); return ex.read_bytes(st, p, n).decode()

class H5Recorder:
    def __init__(self):
        self.tags = {}          # object address -> tag
        self.spaces = {}        # DataSpace address -> {'dims': [...], 'sel': None | (count, start)}
        self.dsdims = {}        # dataset path -> current dims
        self.dstype = {}        # dataset path -> element type name
        self.log = []           # ('group', path) ('dataset', path, dims, maxdims, type) ('extend', path, dims) ('write', path, {...}) ('attr', owner, name, value) ('link', target, name)
        self.pending_attr = {}
    # ---- helpers
    def arr(self, ex, st, p, n): return [ex.load(st, p + 8 * i, I64) for i in range(n)] if p else None
    def typename(self, ex, st, a):
        t = self.tags.get(a)
        return t[1] if t and t[0] in ('predtype', 'datatype') else None
    def esize(self, tn):
        if tn is None: return None
        if 'F64' in tn or 'DOUBLE' in tn: return ('f', 8)
        if 'F32' in tn or 'FLOAT' in tn: return ('f', 4)
        if 'UINT32' in tn or 'I32' in tn or 'INT' in tn: return ('i', 4)
        if 'C_S1' in tn: return ('i', 1)
        return None
    def payload(self, ex, st, buf, kind, size, count):
        out = []
        for i in range(count):
            a = buf + size * i
            if kind == 'f': v = ex.load(st, a, F32 if size == 4 else F64); out.append(v if ex.dom.is_conc(v) else ex.dom.z(v))
            else: out.append(ex.load(st, a, IntTy(8 * size)))
        return out
    # ---- handlers
    def install(self, ex, st, mod):
        h = {}
        def reg(name, fn): h[name] = fn
        R = self
        def noop(ex, st, fr, a, ins): return None
        def h5file_ctor(ex, st, fr, a, ins): R.tags[a[0]] = ('file', stdstr(ex, st, a[1])); R.log.append(('file', R.tags[a[0]][1], a[2])); return None
        def create_group(ex, st, fr, a, ins):      # sret Group, this, name, size_hint
            R.tags[a[0]] = ('group', cstr(ex, st, a[2])); R.log.append(('group', cstr(ex, st, a[2]))); return None
        def open_group_c(ex, st, fr, a, ins): R.tags[a[0]] = ('group', cstr(ex, st, a[2])); return None
        def open_group_s(ex, st, fr, a, ins): R.tags[a[0]] = ('group', stdstr(ex, st, a[2])); return None
        def mk_create_ds(getname):
            def f(ex, st, fr, a, ins):             # sret DataSet, this, name, DataType&, DataSpace&, ...
                path = getname(ex, st, a[2]); sp = R.spaces.get(a[4], {'dims': None})
                tn = R.typename(ex, st, a[3])
                R.tags[a[0]] = ('dataset', path); R.dsdims[path] = list(sp['dims']) if sp['dims'] is not None else None; R.dstype[path] = tn
                R.log.append(('dataset', path, R.dsdims[path], sp.get('maxdims'), tn)); return None
            return f
        def copy_ctor(ex, st, fr, a, ins):
            if a[1] in R.tags: R.tags[a[0]] = R.tags[a[1]]
            if a[1] in R.spaces: R.spaces[a[0]] = dict(R.spaces[a[1]])
            return None
        def dt_assign(ex, st, fr, a, ins):
            if a[1] in R.tags: R.tags[a[0]] = R.tags[a[1]]
            return a[0]
        def dt_default(ex, st, fr, a, ins): R.tags[a[0]] = ('datatype', None); return None
        def space_scalar(ex, st, fr, a, ins): R.spaces[a[0]] = {'dims': [], 'sel': None}; return None
        def space_simple(ex, st, fr, a, ins):      # this, rank, dims*, maxdims*
            r = a[1]; R.spaces[a[0]] = {'dims': R.arr(ex, st, a[2], r), 'maxdims': R.arr(ex, st, a[3], r), 'sel': None}; return None
        def get_space(ex, st, fr, a, ins):         # sret DataSpace, this dataset
            t = R.tags.get(a[1]); path = t[1] if t else None
            R.spaces[a[0]] = {'dims': list(R.dsdims.get(path) or []), 'sel': None, 'of': path}; return None
        def select_hs(ex, st, fr, a, ins):         # this, op, count*, start*, stride*, block*
            sp = R.spaces.setdefault(a[0], {'dims': None, 'sel': None}); r = len(sp['dims']) if sp['dims'] is not None else 1
            sp['sel'] = (R.arr(ex, st, a[2], r), R.arr(ex, st, a[3], r), a[4], a[5]); return None
        def extend(ex, st, fr, a, ins):            # this dataset, dims*
            t = R.tags.get(a[0]); path = t[1] if t else None
            r = len(R.dsdims.get(path) or [0]); d = R.arr(ex, st, a[1], r); R.dsdims[path] = d; R.log.append(('extend', path, list(d))); return None
        def ds_write(ex, st, fr, a, ins):          # this, buf, DataType&, memspace&, filespace&, xfer&
            t = R.tags.get(a[0]); path = t[1] if t else '?'
            tn = R.typename(ex, st, a[2]); es = R.esize(tn) or R.esize(R.dstype.get(path))
            ms = R.spaces.get(a[3]); fs = R.spaces.get(a[4])
            fdims = R.dsdims.get(path)
            if ms is not None and ms.get('dims') is not None: mdims = list(ms['dims'])
            else: mdims = list(fdims or [])           # DataSpace::ALL: whole dataset
            cnt = 1
            for d in mdims: cnt *= d
            rec = {'path': path, 'type': tn, 'buf': a[1], 'memdims': mdims, 'filedims': list(fdims) if fdims else fdims, 'filesel': (fs['sel'][:2] if fs and fs.get('sel') else None), 'count': cnt}
            if not isinstance(cnt, int): raise Unsupported('symbolic element count in H5 write to %s' % path)
            if es is None: raise Unsupported('unknown element type in H5 write to %s (%s)' % (path, tn))
            rec['payload'] = R.payload(ex, st, a[1], es[0], es[1], cnt) if cnt <= 4096 else None
            rec['esize'] = es[1]
            R.log.append(('write', path, rec)); return None
        def mk_create_attr(getname):
            def f(ex, st, fr, a, ins):             # sret Attribute, this object, name, DataType&, DataSpace&, PropList&
                owner = R.tags.get(a[1]); R.tags[a[0]] = ('attr', owner, getname(ex, st, a[2]), R.typename(ex, st, a[3])); return None
            return f
        def attr_write(ex, st, fr, a, ins):        # this, DataType&, buf
            t = R.tags.get(a[0]); tn = R.typename(ex, st, a[1]) or (t[3] if t else None); es = R.esize(tn) or ('f', 8)
            v = R.payload(ex, st, a[2], es[0], es[1], 1)[0]
            R.log.append(('attr', t[1] if t else None, t[2] if t else None, v)); return None
        def link(ex, st, fr, a, ins): R.log.append(('link', cstr(ex, st, a[2]), cstr(ex, st, a[3]))); return None
        P = '_ZN2H5'; K = '_ZNK2H5'
        table = {
            P + '6H5FileC1ERKNSt7__cxx1112basic_stringIcSt11char_traitsIcESaIcEEEjRKNS_17FileCreatPropListERKNS_15FileAccPropListE': h5file_ctor,
            K + '10H5Location11createGroupEPKcm': create_group, K + '10H5Location9openGroupEPKc': open_group_c,
            K + '10H5Location9openGroupERKNSt7__cxx1112basic_stringIcSt11char_traitsIcESaIcEEE': open_group_s,
            K + '10H5Location13createDataSetEPKcRKNS_8DataTypeERKNS_9DataSpaceERKNS_17DSetCreatPropListERKNS_15DSetAccPropListERKNS_17LinkCreatPropListE': mk_create_ds(cstr),
            K + '10H5Location13createDataSetERKNSt7__cxx1112basic_stringIcSt11char_traitsIcESaIcEEERKNS_8DataTypeERKNS_9DataSpaceERKNS_17DSetCreatPropListERKNS_15DSetAccPropListERKNS_17LinkCreatPropListE': mk_create_ds(stdstr),
            P + '7DataSetC1ERKS0_': copy_ctor, P + '8DataTypeC1ERKS0_': copy_ctor, P + '8DataTypeaSERKS0_': dt_assign, P + '8DataTypeC1Ev': dt_default,
            P + '9DataSpaceC1E11H5S_class_t': space_scalar, P + '9DataSpaceC1EiPKyS2_': space_simple, P + '9DataSpaceC1ERKS0_': copy_ctor,
            K + '7DataSet8getSpaceEv': get_space, K + '9DataSpace15selectHyperslabE13H5S_seloper_tPKyS3_S3_S3_': select_hs, K + '7DataSet6extendEPKy': extend,
            K + '7DataSet5writeEPKvRKNS_8DataTypeERKNS_9DataSpaceES8_RKNS_19DSetMemXferPropListE': ds_write,
            K + '8H5Object15createAttributeEPKcRKNS_8DataTypeERKNS_9DataSpaceERKNS_8PropListE': mk_create_attr(cstr),
            K + '8H5Object15createAttributeERKNSt7__cxx1112basic_stringIcSt11char_traitsIcESaIcEEERKNS_8DataTypeERKNS_9DataSpaceERKNS_8PropListE': mk_create_attr(stdstr),
            K + '9Attribute5writeERKNS_8DataTypeEPKv': attr_write, K + '10H5Location4linkE10H5L_type_tPKcS3_': link,
        }
        for k, v in table.items(): ex.ext[k] = v
        for nm in ('17DSetCreatPropListC1Ev', '17DSetCreatPropListD1Ev', '5GroupD1Ev', '6H5FileD1Ev', '7DataSetD1Ev', '8DataTypeD1Ev', '9AttributeD1Ev', '9DataSpaceD1Ev'): ex.ext[P + nm] = noop
        for nm in ('17DSetCreatPropList10setDeflateEi', '17DSetCreatPropList10setShuffleEv', '17DSetCreatPropList8setChunkEiPKy'): ex.ext[K + nm] = noop
        def version_string(ex, st, fr, a, ins):      # vfps::inovesa_version(): formatting is not the subject
            sret = a[0]; data = b'verif'; ex.store(st, sret, I64, sret + 16); ex.store(st, sret + 8, I64, len(data)); ex.write_bytes(st, sret + 16, data + b'\0'); return None
        ex.ext_prefix.append(('_ZN4vfps15inovesa_version', version_string))
        for nm in ('H5check_version', 'H5open'): ex.ext[nm] = (lambda ex, st, fr, a, ins: 0)
        # PredType statics are references living in the shared library: give each a distinct fake object
        for g, (ty, init, extn) in mod.globals.items():
            if g.startswith('_ZN2H58PredType') and extn:
                a = ex.gaddr_of(st, g); ex.flush_ginit(st)
                obj = ex.malloc(st, 64); R.tags[obj] = ('predtype', g[len('_ZN2H58PredType'):].lstrip('0123456789').rstrip('E'))
                cm = ex.check_mem; ex.check_mem = False; ex.store(st, a, I64, obj); ex.check_mem = cm
    # ---- queries
    def writes(self, path): return [r[2] for r in self.log if r[0] == 'write' and r[1] == path]
    def attrs(self): return [(r[1], r[2], r[3]) for r in self.log if r[0] == 'attr']
    def datasets(self): return {r[1]: r for r in self.log if r[0] == 'dataset'}
