"""Shared helpers of the source-map checks (C01, C02, C03, C04, C08, C15, C17): build, snapshot, symbolic overlays, native replay."""
import os, sys, subprocess, json, struct, math, random
sys.path.insert(0, os.path.join(os.path.dirname(os.path.abspath(__file__)), '..', 'sx'))
from core import *

MAPS_TUS = ['src/SM/KickMap.cpp', 'src/SM/SourceMap.cpp', 'src/SM/RFKickMap.cpp', 'src/SM/DynamicRFKickMap.cpp', 'src/SM/DriftMap.cpp', 'src/SM/FokkerPlanckMap.cpp',
            'src/SM/Identity.cpp', 'src/PS/PhaseSpace.cpp', 'src/IO/Display.cpp', 'src/HelperFunctions.cpp']
MAPS_MODS = ['harness', 'KickMap', 'SourceMap', 'RFKickMap', 'DynamicRFKickMap', 'DriftMap', 'FokkerPlanckMap', 'PhaseSpace', 'Identity']

F32 = FloatTy(32)

def maps_build():
    return B.build('h_maps.cpp', MAPS_TUS)

def cfg_args(n, nb, it, seed=7, qmin=-6, qmax=6, pmin=-6, pmax=6, fptype=3, fptrack=1, dt=3):
    return [n, nb, it, seed, qmin, qmax, pmin, pmax, fptype, fptrack, dt]

def maps_world(bld, n, nb, it, **kw):
    a = cfg_args(n, nb, it, **kw)
    tag = 'w' + '_'.join(str(x) for x in a)
    snap, roots, prefix = take_snapshot(bld, tag, a)
    return snap, roots, prefix

def f32(x): return struct.unpack('<f', struct.pack('<f', float(x)))[0]

def sym_reals(ex, st, addr, names, lo=None, hi=None, strict_hi=False):
    """overlay fresh real symbols on consecutive float cells; adds range constraints to the path condition"""
    vs = []
    for i, nm in enumerate(names):
        v = z3.Real(nm); vs.append(v)
        st.sym[addr + 4 * i] = (4, 'f', v)
        if lo is not None: st.pc.append(v >= lo)
        if hi is not None: st.pc.append(v < hi if strict_hi else v <= hi)
        if lo is not None and hi is not None: st.ranges[nm] = (Fraction(lo), Fraction(hi))
    return vs

def set_floats(ex, st, addr, vals):
    for i, v in enumerate(vals):
        st.sym.pop(addr + 4 * i, None)
        ex.write_bytes(st, addr + 4 * i, struct.pack('<f', float(v)))

def get_reals(ex, st, addr, n):
    return [ex.dom.z(ex.load(st, addr + 4 * i, F32)) for i in range(n)]

def vec_data_ptr(ex, st, vec_addr):
    """std::vector<T>::_M_start"""
    return ex.load(st, vec_addr, IntTy(64))

def run_paths(ex, st, fname, args):
    """run a call on all paths, raising on error paths"""
    out = []
    for s in ex.run_all(st, fname, args):
        if hasattr(s, 'error'): raise s.error
        if hasattr(s, 'ended'): raise Unsupported('%s: path ended: %s' % (fname, s.ended))
        out.append(s)
    return out

def account(res, ex, mod, sts):
    res.paths += len(sts); res.instrs += sum(s.nins for s in sts)
    res.queries += ex.stats['queries']; res.solver_s += ex.stats['solver_s']; ex.stats['queries'] = 0; ex.stats['solver_s'] = 0.0
    for k in ex.fcount:
        if k in mod.funcs and not k.startswith('_ZNSt') and not k.startswith('_ZSt') and not k.startswith('_ZN5boost') and not k.startswith('_ZN9__gnu'): res.funcs[k] = fn_lines(mod, k)

# ------------------------------------------------------------------ native replay
def native_run(bld, spec, tag):
    """run the real code natively on concrete inputs; spec: dict name -> scalar | list; returns dict name -> list of floats"""
    d = os.path.join(OUT, 'replay'); os.makedirs(d, exist_ok=True)
    fin = os.path.join(d, '%s-%d.in' % (tag, os.getpid())); fout = fin[:-3] + '.out'
    with open(fin, 'w') as f:
        for k, v in spec.items():
            if isinstance(v, (list, tuple)): f.write('%s %s\n' % (k, ' '.join(repr(f32(x)) if isinstance(x, float) else str(x) for x in v)))
            else: f.write('%s %s\n' % (k, repr(v) if isinstance(v, float) else v))
    r = subprocess.run([bld['exe'], 'run', fin, fout], capture_output=True, text=True, timeout=120)
    if r.returncode != 0: raise RuntimeError('native run failed rc=%d: %s' % (r.returncode, r.stderr[-500:]))
    res = {}
    for ln in open(fout):
        w = ln.split()
        if not w: continue
        res.setdefault(w[0], []).append([float(x) for x in w[2:]])
    os.unlink(fin); os.unlink(fout)
    return {k: (v[0] if len(v) == 1 else v) for k, v in res.items()}
