"""C04 - without impedance every start relaxes to the unit-width natural Gaussian (decided as exact moment recurrences of the real operator)."""
import sys, os
sys.path.insert(0, os.path.dirname(os.path.abspath(__file__)))
from maps_common import *

def job_moments(res, n, fptype, dt, pmax):
    """Fokker-Planck operator built by the real constructor from IR with symbolic e1; one column of symbolic data supported away from the border
    (and, for the 4-point stencil, away from the rows where the stencil switches sides).  Exact recurrences for M0, M1, M2."""
    bld = maps_build(); mod = load_module(bld, MAPS_MODS)
    pmin = -6.0
    snap, R, pre = maps_world(bld, n, 1, 4, pmin=pmin, pmax=pmax, qmin=-4.0, qmax=8.0)      # position axis shifted differently: its zero bin lies two rows away from the energy axis' one
    validate(res, mod, snap, pre)
    ex = Exec(mod, snap, RealDom()); st = State()
    e1 = z3.Real('e1'); st.pc += [e1 > 0, e1 <= Fraction(1, 4)]
    st = ex.run1(st, 'e_new_fp', [R['in'], R['out'], fptype, 1, e1, dt]); fpm = st.retval
    p = get_reals(ex, st, R['axis1_data'], n)
    pf = [float(x.as_fraction()) for x in p]
    delta = Fraction(f32(f32(f32(pmax) - f32(pmin)) / f32(n - 1)))
    zb = ((pmin + pmax) / (pmin - pmax) + 1) * (n - 1) / 2; zc = int(math.floor(zb))    # first row of the upper stencil (loop starts at the truncated zero bin)
    margin = 2 if dt == 3 else 4         # rows whose stencil would reach the zeroed border rows are not "inside the grid"
    rows = [y for y in range(margin, n - margin)]
    if dt == 4: rows = [y for y in rows if not (zc - 2 <= y <= zc + 1)]     # keep the support clear of the stencil switch
    x = n // 2; D = {}
    for y in range(n):
        a = R['data_in'] + 4 * (x * n + y)
        if y in rows:
            v = z3.Real('f%d' % y); st.sym[a] = (4, 'f', v); D[y] = v
        else: ex.write_bytes(st, a, bytes(4))
    sts = run_paths(ex, st, 'e_apply', [fpm]); account(res, ex, mod, sts); s = sts[0]
    out = [ex.dom.z(ex.load(s, R['data_out'] + 4 * (x * n + y), F32)) for y in range(n)]
    damp = fptype in (1, 3); diff = fptype in (2, 3)
    d2 = delta * delta
    tol = z3.RealVal('1/100000')
    N2 = None; units = {}
    # the operator is linear in the data (the output terms are): decide the recurrences per unit source cell, univariate in e1
    for srow in rows:
        sub = [(D[y], z3.RealVal(1 if y == srow else 0)) for y in rows]
        o = [z3.simplify(z3.substitute(c, *sub)) for c in out]; units[srow] = o
        ps = p[srow]
        N = [sum([o[y] * (p[y] ** d if d else 1) for y in range(n)], z3.RealVal(0)) for d in range(3)]
        want = [z3.RealVal(1), (1 - e1) * ps if damp else ps,
                ps * ps + ((-2 * e1 * ps * ps - (e1 * d2 if dt == 3 else 0)) if damp else 0) + (2 * e1 if diff else 0)]
        if N2 is None: N2 = N[2]
        for k in range(3):
            def cex(m, k=k, srow=srow): return {'replay': 'fpmom', 'n': n, 'fptype': fptype, 'dt': dt, 'pmax': pmax, 'e1': mval(m, e1), 'col': x, 'col_data': [1.0 if y == srow else 0.0 for y in range(n)], 'moment': 'M%d' % k, 'got': mval(m, N[k]), 'want': mval(m, want[k])}
            sc = max(1.0, abs(pf[srow]) ** k)
            prove(res, 'FP type %d stencil %d n=%d zero-bin %.2f, unit charge in row %d: M%d\' obeys the exact recurrence (damping %s, diffusion %s) for every e1 in (0,1/4]' % (fptype, dt, n, zb, srow, k, damp, diff),
                  s.pc, z3.Or(N[k] - want[k] > tol * sc, N[k] - want[k] < -tol * sc), key='fp-moment-M%d' % k, cex_fn=cex)
    # linearity: the all-symbolic output equals the superposition of the unit responses
    prove(res, 'FP type %d stencil %d n=%d: output column is the superposition of the unit-cell responses (operator linear in the data)' % (fptype, dt, n), s.pc,
          z3.Or(*[out[y] != sum([D[r] * units[r][y] for r in rows], z3.RealVal(0)) for y in range(n)]), key='fp-linearity')
    if fptype:
        witness(res, 'FP type %d stencil %d: second moment depends on e1' % (fptype, dt), list(s.pc) + [z3.Real('e1b') > 0, z3.Real('e1b') < Fraction(1, 4)], z3.substitute(N2, (e1, z3.Real('e1b'))) != N2)

def job_consequences(res):
    """pure SMT: from the recurrences, V = M2/M0 converges to V* (full), shrinks (damping), grows (diffusion), stays (none)"""
    e = z3.Real('e'); V = z3.Real('V'); d2 = z3.Real('d2'); Vn = z3.Real('Vn')
    base = [e > 0, e < Fraction(1, 2), d2 > 0, d2 < Fraction(1, 4)]
    for stencil, Vs in ((3, 1 - d2 / 2), (4, z3.RealVal(1))):
        upd = (1 - 2 * e) * V + (e * (2 - d2) if stencil == 3 else 2 * e)
        prove(res, 'full FP (%d-point): V\' - V* == (1-2e)(V - V*) with V* = %s: geometric convergence to a limit independent of the start' % (stencil, Vs), base + [Vn == upd], Vn - Vs != (1 - 2 * e) * (V - Vs), key='consequence-full')
    prove(res, 'damping only: V\' < V for V > 0 (4-point; 3-point: V\' = (1-2e)V - e d2 < V)', base + [V > 0], z3.Or((1 - 2 * e) * V >= V, (1 - 2 * e) * V - e * d2 >= V), key='consequence-damping')
    prove(res, 'diffusion only: V\' = V + 2e > V', base, V + 2 * e <= V, key='consequence-diffusion')
    prove(res, 'limit within grid error of 1: |V* - 1| <= d2/2', base, z3.Or(1 - d2 / 2 - 1 > d2 / 2, 1 - d2 / 2 - 1 < -d2 / 2), key='consequence-limit')

def replayer(bld):
    def rp(path, c):
        n = c['n']; data = [0.0] * (n * n)
        for y, v in enumerate(c['col_data']): data[c['col'] * n + y] = float(v)
        o = native_run(bld, {'what': 'fp', 'n': n, 'nb': 1, 'it': 4, 'seed': 7, 'fptype': c['fptype'], 'dt': c['dt'], 'e1': float(c['e1']), 'pmax': c['pmax'], 'pmin': -6.0, 'qmin': -4.0, 'qmax': 8.0, 'data': data}, 'c04')
        pmin = -6.0; dl = (c['pmax'] - pmin) / (n - 1); p = [pmin + y * dl for y in range(n)]; x = c['col']; e1 = float(c['e1'])
        def mom(arr, d): return sum(arr[x * n + y] * p[y] ** d for y in range(n))
        m = [mom(o['in'], d) for d in range(3)]; g = [mom(o['out'], d) for d in range(3)]
        damp = c['fptype'] in (1, 3); diff = c['fptype'] in (2, 3)
        w = [m[0], (1 - e1) * m[1] if damp else m[1], m[2] + ((-2 * e1 * m[2] - (e1 * dl * dl * m[0] if c['dt'] == 3 else 0)) if damp else 0) + (2 * e1 * m[0] if diff else 0)]
        k = int(c['moment'][1]); sc = sum(abs(v) for v in c['col_data']) * 36 + 1e-9
        dev = abs(g[k] - w[k])
        return (dev > 2e-4 * sc, 'native: %s\' = %.6g, recurrence predicts %.6g (dev %.3g, scale %.3g)' % (c['moment'], g[k], w[k], dev, sc))
    return rp
def get_replayer(): return replayer(maps_build())

def main(tier):
    chk = Check('C04', tier, '4/C04')
    bld = maps_build()
    cfgs = [(16, 6.0), (16, 6.5)] if tier == 'quick' else [(16, 6.0), (16, 6.5), (17, 6.0), (20, 7.3), (24, 5.2), (33, 6.5), (40, 8.0), (64, 6.5)]
    jobs = [(job_moments, (n, ft, dt, pm)) for n, pm in cfgs for ft in (0, 1, 2, 3) for dt in (3, 4)] + [(job_consequences, ())]
    # transport side: kick and drift reproduce polynomials of degree <= 2 (so they transport second moments exactly) for >= 3 interpolation points
    import c02
    jobs += [(c02.job_poly, (n, it, axis, r, 1)) for n in (10, 11) for it in (3, 4) for axis in (0, 1) for r in (2, 6)]
    import c08
    jobs += [(c08.job_fixed_map, (w, 6, 3, 3, 3, 3)) for w in ('drift', 'rflin', 'fpm', 'idm')]      # relaxation is per bunch: every bunch of a train gets the drift, the RF kick and the damping/diffusion of a single bunch
    import mainparams
    jobs += [(mainparams.job_map_parameters, ('C04',))]      # O-main: the damping decrement main hands to the map: 2/(x*y*steps), inversely proportional to the configured step count
    # observation side: the reported bunch length / energy spread are the second moments of the profiles over the charge actually on the grid (whatever was lost before)
    import c09
    jobs += [(c09.job_moments, (6, 3, 2, ax, (-6, 6), (-6, 6))) for ax in (0, 1)] + [(c09.job_moments, (5, 1, 0, 1, (-5, 7), (-6.5, 5.5)))]
    chk.bounds = {'operator': 'real constructor run from IR, symbolic e1 in (0,1/4], grids %s with centred and shifted energy axis, one symbolic data column, support >= 2 rows from the border and (4-point) away from the 4 rows around the stencil switch' % [c[0] for c in cfgs],
                  'convergence': 'derived from the one-step recurrences by the solver; iteration over many damping times is not executed'}
    chk.assumptions = ['floats as reals (tolerance 1e-5*sum|f|)', 'the transport part (kick/drift) reproduces second moments for >= 3 interpolation points (C02 polynomial obligation); for 2 points it adds f(1-f) <= 1/4 cell^2 per step',
                       'e1 in main: numerator 2, divisor = step count times two further factors (synchrotron frequency and damping time by reading; their identity is not decided), inversely proportional to the configured number of steps (set-up slice of main)', 'coupled q-p relaxation, stability limit of the explicit scheme and float drift are outside the claim']
    chk.stubs = ['operator new/delete', 'random_device fixed seed', 'sqrt(2*e1) uninterpreted']
    import c02 as _c02
    _r4 = replayer(bld); _r2 = _c02.replayer(bld)
    import c09 as _c09
    _r9 = _c09.replayer(_c09.ps_build())
    import c08 as _c08
    _r8 = _c08.replayer(bld)
    chk.replayer = lambda path, c: (_r8 if ('bunch' in c and 'nb' in c and c.get('replay') in _c08.WHAT2RUN) else _r2 if c.get('replay') == 'poly' else _r9 if c.get('replay') in ('moments', 'normalize') else _r4)(path, c)
    _unused = None
    chk.add(run_jobs(jobs, budget=600))
    chk.finish()

if __name__ == '__main__':
    main(sys.argv[1] if len(sys.argv) > 1 else 'quick')
