#!/bin/sh
# usage: tools/with_seed.sh <patch file or seed name> <command...>   (runs the command with VERIF_REPO pointing at a scratch worktree of /repo HEAD with the patch applied)
P="$1"; shift
[ -f "$P" ] || P=/verif/seeded/$P/patch.diff
W=/tmp/withrepo.$$
git -C /repo worktree add --detach $W HEAD -q || exit 9
trap 'git -C /repo worktree remove --force $W; git -C /repo worktree prune; rm -rf /tmp/withscratch.$$' EXIT
(cd $W && (git apply "$P" 2>/dev/null || patch -p1 --fuzz=3 --no-backup-if-mismatch < "$P" >/dev/null)) || { echo "patch does not apply"; exit 3; }
VERIF_REPO=$W VERIF_SCRATCH=/tmp/withscratch.$$ "$@"
