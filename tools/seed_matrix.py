#!/usr/bin/env python3
"""summarise seeded/*/detect_now.json (results of the current checks; detect.json holds the first result of each seed): one line per seed, totals at the end"""
import os, json, sys
V = os.path.dirname(os.path.dirname(os.path.abspath(__file__)))
tot = {'caught': 0, 'cannot decide (exit 2)': 0, 'not caught by the checks run': 0, 'not re-run': 0}; rows = []
for nm in sorted(os.listdir(os.path.join(V, 'seeded'))):
    d = os.path.join(V, 'seeded', nm)
    if not os.path.exists(os.path.join(d, 'patch.diff')): continue
    f = os.path.join(d, 'detect_now.json')
    if not os.path.exists(f): tot['not re-run'] += 1; rows.append((nm, 'not re-run', '')); continue
    r = json.load(open(f))['results']
    if not r: tot['not re-run'] += 1; rows.append((nm, 'no check', '')); continue
    ex = {k: v['exit'] for k, v in r.items()}
    if 1 in ex.values(): k = 'caught'
    elif 2 in ex.values(): k = 'cannot decide (exit 2)'
    else: k = 'not caught by the checks run'
    tot[k] += 1; rows.append((nm, k, ' '.join('%s:%d' % (c, e) for c, e in sorted(ex.items()))))
for r in rows:
    if '-v' in sys.argv or r[1] != 'caught': print('%-8s %-32s %s' % r)
print(tot)
