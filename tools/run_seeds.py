#!/usr/bin/env python3
"""apply each seeded defect to /repo, run the quick checks, undo, and record which checks raise VIOLATION (seeded/<name>/detect.json)"""
import os, sys, json, subprocess, time
V = os.path.dirname(os.path.dirname(os.path.abspath(__file__)))
def sh(cmd, **kw): return subprocess.run(cmd, shell=True, capture_output=True, text=True, **kw)
def main():
    names = sys.argv[1:] or sorted(os.listdir(os.path.join(V, 'seeded')))
    man = json.load(open(os.path.join(V, 'MANIFEST.json'))); claimed = [c['property_id'] for c in man['checks']]
    W = os.environ.get('SEEDS_W', '/tmp/seedrepo')      # (a second instance needs its own worktree and scratch directory)
    sh('git -C /repo worktree remove --force %s; rm -rf %s; git -C /repo worktree prune; git -C /repo worktree add --detach %s HEAD' % (W, W, W))
    SC = W.rstrip('/') + '.scratch' if 'SEEDS_W' in os.environ else '/tmp/seedscratch'
    env = dict(os.environ, VERIF_REPO=W, VERIF_SCRATCH=SC)
    for nm in names:
        d = os.path.join(V, 'seeded', nm)
        if not os.path.exists(os.path.join(d, 'patch.diff')): continue
        meta = json.load(open(os.path.join(d, 'meta.json'))); prop = meta.get('property', nm[:3])
        r = sh('git -C %s apply %s/patch.diff' % (W, d))
        if r.returncode != 0: r = sh('cd %s && patch -p1 --fuzz=3 --no-backup-if-mismatch < %s/patch.diff' % (W, d))      # seeds taken against an earlier HEAD (before a fix: commit touched the file)
        if r.returncode != 0:
            sh('git -C %s checkout -- . ; git -C %s clean -fdq' % (W, W)); print(nm, 'PATCH DOES NOT APPLY', r.stderr[:200]); continue
        res = {}
        try:
            targets = [prop] if prop in claimed else [c for c in ('C03', 'C04', 'C06', 'C08') if prop == 'C05']      # C05 is not claimed: its seeds are run against the checks that own its ingredients
            targets += [c for c in claimed if c != prop] if os.environ.get('SEEDS_ALL') else []
            for c in targets:
                t = time.time(); r = sh('./check %s quick' % c, cwd=V, env=env)
                res[c] = {'exit': r.returncode, 'violation_lines': r.stdout.count('VIOLATION property='), 'tail': r.stdout.strip().split('\n')[-1][:300], 'secs': round(time.time() - t, 1)}
        finally:
            sh('git -C %s checkout -- . ; git -C %s clean -fdq' % (W, W)); sh('rm -rf %s' % SC)      # builds and output of the mutated tree go with it
        json.dump({'seed': nm, 'property': prop, 'repo_head': sh('git -C /repo rev-parse --short HEAD').stdout.strip(), 'results': res}, open(os.path.join(d, os.environ.get('SEEDS_OUT', 'detect.json')), 'w'), indent=1)
        print(nm, prop, {k: (v['exit'], v['violation_lines']) for k, v in res.items()} or 'no check for this property yet')
main()
sh('git -C /repo worktree remove --force %s; rm -rf %s' % (os.environ.get('SEEDS_W', '/tmp/seedrepo'), (os.environ['SEEDS_W'].rstrip('/') + '.scratch') if 'SEEDS_W' in os.environ else '/tmp/seedscratch'))
