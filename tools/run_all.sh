#!/bin/sh
# runs every claimed check (quick by default) on the unchanged tree; prints one summary line per check
cd "$(dirname "$0")/.."
TIER="${1:-quick}"
for id in $(python3 -c "import json;print(' '.join(c['property_id'] for c in json.load(open('MANIFEST.json'))['checks']))"); do
  S=$(date +%s); OUT=$(./check $id $TIER 2>&1); RC=$?; E=$(( $(date +%s) - S ))
  echo "$id rc=$RC ${E}s :: $(echo "$OUT" | tail -1 | cut -c1-220)"
  [ $RC -ne 0 ] && echo "$OUT" | grep -E "VIOLATION|ERROR|INCONCL|WITNESS|MISMATCH" | head -5
done
python3-vt - <<'PY'
import json, jsonschema, glob
sch = json.load(open('/root/.vp/EVIDENCE.schema.json'))
for f in sorted(glob.glob('evidence/*.json')): jsonschema.validate(json.load(open(f)), sch)
jsonschema.validate(json.load(open('MANIFEST.json')), json.load(open('/root/.vp/MANIFEST.schema.json')))
print('manifest + evidence files validate')
PY
