#!/bin/sh
# builds /repo (guard off = plain build) in a scratch dir outside /repo and /verif and runs the unit tests; removes the dir afterwards
set -e
D=$(mktemp -d /tmp/inovesa-base.XXXXXX)
trap 'rm -rf "$D"' EXIT
cmake -G Ninja -S /repo -B "$D" -DCMAKE_BUILD_TYPE=RelWithDebInfo >/dev/null
cmake --build "$D" -j16 >/dev/null
cd "$D" && ./inovesa-test --report_level=short 2>&1 | tail -5
