#!/bin/sh
# usage: tools/confirm_seed.sh <seed name> <dir with patch.diff, demo.*, build_demo.sh, meta.json>
# Confirms a seeded defect in a scratch worktree of /repo HEAD (outside /repo and /verif):
#   compiles, unit tests pass with the change, demo fails with / passes without it.
# On success stores it as /verif/seeded/<name>/ with the patch regenerated against the current HEAD.
NAME="$1"; SRC="$2"
W=/tmp/cs/$NAME
rm -rf "$W"; git -C /repo worktree prune; git -C /repo worktree add --detach "$W" HEAD -q || exit 9
cleanup() { git -C /repo worktree remove --force "$W" 2>/dev/null; rm -rf "$W"; git -C /repo worktree prune; }
trap cleanup EXIT
cd "$W" || exit 9
mkdir -p _seed; cp -r "$SRC"/* _seed/ 2>/dev/null; rm -rf _seed/_demo_build _seed/_cfg
LOG=/tmp/cs/$NAME.log; : > "$LOG"
cmake -G Ninja -B _build -DCMAKE_BUILD_TYPE=RelWithDebInfo . >/dev/null 2>&1      # some demos take InovesaConfig.hpp from the configured build directory
bash _seed/build_demo.sh >>"$LOG" 2>&1; P0=$?
echo "demo pristine exit=$P0" | tee -a "$LOG"
(git apply _seed/patch.diff 2>/dev/null || patch -p1 --fuzz=3 --no-backup-if-mismatch < _seed/patch.diff >>"$LOG" 2>&1) || { echo "PATCH DOES NOT APPLY" | tee -a "$LOG"; exit 3; }
git diff -- src inc > _seed/patch.rebased.diff
cmake -G Ninja -B _build -DCMAKE_BUILD_TYPE=RelWithDebInfo . >/dev/null 2>&1 && cmake --build _build -j16 >>"$LOG" 2>&1; BUILD=$?
echo "build with change exit=$BUILD" | tee -a "$LOG"
(cd _build && ./inovesa-test --report_level=short 2>&1 | tail -4) | tee -a "$LOG" | grep -q "42 test cases out of 42 passed\|40 test cases out of 42 passed"; T=$?
(cd _build && ./inovesa-test >/dev/null 2>&1); TRC=$?
echo "unit tests with change rc=$TRC" | tee -a "$LOG"
rm -rf _seed/_demo_build
bash _seed/build_demo.sh >>"$LOG" 2>&1; P1=$?
echo "demo with change exit=$P1" | tee -a "$LOG"
if [ "$P0" = 0 ] && [ "$BUILD" = 0 ] && [ "$TRC" = 0 ] && [ "$P1" != 0 ]; then
  D=/verif/seeded/$NAME; mkdir -p "$D"
  cp _seed/patch.rebased.diff "$D/patch.diff"
  for f in _seed/*; do b=$(basename "$f"); case "$b" in patch.diff|patch.rebased.diff|meta.json|_demo_build|_cfg|out_with.txt|out_without.txt|detect.json) ;; *) cp -r "$f" "$D/";; esac; done
  [ -f _seed/meta.json ] && cp _seed/meta.json "$D/meta.agent.json"
  python3 - "$D" "$NAME" "$P0" "$TRC" "$P1" <<'PY'
import json, sys, os, subprocess
d, name, p0, trc, p1 = sys.argv[1:6]
a = {}
try: a = json.load(open(os.path.join(d, 'meta.agent.json')))
except Exception: pass
if 'confirmed_by_me' in a: a = {k: a.get(k) for k in ('property', 'what_changed', 'needs_to_manifest', 'why_tests_pass')}
head = subprocess.run(['git', '-C', '/repo', 'rev-parse', '--short', 'HEAD'], capture_output=True, text=True).stdout.strip()
m = {'name': name, 'property': a.get('property', name[:3]), 'what_changed': a.get('what_changed'), 'needs_to_manifest': a.get('needs_to_manifest'), 'why_tests_pass': a.get('why_tests_pass'),
     'confirmed_by_me': {'repo_head': head, 'scratch_worktree': '/tmp/cs/' + name + ' (removed)', 'ran': ['sh _seed/build_demo.sh (pristine) -> exit ' + p0, 'patch applied; cmake+ninja build -> ok', './inovesa-test (all 42 cases) -> rc ' + trc, 'sh _seed/build_demo.sh (with change) -> exit ' + p1]},
     'apply': 'git -C /repo apply /verif/seeded/%s/patch.diff ; undo: git -C /repo checkout -- .' % name}
json.dump(m, open(os.path.join(d, 'meta.json'), 'w'), indent=1)
os.remove(os.path.join(d, 'meta.agent.json')) if os.path.exists(os.path.join(d, 'meta.agent.json')) else None
PY
  echo "CONFIRMED $NAME" | tee -a "$LOG"
else
  echo "NOT CONFIRMED $NAME (pristine=$P0 build=$BUILD tests=$TRC mutated=$P1)" | tee -a "$LOG"; exit 4
fi
