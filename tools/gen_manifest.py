#!/usr/bin/env python3
"""regenerates /verif/MANIFEST.json from the table below (kept in one place so the manifest is always valid)"""
import json, os
V = os.path.dirname(os.path.dirname(os.path.abspath(__file__)))
TB = ('trusted: clang-14 lowering of the sources to IR at -O1; the IR executor (validated bit-for-bit against the native run of the same entry points on every run); '
      'z3 5.1; the environment models listed in the evidence (stubs); sizes above the stated bounds are outside the claim')
CHECKS = {
 'C01': dict(technique='symbolic execution of the real kick/drift/RF/Fokker-Planck/identity kernels (LLVM IR) with symbolic displacement, data and damping decrement; z3 NRA decides per-row charge conservation',
             text='bounded symbolic verification: for every displacement (integer part case-split, fraction real) and all interior-supported data of a row, the sum over cells is unchanged to 2e-6*sum|in|; Fokker-Planck operator built by the real constructor from IR for every e1 in (0,1/4], all 4 types x both stencils; RF/drift with the constructor-computed field; identity cell by cell',
             ref='4/C01'),
 'C02': dict(technique='symbolic execution of calcCoefficiants/updateSM/apply (LLVM IR): z3 reals for weight identities and polynomial reproduction, z3 IEEE-754 theory for bit-exact whole-cell shifts, (1+e) rounding enclosure for float weights',
             text='bounded symbolic verification: weight moment identities for every real f in [0,1) and orders 1-4; every float f for orders 1-2 (IEEE theory) and per-weight rounding enclosures for orders 3-4; whole-cell shifts bit-identical for all finite float data and every k the map represents (|k| beyond: shifted-or-zero); polynomial rows of degree < order reproduced at y+off for all coefficients',
             ref='4/C02'),
 'C03': dict(technique='symbolic execution of the RFKickMap/DriftMap constructors and the kick kernels from LLVM IR (uninterpreted tan/sin/asin), first-moment lemma per unit cell, then SMT algebra on the extracted one-step matrix',
             text='bounded symbolic verification of the inductive step: RF field == tan(a)*(zero_bin - x) resp. the sinusoidal formula and drift field == slip polynomial for all machine parameters on grids shifted differently in q and p; a kick moves the first moment of any interior row by exactly -off (2-4 points); the resulting step matrix has det 1, |trace|<2, fixed sense and trace = 2cos(a) + O(a^4)',
             ref='4/C03'),
 'C04': dict(technique='symbolic execution of the FokkerPlanckMap constructor and apply from LLVM IR with symbolic damping decrement; exact moment recurrences per unit cell decided by z3, convergence consequences by SMT algebra',
             text='bounded symbolic verification: for every e1 in (0,1/4], all 4 Fokker-Planck types and both stencils the real operator maps (M0,M1,M2) by the exact recurrences (M0 kept, M1 damped by 1-e1, M2 -> (1-2e1)M2 + e1(2-d^2)M0 resp. +2e1 M0), linear in the data; hence geometric convergence to a start-independent limit within grid error of 1, monotone shrink/growth for damping/diffusion only',
             ref='4/C04'),
 'C06': dict(technique='symbolic execution of ElectricField::wakePotential/padBunchProfiles, the constructor and WakePotentialMap::update from LLVM IR with the FFT as uninterpreted functions of whole buffers; z3 decides term identity with the convolution formula',
             text='bounded symbolic verification: for every profile of every bunch and every complex impedance sample the returned wake potential is scaling*c2r(Z_k*r2c(train)_k, k<N/2)[bucket*spacing+x] with the train built by placing each profile at bucket*spacing, independent of samples k>=N/2; scaling == Ib*dt*c/(scale*delta_p*sigma_delta*E0)/N from the constructor run on 0xA5-filled FFT buffers; the wake kick copies bunch b to rows of bunch b; N up to 16 incl. prime/composite, empty buckets',
             ref='4/C06'),
 'C07': dict(technique='symbolic execution of ElectricField::updateCSR and wakePotential from LLVM IR; uninterpreted FFT for structure and signs, exact rational DFT at N=4 for the Parseval identity; z3 NRA',
             text='bounded symbolic verification: spectrum[b][k] == delta_q^2 Re Z_k |r2c(profile_b)_k|^2 (0 above N/2), intensity == delta_f*sum, non-negative for passive impedances, with cutoff 0 <= cut <= uncut; Parseval (spectrum sum == half of profile times unscaled wake minus DC term) for all profiles and complex impedances at N=4 with the documented DFT written out',
             ref='4/C07'),
 'C08': dict(technique='differential symbolic execution of the real LLVM IR (multi-bunch vs single-bunch objects) on native snapshots, z3 NRA unsat per bunch',
             text='bounded symbolic verification: for every data value of every bunch and every fractional displacement (integer parts fixed per row) the B-bunch kernels equal the single-bunch kernels cell by cell, for generic x/y kicks, both RF models, drift, Fokker-Planck (3/4-point) and identity, grids 6-9, 2-3 bunches, 1-4 interpolation points',
             ref='4/C08'),
 'C09': dict(technique='symbolic execution of PhaseSpace::updateX/YProjection, integrate, normalize, average, variance and the copy constructor from LLVM IR with symbolic grid data, projections and charges; z3 NRA',
             text='bounded symbolic verification: after projection+integrate+normalize+refresh every bunch integrates to exactly its share (empty buckets to zero, total to the sum) for all non-negative data; mean/variance/rms are exactly the first/second moments of that bunch\'s projection divided by its measured charge and mention no other bunch; a copy has term-identical data, projections, charges, integral and moments; grids 4-8, 1-3 bunches, patterns with an empty bucket',
             ref='4/C09'),
 'C10': dict(technique='symbolic execution of the HDF5File constructor and every append function from LLVM IR against a recorder model of the HDF5 C++ API (data-flow terms from symbolic sources to datasets/attributes), plus bounded path exploration of main()\'s loop for record bookkeeping',
             text='bounded symbolic verification (partial): every axis dataset, unit attribute and impedance dataset carries the term of the quantity the statement names for all values; each append extends exactly the expected datasets by one record at offset = record count with the named source array, bunch b in row b (1-3 bunches, first and second record); record/time-axis bookkeeping over all paths of <= K loop iterations of main',
             ref='4/C10'),
 'C12': dict(technique='symbolic execution with write logging of every observer call (PhaseSpace observers, updateCSR, HDF5File appends, applyTo, getPastModulation) from LLVM IR, plus under-constrained path exploration of main()\'s loop from its real IR with all cadences symbolic; z3 decides the schedule arithmetic',
             text='bounded symbolic verification (first sentence of the statement): every observer call leaves every byte outside observer state as it was, for all symbolic contents; integrate is idempotent; the same steps of the dynamic RF map with and without interleaved record fetches leave grid, field and pending modulation identical; over all paths of <= 2 (3) loop iterations the state-changing events of an iteration are the canonical step with fixed receivers, renormalisation depends on the step number only, output on k % outstep; bit-identity of separate processes is not claimed',
             ref='4/C12'),
 'C13': dict(technique='symbolic execution of ProgramOptions::save from LLVM IR on snapshots taken after a native parse of seven scenarios, with one symbol per effective option value, the output stream as a recorder, boost variables_map lookup over the snapshot\'s red-black tree and C++ exception unwinding; z3 decides term identity of every saved value',
             text='bounded symbolic verification of the writer half: in every scenario (defaults, all options on the command line with three bunch currents, canonical and legacy keys in a parent config, both names of a quantity with different values, alpha0 vs synchrotron frequency) the saved file has exactly one line per option with a getter whose value term is the bound variable, written with >= 9/17 digits, one line per bunch current, no legacy keys; the reader (boost) is trusted',
             ref='4/C13, 9.6'),
 'C14': dict(technique='under-constrained symbolic execution of main()\'s loop and epilogue from its real LLVM IR (compiled -fno-inline) with every volatile read of the interrupt flag a fresh monotone boolean; event traces checked against the step grammar; every store of the program to the flag explored back through its dominators; z3 for path conditions',
             text='bounded symbolic verification: the handler only sets the flag; every other store to the flag writes true on every path; on every path of <= 2 (3) iterations an interrupt seen at any loop test lets the step in progress finish, runs no further step, appends exactly one final record of type All labelled with the step reached, prints Aborted. and returns 0; any other place where main reads the flag is explored with the flag set and must lead to the same ending',
             ref='4/C14'),
 'C15': dict(technique='symbolic execution of every applyTo (kick, drift, 4 Fokker-Planck tracking models) with symbolic position, displacement field and noise draw; z3 decides containment and particle==blob-centroid',
             text='bounded symbolic verification: for every real start position on the grid, every (unbounded) displacement field and noise draw the tracked coordinate stays in [0,n-1]^2; a particle on a grid point or half-way between rows moves exactly like the centroid of a unit blob transported by apply() (it>=2); the stochastic model damps towards the zero-energy bin with N(0,sqrt(2e1)/delta) noise',
             ref='4/C15'),
 'C19': dict(technique='symbolic execution of both DynamicRFKickMap constructors, __calcModulation, apply and getPastModulation from LLVM IR against the static RFKickMap (reals with uninterpreted tan/sin/asin; z3 IEEE theory for the zero-amplitude queue entries)',
             text='bounded symbolic verification: dynamic map with zero amplitudes has the same members and displacement field as the static map for all machine parameters (both models); zero-amplitude queue entries are bit-identical to (syncphase,1) for every finite noise draw; apply consumes exactly the queue front, kicks with it and records it; flush hands out every record once',
             ref='4/C19'),
 'C16': dict(technique='symbolic execution of the closed-form impedance models, Impedance::operator+= and makeImpedance from LLVM IR with symbolic physical parameters (pow/sqrt/log uninterpreted with sign axioms); z3 decides shape, passivity, formulas and the factory sum',
             text='bounded symbolic verification (partial): every closed-form model returns n samples, exact zeros in the negative-frequency half, non-negative real part; free space == (306.3+176.9i)*pow(i*d,1/3), resistive wall == Z1*sqrt(i*d)*(1-i), collimator == Z0/pi*log(outer/inner) real positive; the factory equals the cell-wise sum of the selected contributions for all 24 switch combinations (parallel-plates model stubbed), nullptr iff none; parallel-plates limits and causality are NOT decided',
             ref='4/C16'),
 'C17': dict(technique='allocation-table bounds checking inside the symbolic executor on symbolic runs of the kick kernels, Impedance::operator+=, appendTracks, plus under-constrained symbolic runs of the real file loaders (makePSFromTXT, Impedance::readData, HDF5File::readPhaseSpace) with iostream/HDF5 calls as nondeterministic stubs and uninitialised-stack tracking; under-constrained symbolic execution of the slice of main() from the filling pattern to the ElectricField constructions with rounding as integer-theory constraints; z3 decides index ranges and the length inequalities',
             text='bounded symbolic verification for the listed units (not the whole program): displacements anywhere in [-2n,2n] and particles anywhere on the grid never index outside tables/grids; impedance tables shorter or longer than the grid are added in bounds; text loaders index the grid only inside [0,n) for arbitrary file contents and never read an unwritten local on any extraction-failure pattern; the HDF5 start file reader never divides by an empty extent; track output indexes inside the axes; for every bunch spacing >= grid width, padding, rounding option and filling pattern (grids 4-8, up to 5 bucket slots; thorough to 33 / 7) the padded lengths main computes cover bucket*spacing+grid; on every start-distribution route the grid width equals GridSize when fields and maps are built; tracking-file coordinates of any float value are mapped into the grid (IEEE theory)',
             ref='4/C17'),
 'C20': dict(technique='symbolic execution of ProgramOptions::parse from LLVM IR (compiled -fno-inline) with boost::program_options store/notify/lookups replaced by a model of their documented contract over a symbolic world (every scalar option given or not on the command line and in the config file, values arbitrary); the option registry is read from the object the real constructor builds; the model is compared with the native library on concrete scenarios in every run; z3 decides the precedence identity per option and path',
             text='bounded symbolic verification: on every path of parse() on which the run goes ahead, for every scalar option at once and arbitrary values, the bound variable equals the command-line value if given, else the config-file value under its current or legacy name, else the default shown by --help; string and vector options for the four placements with fixed values; compatibility options bind variables nothing else uses; a missing or unreadable config file and the information flags stop with a message; the parsers are given the right option groups with unknown names refused; tokenising and value conversion are boost\'s and not decided',
             ref='4/C20 (9.8)'),
 'C18': dict(technique='symbolic execution of every call history (wakePotential, padBunchProfiles, updateCSR; length <= 2/3, independent symbolic profiles) from LLVM IR with the FFT as an uninterpreted function of its entire input buffer; term identity with a fresh object decided by z3',
             text='bounded symbolic verification: after every history of up to 2 (quick) / 3 (thorough) calls with arbitrary earlier profiles, each of the three queries returns terms identical to those of the untouched snapshot object, for power-of-two, composite and prime transform lengths and bunch patterns with empty buckets; FFT stub assumptions calibrated natively per configuration',
             ref='4/C18'),
}
NA = {
 'C05': 'Haissinski equilibrium is the stationary state of thousands of composed nonlinear float steps with ln(rho) in the oracle: neither the fixed point nor its distance to the continuous solution is a bounded symbolic-execution question; its decidable ingredients (wake scale/placement C06, wake copied into the kick of the same bunch C06/C08, RF/drift fields and rotation C03, energy relaxation C04, step order C12/C14 grammar) are claimed there (DESIGN.md 5)',
 'C11': 'needs two complete program executions joined through a real HDF5 file (libhdf5 on both sides) and an equivalence over many float steps; only the record-index arithmetic and size guard of readPhaseSpace are encodable and are decided under C17 (DESIGN.md 5)',
}
PENDING = 'check not built yet in this round (breadth-first build in progress); no claim is made'
def main():
    props = [json.loads(l) for l in open(os.path.join(V, 'properties.jsonl'))]
    checks = []; na = []
    for p in props:
        i = p['id']
        if i in CHECKS:
            c = CHECKS[i]
            checks.append({'property_id': i, 'quick_cmd': './check %s quick' % i, 'thorough_cmd': './check %s thorough' % i,
                           'evidence_file': 'evidence/%s.json' % i, 'replay_cmd_template': './check %s --replay {path}' % i, 'engine': 'sx',
                           'level_claimed': {'category': 'model_checking', 'text': c['text'], 'design_ref': 'DESIGN.md ' + c['ref']},
                           'level_note': c.get('note', TB), 'technique': c['technique']})
        else:
            na.append({'property_id': i, 'reason': NA.get(i, PENDING)})
    m = {'version': 1, 'setup_cmd': 'sh setup.sh',
         'hooks': {'guard': 'INOVESA_VERIF', 'enable': 'checks compile /repo sources with clang++-14 -DINOVESA_VERIF=1 (no hook is needed so far: harnesses use the public API, private state is reached through the memory snapshot)',
                   'baseline_off_cmd': 'sh tools/run_repo_tests.sh', 'source_commits': [], 'add_only': True},
         'engines': [{'name': 'sx', 'path': 'sx/', 'serves_properties': sorted(CHECKS), 'kind_free_text': 'own symbolic executor for clang-14 LLVM IR over native memory snapshots; z3 (NRA / FP / BV+UF) decides every obligation'}],
         'checks': checks, 'not_applicable': na,
         'notes': 'exit 2 of a check = inconclusive or machinery error (never success). known-findings.txt lists fixed/open findings.'}
    json.dump(m, open(os.path.join(V, 'MANIFEST.json'), 'w'), indent=1)
if __name__ == '__main__': main()
