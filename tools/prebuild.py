import sys, os
sys.path.insert(0, os.path.join(os.path.dirname(os.path.abspath(__file__)), '..', 'checks'))
sys.path.insert(0, os.path.join(os.path.dirname(os.path.abspath(__file__)), '..', 'sx'))
import build as B
B.gc(keep=14)
import maps_common
maps_common.maps_build()
import field_common
field_common.field_build()
import c09, c16
c09.ps_build(); c16.imp_build()
import c10
c10.h5_build()
import c17, mainloop
c17.loaders_build(); mainloop.main_build()
import mainsetup; mainsetup.setup_build()
import c13
c13.opts_build()
import c20
c20.parse_build()
import c14
c14.all_build()
