#!/bin/sh
# usage: tools/try_seed.sh <patch file or seed name> <check id>...   (runs the checks on a scratch worktree of /repo HEAD with the patch applied)
P="$1"; shift
[ -f "$P" ] || P=/verif/seeded/$P/patch.diff
W=/tmp/tryrepo.$$
git -C /repo worktree add --detach $W HEAD -q || exit 9
trap 'git -C /repo worktree remove --force $W; git -C /repo worktree prune' EXIT
(cd $W && (git apply "$P" 2>/dev/null || patch -p1 --fuzz=3 --no-backup-if-mismatch < "$P" >/dev/null)) || { echo "patch does not apply"; exit 3; }
for c in "$@"; do VERIF_REPO=$W VERIF_SCRATCH=/tmp/tryscratch.$$ /verif/check $c quick | grep -E "VIOLATION|KNOWN|ERROR|INCONCL|WITNESS|MISMATCH|tier=" | cut -c1-260 | awk 'NR<=4 || /tier=/'; done
rm -rf /tmp/tryscratch.$$
