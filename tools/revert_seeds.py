#!/usr/bin/env python3
"""for every 'fixed:' entry of known-findings.txt: the reverse of the fix commit, as a seeded change under seeded/R-<property>-<commit>/ (must be reported again)"""
import os, re, json, subprocess
V = os.path.dirname(os.path.dirname(os.path.abspath(__file__)))
def sh(c): return subprocess.run(c, shell=True, capture_output=True, text=True)
for ln in open(os.path.join(V, 'known-findings.txt')):
    m = re.match(r'fixed:\s+property=(\S+)\s+(\w+)\s+(.*)', ln)
    if not m: continue
    pid, commit, text = m.groups()
    d = os.path.join(V, 'seeded', 'R-%s-%s' % (pid, commit)); os.makedirs(d, exist_ok=True)
    W = '/tmp/revrepo'; sh('git -C /repo worktree remove --force %s; rm -rf %s; git -C /repo worktree prune; git -C /repo worktree add --detach %s HEAD' % (W, W, W))
    r = sh('cd %s && git revert --no-commit %s' % (W, commit))
    if r.returncode != 0:
        print(pid, commit, 'revert conflicts:', r.stderr[:100]); sh('git -C /repo worktree remove --force %s' % W); continue
    diff = sh('cd %s && git diff HEAD' % W).stdout
    open(os.path.join(d, 'patch.diff'), 'w').write(diff)
    json.dump({'name': 'R-%s-%s' % (pid, commit), 'property': pid, 'kind': 'reverted fix (the defect found on the pinned tree comes back)', 'what_changed': 'git revert of ' + commit, 'needs_to_manifest': text.strip(),
               'confirmed_by_me': 'this is the pinned tree\'s own behaviour before the fix: the unit tests passed on it (baseline); the counterexample of the check was replayed natively when the finding was made'},
              open(os.path.join(d, 'meta.json'), 'w'), indent=1)
    sh('git -C /repo worktree remove --force %s; git -C /repo worktree prune' % W)
    print(pid, commit, 'ok', len(diff))
