#!/usr/bin/env python3
"""usage: tools/make_seed_round.py <round dir> [ID...]
Prepare a round of seeded-defect agents: one scratch git worktree of /repo per property under <round dir>/<ID> (outside /repo and /verif),
the property text in <worktree>/_seed/PROPERTY.json, and the prompt for the agent in <round dir>/_prompts/<ID>.txt.
An agent gets the property and its worktree only - nothing of /verif; the one-line list of ideas earlier rounds used (taken from seeded/*/meta.json,
i.e. from the changes, not from the checks) only serves to make it look elsewhere."""
import json, os, subprocess, sys, glob, re
V = '/verif'
ANGLES = {
    0: "prefer a defect that needs an UNUSUAL BUT LEGAL INPUT OR CONFIGURATION - a boundary value, an odd or tiny size, an extreme but valid parameter, a rarely used option or combination of options, a particular arithmetic coincidence such as a value that rounds the other way",
    1: "prefer a defect that needs a HISTORY - it only shows after an earlier call, step, output or object of the same process (stale state, a cache, a counter, a buffer reused), or through TWO COOPERATING SITES that each look fine alone",
    2: "prefer a defect in how the program WIRES THINGS TOGETHER (src/main.cpp, factories, constructors delegating to each other, units and scale factors handed from one component to the next), which only shows for a non-default but legal combination of options",
    3: "prefer a defect in a RARELY TAKEN BRANCH (multi-bunch filling with empty buckets, non-default interpolation/derivation/tracking settings, start distributions from files, odd sizes, the last element of a range)",
}
def short(t, n=260):
    t = re.sub(r'\s+', ' ', t or '').strip()
    m = re.match(r'(.{120,%d}?[.;])\s' % n, t + ' ')
    return (m.group(1) if m else t[:n]).rstrip('.;:')
def main():
    rd = sys.argv[1]; ids = sys.argv[2:]
    props = {json.loads(l)['id']: json.loads(l) for l in open(V + '/properties.jsonl')}
    ids = ids or sorted(props)
    os.makedirs(rd + '/_prompts', exist_ok=True)
    rn = int(re.sub(r'\D', '', os.path.basename(rd.rstrip('/'))) or 0)
    for k, pid in enumerate(ids):
        wt = f'{rd}/{pid}'
        if not os.path.isdir(wt):
            subprocess.check_call(['git', '-C', '/repo', 'worktree', 'add', '--detach', '-q', wt, 'HEAD'])
        os.makedirs(wt + '/_seed', exist_ok=True)
        json.dump(props[pid], open(wt + '/_seed/PROPERTY.json', 'w'), indent=1)
        used = []
        for f in sorted(glob.glob(f'{V}/seeded/{pid}*/meta.json')):
            try: w = json.load(open(f)).get('what_changed')
            except Exception: w = None
            if w: used.append(short(w))
        angle = ANGLES[(k + rn) % len(ANGLES)]
        p = f"""You are a C++ engineer helping to evaluate a verification effort by *seeding a realistic defect* into a scientific code base. Work ONLY inside the git worktree {wt} (a checkout of Inovesa, a C++ Vlasov-Fokker-Planck solver for longitudinal electron-bunch dynamics). Do not read or touch /repo, /verif or any other directory outside {wt} (system headers/libraries are fine). There is no network.

The semantic property you must break is in {wt}/_seed/PROPERTY.json (id {pid}: "{props[pid]['title']}"). Read it, then read the code it is anchored in.

Your job: make ONE small, realistic-looking change to the Inovesa sources (src/ and/or inc/ only; not the tests, not CMake) that
  (1) still compiles,
  (2) still passes the existing unit-test suite unchanged (build: `cmake -G Ninja -B _build -DCMAKE_BUILD_TYPE=RelWithDebInfo . && cmake --build _build -j4`, then `cd _build && ./inovesa-test` must report all 42 test cases passing, exit status 0),
  (3) breaks the property as stated, and
  (4) needs something SPECIFIC to manifest ({angle}) - NOT something ordinary use of the default configuration would expose at once. It should look like a plausible refactoring/optimisation/bug-fix slip a maintainer could make, not sabotage; no dead giveaways in comments.

Other engineers have already used these ideas for this property - do something clearly different, at a different site if possible:
{chr(10).join('  - ' + u for u in used) if used else '  (none yet)'}

Deliverables, all in {wt}/_seed/ :
  * patch.diff      - `git diff -- src inc` of your change (keep the change applied in the worktree too).
  * demo.cpp (or demo.sh / several files) plus build_demo.sh - a self-contained demonstration. `bash _seed/build_demo.sh`, run from the worktree root (the cmake configure step `cmake -G Ninja -B _build -DCMAKE_BUILD_TYPE=RelWithDebInfo .` will have been run before it, nothing else), must compile whatever it needs against the worktree's CURRENT sources (write its build products under _seed/_demo_build) and exit 0 when the property holds and non-zero when it is broken. It therefore has to exit 0 on the pristine sources (verify with `git stash` / `git stash pop` or `git apply -R`) and non-zero with your change. The demonstration should test the property itself (as the statement words it), not merely detect your edit. It may link the real sources directly (compile the needed src/*.cpp files with g++ -std=c++14 -fext-numeric-literals -I inc -I <dir with InovesaConfig.hpp>; _build/InovesaConfig.hpp exists after cmake; HDF5 headers are in /usr/include/hdf5/serial, libs: -lhdf5_cpp -lhdf5 in /usr/lib/x86_64-linux-gnu/hdf5/serial; FFTW: -lfftw3f; boost: -lboost_program_options -lboost_filesystem -lboost_system) or drive the built program _build/inovesa. Keep its run time under two minutes.
  * meta.json       - {{"property": "{pid}", "what_changed": "...", "needs_to_manifest": "...", "why_tests_pass": "..."}}.

Before you finish, verify all of it yourself: build with the change, run the unit tests (42 pass), run the demo with the change (non-zero), revert the change, run the demo (zero), re-apply the change. Remove large build products you no longer need except _build. Your final message should be a short summary: files changed, what is needed to manifest, the commands you ran and their exit codes."""
        open(f'{rd}/_prompts/{pid}.txt', 'w').write(p)
        print(pid, 'angle', (k + rn) % len(ANGLES), 'used', len(used))
if __name__ == '__main__': main()
