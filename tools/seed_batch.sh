#!/bin/sh
# usage: tools/seed_batch.sh <round dir> <suffix> <ID>...   confirm each seed <round dir>/<ID>/_seed as <ID><suffix> (if not stored yet) and run its property's quick check on it
D="$1"; SUF="$2"; shift 2
for id in "$@"; do
  n="$id$SUF"
  if [ ! -f /verif/seeded/$n/patch.diff ]; then sh /verif/tools/confirm_seed.sh $n $D/$id/_seed 2>&1 | tail -1; fi
  [ -f /verif/seeded/$n/patch.diff ] && python3 /verif/tools/run_seeds.py $n 2>&1 | grep -v WARNING
done
